"""./check driver (DESIGN.md sections 2 and 5)."""
from __future__ import annotations

import argparse
import importlib
import json
import os
import re
import subprocess
import sys
import time
import traceback
from pathlib import Path

from harness import common
from harness.common import COQ, VERIF, Ctx, Untranslatable

HYGIENE = r"\b(Admitted|admit|Axiom|Axioms|Parameter|Parameters|Conjecture|Conjectures|Abort All)\b|Unset Guard|bypass_check|type-in-type|impredicative-set|Admit Obligations|Unset Universe Checking|Unset Positivity"


def prop_modules():
    out = []
    for p in sorted((VERIF / "harness" / "props").glob("c[0-9][0-9].py")):
        out.append(p.stem.upper())
    return out


def strip_comments(src: str) -> str:
    out, depth, i = [], 0, 0
    while i < len(src):
        if src.startswith("(*", i):
            depth += 1
            i += 2
        elif src.startswith("*)", i) and depth:
            depth -= 1
            i += 2
        else:
            if not depth:
                out.append(src[i])
            i += 1
    return "".join(out)


def closure(targets: list[str]) -> list[Path]:
    """The .v files a property depends on: its targets' sources plus everything they `Require` from XV,
    transitively (so that another property's half-written file cannot fail this check)."""
    todo = [COQ / t.replace(".vo", ".v") for t in targets]
    seen: dict[Path, None] = {}
    while todo:
        f = todo.pop()
        if f in seen or not f.exists():
            continue
        seen[f] = None
        src = strip_comments(f.read_text())
        mods = []
        for m in re.finditer(r"From\s+XV\s+Require\s+(?:Import\s+|Export\s+)?(.*?)\.(?=\s|$)", src, re.S):
            mods += m.group(1).split()
        for m in re.finditer(r"(?<![\w.])Require\s+(?:Import\s+|Export\s+)?(.*?)\.(?=\s|$)", src, re.S):
            mods += [x[3:] for x in m.group(1).split() if x.startswith("XV.")]
        for mod in mods:
            cand = COQ / (mod.replace(".", "/") + ".v")
            if cand.exists():
                todo.append(cand)
    return sorted(seen)


def hygiene(files: list[Path] | None = None) -> list[str]:
    hits = []
    for p in (sorted(COQ.rglob("*.v")) if files is None else files):
        src = strip_comments(p.read_text())
        # string literals may legitimately contain words; drop them
        src = re.sub(r'"(?:[^"]|"")*"', '""', src)
        stack = []
        for i, line in enumerate(src.split("\n"), 1):
            if re.search(HYGIENE, line):
                hits.append(f"{p.relative_to(VERIF)}:{i}: {line.strip()[:120]}")
            m = re.match(r"\s*(Section|Module(?:\s+Type)?)\s+(\w+)\s*([.:(]|$)", line)
            if m and ":=" not in line:
                stack.append((m.group(1), m.group(2)))
            m = re.match(r"\s*End\s+(\w+)\s*\.", line)
            if m and stack and stack[-1][1] == m.group(1):
                stack.pop()
            if re.match(r"\s*(Variable|Variables|Hypothesis|Hypotheses|Context)\b", line):
                if not any(k == "Section" for k, _ in stack):
                    hits.append(f"{p.relative_to(VERIF)}:{i}: Variable/Hypothesis outside Section")
    return hits


def setup() -> int:
    t0 = time.time()
    (VERIF / "build").mkdir(exist_ok=True)
    (COQ / "Gen").mkdir(exist_ok=True)
    rc = 0
    for pid in prop_modules():
        mod = importlib.import_module(f"harness.props.{pid.lower()}")
        if hasattr(mod, "generate"):
            try:
                mod.generate(Ctx(pid, "quick", 0))
            except Untranslatable as e:
                print(f"setup: translator for {pid} failed: {e}")
    hits = hygiene()
    if hits:
        print("setup: hygiene violations:\n" + "\n".join(hits))
        rc = 1
    res = common.coq_make(["-k"])
    if not res.ok:
        # per-property isolation: every check rebuilds exactly its own targets and reports a broken
        # proof itself, so a file that fails here must not stop the other properties from being set up
        print("setup: some Coq files failed to build (the owning checks will report them):\n" + res.log[-3000:])
    print(f"setup done in {time.time() - t0:.1f}s rc={rc}")
    return rc


def run_property(pid: str, tier: str, seed: int, replay: str | None) -> int:
    mod = importlib.import_module(f"harness.props.{pid.lower()}")
    ctx = Ctx(pid, tier, seed)
    ctx.assumptions = list(getattr(mod, "ASSUMPTIONS", []))
    ctx.trusted = list(getattr(mod, "TRUSTED", []))
    try:
        if replay:
            data = json.loads(Path(replay).read_text())
            return mod.replay(ctx, data) if hasattr(mod, "replay") else generic_replay(mod, ctx, data)
        deps = closure(list(mod.COQ_TARGETS) + [getattr(mod, "PROPS_FILE", f"Props/{pid}.v").replace(".v", ".vo")])
        hits = hygiene(deps)
        ctx.coverage["coq_files_in_dependency_closure"] = [str(d.relative_to(COQ)) for d in deps]
        if hits:
            ctx.broken.append({"hygiene": hits[:10]})
        gen_ok = True
        if hasattr(mod, "generate"):
            try:
                mod.generate(ctx)
            except Untranslatable as e:
                gen_ok = False
                ctx.broken.append({"translator": str(e)})
        if hasattr(mod, "generate"):   # generated files exist only now: re-scan the closure
            deps = closure(list(mod.COQ_TARGETS) + [getattr(mod, "PROPS_FILE", f"Props/{pid}.v").replace(".v", ".vo")])
            hits2 = [h for h in hygiene(deps) if h not in hits]
            ctx.coverage["coq_files_in_dependency_closure"] = [str(d.relative_to(COQ)) for d in deps]
            if hits2:
                ctx.broken.append({"hygiene": hits2[:10]})
        br = ctx.coq_build(mod.COQ_TARGETS, getattr(mod, "PROPS_FILE", f"Props/{pid}.v"))
        ctx.proof_ok = br.ok and gen_ok
        if not br.ok:
            ctx.broken.append({"proof": br.failed_file, "message": (br.failed_msg or "")[-1500:]})
        mod.run(ctx)
        if ctx.broken and not ctx.violations:
            ctx.violation({"no_longer_checks": ctx.broken}, nofail=True)
    except Exception:
        tb = traceback.format_exc()
        print(tb, file=sys.stderr)
        ctx.broken.append({"harness_exception": tb[-2000:]})
        ctx.violation({"no_longer_checks": ctx.broken}, nofail=True)
    finally:
        if not replay:
            ctx.write_evidence(getattr(mod, "LEVEL", "proof"))
        ctx.cleanup()
    n = len(ctx.violations)
    print(f"{pid} tier={tier} seed={seed}: obligations {ctx.discharged}/{ctx.obligations}, "
          f"{ctx.evaluations} cases, {len(ctx.nontrivial)} distinct non-trivial, "
          f"{len(ctx.known_lines)} known finding(s), {n} violation(s), {time.time() - ctx.t0:.1f}s")
    return 1 if n else 0


def generic_replay(mod, ctx, data) -> int:
    print(json.dumps(data, indent=1))
    if hasattr(mod, "replay_case"):
        return mod.replay_case(ctx, data.get("witness", {}))
    print("no replay_case for this property; the witness above is self-describing")
    return 0


def main() -> int:
    ap = argparse.ArgumentParser()
    ap.add_argument("prop", nargs="?")
    ap.add_argument("--setup", action="store_true")
    ap.add_argument("--tier", default=os.environ.get("VERIF_TIER", "quick"), choices=["quick", "thorough"])
    ap.add_argument("--replay")
    ap.add_argument("--seed", type=int, default=int(os.environ.get("VERIF_SEED", "0") or 0))
    a = ap.parse_args()
    if a.setup:
        return setup()
    if not a.prop:
        ap.error("property id required")
    return run_property(a.prop.upper(), a.tier, a.seed, a.replay)


if __name__ == "__main__":
    sys.exit(main())
