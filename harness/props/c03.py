"""C03 -- Structural equivalence holds exactly for isomorphic IR.

Tie: hand-written Coq model (coq/C03/Model.v) of Operation/Block/Region.is_structurally_equivalent with
the mutable `context` dict threaded, vs the real methods on pairs of real IR built with the xDSL API
(test.op / test.termop / test.pureop with operands, result types, attributes, properties, successors,
nested multi-block regions, block arguments; builtin.module for the parsed test corpus).  Every case runs
BOTH argument orders, each with a fresh explicit context; compared are the boolean and the final context
dict (so the registration order and the partial context left behind by a failing comparison are part of
the correspondence).  Pairs: IR vs itself, vs its clone(), vs a fresh copy, vs every kind of single-point
mutation (result type, arg type, attribute, property, op name, operand wiring, successor, block order,
op order, extra result/arg/op), vs unrelated IR, sibling sub-trees of one IR, attached and detached roots,
use-before-def (graph regions), operands borrowed from the other IR.
Oracle (independent of the model): canonical form of each IR (inside values/blocks numbered by traversal
position collected BEFORE uses are encoded, outside ones by identity, result types included); the property
demands real(a,b) == (canon(a) == canon(b)) in both orders (this includes reflexivity, symmetry, clone).
Non-trivial: the left IR has >= 2 operations; distinct = (kind, mode, canonical form of both sides).
"""
from __future__ import annotations

import copy
import json

from harness.common import Ctx, DiffSpec, differential, replay_findings

META = {
    "id": "C03",
    "title": "Structural equivalence holds exactly for isomorphic IR",
    "design_ref": "DESIGN.md section 8.C03",
    "technique": "Coq proof (mutual induction over IR trees) that the threaded-context comparison decides tree isomorphism "
                 "+ model-vs-code correspondence on generated/mutated/corpus IR pairs",
    "level_text": (
        "Theorems in coq/Props/C03.v about a statement-by-statement model of is_structurally_equivalent for ALL IR trees: "
        "on the unchanged tree the full statement is REFUTED four ways (result types never compared; use-before-def compared "
        "by identity so IR is not equivalent to its clone; an attached op is not equivalent to itself; an outside operand of the "
        "left IR that is defined inside the right IR is compared by identity, breaking symmetry) and the strongest partial "
        "statements are proved: sound (-> isomorphism) when defs precede uses, outside uses of the left are outside the right "
        "and result types agree; complete when defs precede uses and a root is detached; reflexive for every detached op / "
        "every block / every region including use-before-def; symmetric; equivalent to the clone model. The same theorems are "
        "proved for the repaired configurations (result types compared; parent checked only when in the context). The model is "
        "tied to xdsl/ir/core.py by differential runs comparing result AND final context in both argument orders."),
    "level_note": (
        "Trusted: Coq kernel; hand-written model (object identities = nat ids, attribute/property dicts, types and op names = "
        "interned opaque payloads); correspondence harness. Modelled: Operation/Block/Region.is_structurally_equivalent incl. "
        "context threading. Not covered: the isinstance(other, ...) early exits for mixed node kinds; OperationInfo.__eq__/__hash__ "
        "(CSE) is modelled (op_info_eq) and compared with the real class incl. payloads whose CPython hashes collide; the real "
        "ModulePass.schedule_space and HashableModule.__eq__/__hash__ are run with ad-hoc passes and compared with se_op on the dumped pair; "
        "Operation.clone itself (C02) -- the clone theorem is about a renaming model of clone."),
}
COQ_TARGETS = ["C03/Enc.vo", "C03/ProofsMain.vo", "Props/C03.vo"]
REQ = ["C03.Model", "C03.Enc"]
ASSUMPTIONS = ["IR trees have unique value/block identities and consistent parent pointers (C01)"]
TRUSTED: list[str] = []
MODEL_CFG = "cfg_repo"          # configuration of the model used for the correspondence (Model.v: cfg_repo)

NT, NA, NP, NOUTV, NOUTB = 4, 5, 4, 4, 2
COLLIDE = [-1, -2, 0, 2 ** 61 - 1, 1, 2 ** 61]


# ------------------------------------------------------------------------------------------------
# building real IR from a spec

def _pools():
    from xdsl.dialects.builtin import IntAttr, IntegerAttr, StringAttr, f32, i1, i32, i64
    types = [i32, i64, f32, i1]
    attrs = [{}, {"x": StringAttr("a")}, {"x": StringAttr("b")}, {"y": StringAttr("a")},
             {"x": StringAttr("a"), "y": StringAttr("a")}]
    props = [{}, {"prop1": StringAttr("a")}, {"prop1": StringAttr("b")}, {"prop2": StringAttr("a")}]
    # indices >= NA / NP: payloads whose CPython hashes collide pairwise (hash(-1) == hash(-2),
    # hash(0) == hash(2**61-1), hash(1) == hash(2**61)) although the attributes differ
    for v in COLLIDE:
        attrs.append({"x": IntAttr(v)})
        props.append({"prop1": IntAttr(v)})
    for v in COLLIDE:
        attrs.append({"x": IntegerAttr(v, i64)})
        props.append({"prop1": IntegerAttr(v, i64)})
    return types, attrs, props


class Env:
    """name tables of one built IR + the pool of outside values/blocks shared by the pair"""

    def __init__(self, shared):
        self.v, self.b = {}, {}
        self.shared = shared
        self.patches = []        # (op, index, ref)   operands resolved after everything exists
        self.spatches = []


def _shared():
    from xdsl.dialects import test
    from xdsl.ir import Block
    types, _, _ = _pools()
    holder = test.TestOp(result_types=[types[i % NT] for i in range(NOUTV - 1)])
    ob = [Block(arg_types=[types[0]]) for _ in range(NOUTB)]
    outv = list(holder.results) + [ob[0].args[0]]
    return {"outv": outv, "outb": ob, "keep": [holder]}


def _resolve_v(env, other, ref):
    t, n = ref
    if t == "i":
        return env.v.get(n)
    if t == "o":
        return env.shared["outv"][n % NOUTV]
    return other.v.get(n) if other is not None else None          # "x": value of the other IR


def _resolve_b(env, other, ref):
    t, n = ref
    if t == "i":
        return env.b.get(n)
    if t == "o":
        return env.shared["outb"][n % NOUTB]
    return other.b.get(n) if other is not None else None


def _precreate_blocks(spec_blocks, env):
    from xdsl.ir import Block
    types, _, _ = _pools()
    for bs in spec_blocks:
        blk = Block(arg_types=[types[t] for _, t in bs["args"]])
        env.b[bs["n"]] = blk
        for (name, _), arg in zip(bs["args"], blk.args):
            env.v[name] = arg
        for o in bs["ops"]:
            for r in o["g"]:
                _precreate_blocks(r, env)


def _build_op(o, env, other):
    from xdsl.dialects import test
    from xdsl.ir import Region
    types, attrs, props = _pools()
    regions = [Region([_build_block(bs, env, other) for bs in r]) for r in o["g"]]
    operands, succs, pend_v, pend_b = [], [], [], []
    for i, ref in enumerate(o["o"]):
        val = _resolve_v(env, other, ref)
        if val is None:                      # not built yet (use before def / reference into the other IR)
            val = env.shared["outv"][0]
            pend_v.append((i, ref))
        operands.append(val)
    for i, ref in enumerate(o["s"]):
        blk = _resolve_b(env, other, ref)
        if blk is None:
            blk = env.shared["outb"][0]
            pend_b.append((i, ref))
        succs.append(blk)
    kw = dict(operands=operands, result_types=[types[t] for _, t in o["r"]],
              attributes=dict(attrs[o["a"]]), properties=dict(props[o["p"]]), regions=regions)
    k = o["k"]
    if k == 0:
        op = test.TestOp(**kw)
    elif k == 1:
        op = test.TestTermOp(successors=succs, **kw)
    else:
        op = test.TestPureOp(successors=succs, **kw)
    for (name, _), res in zip(o["r"], op.results):
        env.v[name] = res
    env.patches += [(op, i, ref) for i, ref in pend_v]
    env.spatches += [(op, i, ref) for i, ref in pend_b]
    return op


def _build_block(bs, env, other):
    blk = env.b[bs["n"]]
    for o in bs["ops"]:
        blk.add_op(_build_op(o, env, other))
    return blk


def _apply_patches(env, other):
    left_v, left_b = [], []
    for op, i, ref in env.patches:
        val = _resolve_v(env, other, ref)
        if val is not None:
            op.operands[i] = val
        else:
            left_v.append((op, i, ref))
    for op, i, ref in env.spatches:
        blk = _resolve_b(env, other, ref)
        if blk is not None:
            op.successors[i] = blk
        else:
            left_b.append((op, i, ref))
    env.patches, env.spatches = left_v, left_b


def _build_root(kind, spec, env, other):
    from xdsl.ir import Region
    if kind == "op":
        for r in spec["g"]:
            _precreate_blocks(r, env)
        return _build_op(spec, env, other)
    if kind == "block":
        _precreate_blocks([spec], env)
        return _build_block(spec, env, other)
    _precreate_blocks(spec, env)
    return Region([_build_block(bs, env, other) for bs in spec])


def _attach(kind, node, keep):
    from xdsl.dialects import test
    from xdsl.ir import Block, Region
    if kind == "op":
        keep.append(Block([node]))
    elif kind == "block":
        keep.append(Region([node]))
    else:
        keep.append(test.TestOp(regions=[node]))


def _pick(root, path, kind):
    """path into an op: [region, block, op, region, block, op ...]; the node kind decides where it stops"""
    node, level = root, "op"
    for i in path:
        if level == "op":
            node, level = node.regions[i], "region"
        elif level == "region":
            node, level = node.blocks[i], "block"
        else:
            node, level = list(node.ops)[i], "op"
    assert level == kind, (level, kind)
    return node


def build(case):
    """-> (A, B, keepalive)"""
    kind, mode = case["kind"], case["mode"]
    shared = _shared()
    keep = [shared]
    if mode == "corpus":
        return build_corpus(case)
    ea = Env(shared)
    if mode == "sub":
        root = _build_root("op", case["a"], ea, None)
        _apply_patches(ea, None)
        keep.append(root)
        return _pick(root, case["pa"], kind), _pick(root, case["pb"], kind), keep
    A = _build_root(kind, case["a"], ea, None)
    _apply_patches(ea, None)
    att = case.get("attach", [0, 0])
    if att[0]:
        _attach(kind, A, keep)
    if mode == "self":
        return A, A, keep
    if mode == "clone":
        if kind == "op":
            B = A.clone()
        elif kind == "region":
            B = A.clone()
        else:
            from xdsl.ir import Region
            if A.parent is None:
                keep.append(Region([A]))
            rc = A.parent.clone()
            keep.append(rc)
            B = rc.blocks[0]
            if not att[1]:
                rc.detach_block(B)
        if att[1] and kind != "block":
            _attach(kind, B, keep)
        return A, B, keep
    eb = Env(shared)
    B = _build_root(kind, case["b"], eb, ea)
    _apply_patches(eb, ea)
    _apply_patches(ea, eb)          # "x" references of A into B, resolvable only now
    if att[1]:
        _attach(kind, B, keep)
    return A, B, keep


# ------------------------------------------------------------------------------------------------
# dumping real IR into the model's form (ids by first appearance over both trees)

class Num:
    def __init__(self):
        self.v, self.b, self.t, self.a, self.p, self.n = {}, {}, {}, {}, {}, {}
        self.objs = []

    def _get(self, table, key, obj=None, start=0):
        if key not in table:
            table[key] = len(table) + start
            if obj is not None:
                self.objs.append(obj)
        return table[key]

    def val(self, x):
        return self._get(self.v, id(x), x, 1)

    def blk(self, x):
        return self._get(self.b, id(x), x, 1)

    def typ(self, x):
        return self._get(self.t, x)

    def dct(self, table, d):
        return self._get(table, tuple(sorted(d.items(), key=lambda kv: kv[0])))

    def name(self, x):
        return self._get(self.n, x)


def dump_op(op, num):
    return {"n": num.name(op.name), "o": [num.val(x) for x in op.operands],
            "r": [[num.val(r), num.typ(r.type)] for r in op.results],
            "a": num.dct(num.a, op.attributes), "p": num.dct(num.p, op.properties),
            "s": [num.blk(s) for s in op.successors],
            "g": [dump_region(r, num) for r in op.regions],
            "par": 0 if op.parent is None else num.blk(op.parent)}


def dump_block(b, num):
    bid = num.blk(b)
    args = [[num.val(a), num.typ(a.type)] for a in b.args]
    return {"b": bid, "args": args, "ops": [dump_op(o, num) for o in b.ops]}


def dump_region(r, num):
    return [dump_block(b, num) for b in r.blocks]


def dump(kind, node, num):
    return {"op": dump_op, "block": dump_block, "region": dump_region}[kind](node, num)


def coq_nats(l):
    return "[" + "; ".join(str(x) for x in l) + "]"


def coq_pairs(l):
    return "[" + "; ".join(f"({a}, {b})" for a, b in l) + "]"


def coq_of_op(d):
    regs = "[" + "; ".join(coq_of_region(r) for r in d["g"]) + "]"
    return (f"(mk {d['n']} {coq_nats(d['o'])} {coq_pairs(d['r'])} {d['a']} {d['p']} {coq_nats(d['s'])} "
            f"{regs} {d['par']})")


def coq_of_block(d):
    return f"(bk {d['b']} {coq_pairs(d['args'])} [" + "; ".join(coq_of_op(o) for o in d["ops"]) + "])"


def coq_of_region(d):
    return "[" + "; ".join(coq_of_block(b) for b in d) + "]"


def coq_of(kind, d):
    return {"op": coq_of_op, "block": coq_of_block, "region": coq_of_region}[kind](d)


_CACHE: dict = {}


def prepared(case):
    """build + dump once per case (impl, coq_expr, holds, known all look at the same dump)"""
    key = json.dumps(case, sort_keys=True)
    if key not in _CACHE:
        if len(_CACHE) > 4:
            _CACHE.clear()
        A, B, keep = build(case)
        num = Num()
        da = dump(case["kind"], A, num)
        db = da if B is A else dump(case["kind"], B, num)
        _CACHE[key] = (A, B, keep, num, da, db)
    return _CACHE[key]


def _run(x, y, num):
    from xdsl.ir import Block, SSAValue
    ctx: dict = {}
    r = x.is_structurally_equivalent(y, ctx)
    r0 = x.is_structurally_equivalent(y)
    vp, bp = [], []
    for k, v in ctx.items():
        if isinstance(k, SSAValue):
            vp.append([num.val(k), num.val(v)])
        elif isinstance(k, Block):
            bp.append([num.blk(k), num.blk(v)])
        else:
            vp.append([-7, -7])
    if r0 is not r:
        return [-99, [], []]
    return [1 if r else 0, sorted(vp), sorted(bp)]


def impl(case):
    A, B, keep, num, da, db = prepared(case)
    return [_run(A, B, num), _run(B, A, num)]


def coq_expr(case):
    A, B, keep, num, da, db = prepared(case)
    kind = case["kind"]
    return f"(c03_{kind} {MODEL_CFG} {coq_of(kind, da)} {coq_of(kind, db)})%nat"


def impl_info(case):
    """the CSE consumer: OperationInfo(a) == OperationInfo(b) (regions compared pairwise, each with a fresh context)"""
    from xdsl.transforms.common_subexpression_elimination import OperationInfo
    A, B, keep, num, da, db = prepared(case)
    try:
        return 1 if OperationInfo(A) == OperationInfo(B) else 0
    except ValueError:
        return -1


def coq_expr_info(case):
    A, B, keep, num, da, db = prepared(case)
    return f"(c03_opinfo {MODEL_CFG} {coq_of_op(da)} {coq_of_op(db)})%nat"


def holds_info(case, res):
    """CSE may treat two ops as the same only if name, attribute dict, property dict, operands (identical values)
    and result types agree (necessary condition, read off the dump of the real ops; regions are covered by the
    correspondence with the model)"""
    A, B, keep, num, da, db = prepared(case)
    if res == 1:
        for f, what in (("n", "op names"), ("a", "attribute dictionaries"), ("p", "property dictionaries"),
                        ("o", "operands")):
            if da[f] != db[f]:
                return False, f"OperationInfo(a) == OperationInfo(b) although the {what} differ"
        if [t for _, t in da["r"]] != [t for _, t in db["r"]]:
            return False, "OperationInfo(a) == OperationInfo(b) although the result types differ"
    return True, ""


def collision_cases():
    """pairs of ops that differ only in one attribute / property payload, all payload pairs of the collision pool
    (IntAttr and IntegerAttr), with and without a region"""
    out = []
    n = len(COLLIDE)
    for base, field in ((NA, "a"), (NP, "p")):
        for flavour in (0, n):
            for i in range(n):
                for j in range(n):
                    for reg in (0, 1):
                        g = [[{"n": 1, "args": [], "ops": [_op(r=[(2, 0)])]}]] if reg else []
                        a, b = _op(r=[(1, 0)], g=g), _op(r=[(1, 0)], g=copy.deepcopy(g))
                        a[field], b[field] = base + flavour + i, base + flavour + j
                        out.append({"kind": "op", "mode": "spec", "a": a, "b": b, "attach": [0, 0], "mut": "collide"})
    return out


# ------------------------------------------------------------------------------------------------
# consumers: ModulePass.schedule_space and HashableModule.__eq__/__hash__ on (module, clone mutated by a pass)

PASS_KINDS = ["noop", "noop-touch", "body-attr", "body-addop", "body-erase", "module-attr", "module-symname",
              "module-symname-same"]


def _pass_mutation(kind):
    from xdsl.dialects import test
    from xdsl.dialects.builtin import StringAttr

    def mut(op):
        body = list(op.body.block.ops)
        if kind == "noop":
            return
        if kind == "noop-touch":                      # rewrites what is already there
            op.attributes = dict(op.attributes)
            op.sym_name = op.sym_name
        elif kind == "body-attr":
            if body:
                body[0].attributes["c03_pass"] = StringAttr("touched")
        elif kind == "body-addop":
            op.body.block.add_op(test.TestOp())
        elif kind == "body-erase":
            dead = [o for o in body if not any(r.uses for r in o.results)]
            if dead:
                op.body.block.erase_op(dead[-1])
        elif kind == "module-attr":                   # only the builtin.module op itself changes
            op.attributes["c03_pass"] = StringAttr("touched")
        elif kind == "module-symname":
            op.sym_name = StringAttr("renamed_by_pass")
        elif kind == "module-symname-same":
            op.sym_name = StringAttr("m")
    return mut


def build_module(case):
    from xdsl.dialects.builtin import ModuleOp, StringAttr
    from xdsl.ir import Region
    _, attrs, _ = _pools()
    shared = _shared()
    env = Env(shared)
    blk = _build_root("block", case["body"], env, None)
    _apply_patches(env, None)
    m = ModuleOp(Region([blk]), attributes=dict(attrs[case["ma"]]),
                 sym_name=StringAttr("m") if case["sym"] else None)
    return m, [shared]


_CCACHE: dict = {}


def prepared_cons(case):
    key = json.dumps(case, sort_keys=True)
    if key not in _CCACHE:
        _CCACHE.clear()
        A, keep = build_module(case)
        B = A.clone()
        _pass_mutation(case["pass"])(B)               # what apply_to_clone does to its clone
        num = Num()
        _CCACHE[key] = (A, B, keep, num, dump_op(A, num), dump_op(B, num))
    return _CCACHE[key]


def impl_cons(case):
    """[schedule_space says 'pass does nothing', HashableModule(a) == HashableModule(b), (b) == (a), hashes agree]"""
    from dataclasses import dataclass

    from xdsl.context import Context
    from xdsl.passes import ModulePass
    from xdsl.utils.hashable_module import HashableModule
    A, B, keep, num, da, db = prepared_cons(case)
    mut = _pass_mutation(case["pass"])

    @dataclass(frozen=True)
    class C03Pass(ModulePass):
        name = "c03-adhoc"

        def apply(self, ctx, op):
            mut(op)

    space = C03Pass.schedule_space(Context(), A)
    ha, hb = HashableModule(A), HashableModule(B)
    return [1 if len(space) == 0 else 0, 1 if ha == hb else 0, 1 if hb == ha else 0,
            1 if hash(ha) == hash(hb) else 0]


def coq_expr_cons(case):
    A, B, keep, num, da, db = prepared_cons(case)
    return f"(c03_consumers {MODEL_CFG} {coq_of_op(da)} {coq_of_op(db)})%nat"


def _facts_cons(case):
    A, B, keep, num, da, db = prepared_cons(case)
    return da, db, canon("op", da) == canon("op", db), canon("op", da, False) == canon("op", db, False)


def holds_cons(case, res):
    da, db, iso, _ = _facts_cons(case)
    unchanged, eq_ab, eq_ba, _h = res
    if bool(unchanged) != iso:
        return False, ("schedule_space reports the pass as not applicable although it changes the module (whole-module "
                       "canonical forms differ)" if unchanged else
                       "schedule_space offers a pass whose result is isomorphic to the input module")
    if bool(eq_ab) != iso or bool(eq_ba) != iso:
        return False, f"HashableModule equality is {eq_ab}/{eq_ba} but module isomorphism is {iso}"
    return True, ""


def holds_cons_hash(case, res):
    ok, why = holds_cons(case, res)
    if ok and res[1] and not res[3]:
        return False, "HashableModule: equal modules with different hashes"
    return ok, why


def known_cons(case, res):
    da, db, iso, iso_nort = _facts_cons(case)
    ids = []
    for (x, y, r) in ((da, db, res[0]), (da, db, res[1]), (db, da, res[2])):
        if bool(r) == iso:
            continue
        if not defs_precede_uses("op", x):
            ids.append("C03-kf-2")
        else:
            return None
    return ids[0] if ids else None


def gen_cons_case(rng):
    fwd = rng.random() < 0.1
    g = Gen(rng, fwd, rng.choice([2, 4, 7]), 2)
    body = g.block(0)
    body["args"] = []
    g.wire("block", body)
    return {"body": body, "ma": rng.choices(range(NA), [5, 2, 1, 1, 1])[0], "sym": int(rng.random() < 0.5),
            "pass": rng.choice(PASS_KINDS), "fwd": int(fwd)}


# ------------------------------------------------------------------------------------------------
# the independent oracle: canonical forms

def _collect(kind, d, vs, bs):
    if kind == "op":
        for r in d["g"]:
            _collect("region", r, vs, bs)
        vs.extend(r[0] for r in d["r"])
    elif kind == "block":
        bs.append(d["b"])
        vs.extend(a[0] for a in d["args"])
        for o in d["ops"]:
            _collect("op", o, vs, bs)
    else:
        for b in d:
            _collect("block", b, vs, bs)


def inside(kind, d):
    vs, bs = [], []
    _collect(kind, d, vs, bs)
    return vs, bs


def canon(kind, d, with_rt=True):
    vs, bs = inside(kind, d)
    vi = {v: i for i, v in enumerate(vs)}
    bi = {b: i for i, b in enumerate(bs)}

    def cv(x):
        return ("i", vi[x]) if x in vi else ("o", x)

    def cb(x):
        return ("i", bi[x]) if x in bi else ("o", x)

    def c_op(o):
        return ("op", o["n"], tuple(cv(x) for x in o["o"]),
                tuple(t for _, t in o["r"]) if with_rt else len(o["r"]),
                o["a"], o["p"], tuple(cb(s) for s in o["s"]), tuple(c_region(r) for r in o["g"]))

    def c_block(b):
        return ("blk", tuple(t for _, t in b["args"]), tuple(c_op(o) for o in b["ops"]))

    def c_region(r):
        return ("reg", tuple(c_block(b) for b in r))

    return {"op": c_op, "block": c_block, "region": c_region}[kind](d)


def count_ops(kind, d):
    if kind == "op":
        return 1 + sum(count_ops("region", r) for r in d["g"])
    if kind == "block":
        return sum(count_ops("op", o) for o in d["ops"])
    return sum(count_ops("block", b) for b in d)


def defs_precede_uses(kind, d):
    """walk in the order of the comparison; False if some use of an inside value/block comes before its registration"""
    vs, bs = inside(kind, d)
    vs, bs = set(vs), set(bs)
    seen_v, seen_b = set(), set()
    ok = [True]

    def v_op(o):
        for x in o["o"]:
            if x in vs and x not in seen_v:
                ok[0] = False
        for s in o["s"]:
            if s in bs and s not in seen_b:
                ok[0] = False
        for r in o["g"]:
            v_region(r)
        seen_v.update(r[0] for r in o["r"])

    def v_block(b):
        seen_v.update(a[0] for a in b["args"])
        seen_b.add(b["b"])
        for o in b["ops"]:
            v_op(o)

    def v_region(r):
        seen_b.update(b["b"] for b in r)
        for b in r:
            v_block(b)

    {"op": v_op, "block": v_block, "region": v_region}[kind](d)
    return ok[0]


def uses(kind, d, accv, accb):
    if kind == "op":
        accv.extend(d["o"])
        accb.extend(d["s"])
        for r in d["g"]:
            uses("region", r, accv, accb)
    elif kind == "block":
        for o in d["ops"]:
            uses("op", o, accv, accb)
    else:
        for b in d:
            uses("block", b, accv, accb)


def outside_uses_stay_outside(kind, da, db):
    """no operand/successor of a that is outside a is defined inside b"""
    va, ba = inside(kind, da)
    vb, bb = inside(kind, db)
    uv, ub = [], []
    uses(kind, da, uv, ub)
    return (not any(x not in set(va) and x in set(vb) for x in uv)
            and not any(x not in set(ba) and x in set(bb) for x in ub))


def _facts(case):
    A, B, keep, num, da, db = prepared(case)
    kind = case["kind"]
    iso = canon(kind, da) == canon(kind, db)
    iso_nort = canon(kind, da, False) == canon(kind, db, False)
    return kind, da, db, iso, iso_nort


def holds(case, res):
    kind, da, db, iso, iso_nort = _facts(case)
    for tag, r in (("a~b", res[0][0]), ("b~a", res[1][0])):
        if r not in (0, 1):
            return False, f"{tag}: result with and without an explicit context differ"
        if bool(r) != iso:
            what = ("reported equivalent but no value/block correspondence makes every op and block agree"
                    if r else "isomorphic (same canonical form incl. result types) but reported not equivalent")
            extra = ""
            if case["mode"] == "self":
                extra = " [reflexivity]"
            elif case["mode"] == "clone":
                extra = " [IR vs its clone]"
            elif res[0][0] != res[1][0]:
                extra = " [asymmetric]"
            return False, f"{tag}: {what}{extra}"
    return True, ""


def known(case, res):
    """classify a failing case; only the four recorded classes, each by a predicate on the case"""
    kind, da, db, iso, iso_nort = _facts(case)
    ids = []
    for (x, y, r) in ((da, db, res[0][0]), (db, da, res[1][0])):
        if bool(r) == iso:
            continue
        if not defs_precede_uses(kind, x):
            ids.append("C03-kf-2")               # left IR uses an inside value/block before its definition
        elif r and not iso and not outside_uses_stay_outside(kind, x, y):
            ids.append("C03-kf-4")               # an outside operand of the left IR is defined inside the right IR
        elif r and not iso and iso_nort:
            ids.append("C03-kf-1")               # the two IRs differ in result types only
        elif (not r) and iso and kind == "op" and x["par"] != 0 and y["par"] != 0:
            ids.append("C03-kf-3")               # both roots are operations attached to a block
        else:
            return None
    return ids[0] if ids else None


def nontrivial(case, res):
    kind, da, db, iso, iso_nort = _facts(case)
    if count_ops(kind, da) < 2:
        return None
    return (kind, case["mode"], hash((canon(kind, da), canon(kind, db))))


# ------------------------------------------------------------------------------------------------
# generators

class Gen:
    def __init__(self, rng, fwd, maxops, maxdepth):
        self.rng, self.fwd, self.budget, self.maxdepth = rng, fwd, maxops, maxdepth
        self.nv = self.nb = 0

    def newv(self):
        self.nv += 1
        return self.nv

    def newb(self):
        self.nb += 1
        return self.nb

    def op(self, depth, term=False):
        rng = self.rng
        self.budget -= 1
        k = 1 if term else rng.choices([0, 1, 2], [6, 1, 2])[0]
        o = {"k": k, "o": [], "s": [], "a": rng.choices(range(NA), [5, 2, 1, 1, 1])[0],
             "p": rng.choices(range(NP), [6, 2, 1, 1])[0],
             "r": [[self.newv(), rng.randrange(NT)] for _ in range(rng.choices([0, 1, 2, 3], [3, 6, 2, 1])[0])],
             "g": [], "no": rng.choices([0, 1, 2, 3], [2, 4, 3, 1])[0],
             "ns": 0 if k == 0 else rng.choices([0, 1, 2], [2, 3, 2])[0]}
        if depth < self.maxdepth and self.budget > 0 and rng.random() < 0.3:
            for _ in range(rng.choices([1, 2], [4, 1])[0]):
                o["g"].append(self.region(depth + 1))
        return o

    def block(self, depth):
        rng = self.rng
        b = {"n": self.newb(), "args": [[self.newv(), rng.randrange(NT)] for _ in range(rng.choices([0, 1, 2], [4, 3, 1])[0])],
             "ops": []}
        for _ in range(rng.choices([0, 1, 2, 3, 4], [1, 3, 4, 3, 1])[0]):
            if self.budget <= 0:
                break
            b["ops"].append(self.op(depth))
        return b

    def region(self, depth):
        return [self.block(depth) for _ in range(self.rng.choices([0, 1, 2, 3], [1, 6, 3, 1])[0])]

    # second pass: wire operands/successors knowing what is registered when an op is visited
    def wire(self, kind, spec):
        allv, allb = [], []
        _collect_spec(kind, spec, allv, allb)
        seen_v, seen_b = [], []
        rng = self.rng

        def w_op(o):
            for _ in range(o.pop("no", 0)):
                later = [x for x in allv if x not in seen_v]
                p = rng.random()
                if seen_v and p < 0.7:
                    o["o"].append(["i", rng.choice(seen_v)])
                elif later and self.fwd and p < 0.85:
                    o["o"].append(["i", rng.choice(later)])
                else:
                    o["o"].append(["o", rng.randrange(NOUTV)])
            for _ in range(o.pop("ns", 0)):
                later = [x for x in allb if x not in seen_b]
                p = rng.random()
                if seen_b and p < 0.75:
                    o["s"].append(["i", rng.choice(seen_b)])
                elif later and self.fwd and p < 0.9:
                    o["s"].append(["i", rng.choice(later)])
                else:
                    o["s"].append(["o", rng.randrange(NOUTB)])
            for r in o["g"]:
                w_region(r)
            seen_v.extend(n for n, _ in o["r"])

        def w_block(b):
            seen_v.extend(n for n, _ in b["args"])
            if b["n"] not in seen_b:
                seen_b.append(b["n"])
            for o in b["ops"]:
                w_op(o)

        def w_region(r):
            seen_b.extend(b["n"] for b in r)
            for b in r:
                w_block(b)

        {"op": w_op, "block": w_block, "region": w_region}[kind](spec)
        return spec


def _collect_spec(kind, d, vs, bs):
    if kind == "op":
        for r in d["g"]:
            _collect_spec("region", r, vs, bs)
        vs.extend(n for n, _ in d["r"])
    elif kind == "block":
        bs.append(d["n"])
        vs.extend(n for n, _ in d["args"])
        for o in d["ops"]:
            _collect_spec("op", o, vs, bs)
    else:
        for b in d:
            _collect_spec("block", b, vs, bs)


def gen_spec(rng, kind, fwd=False, maxops=9, maxdepth=2):
    g = Gen(rng, fwd, maxops, maxdepth)
    if kind == "op":
        spec = g.op(0)
        if not spec["g"] and rng.random() < 0.8:
            spec["g"].append(g.region(1))
    elif kind == "block":
        spec = g.block(0)
    else:
        spec = g.region(0)
        if not spec:
            spec = [g.block(0)]
    return g.wire(kind, spec), g


def _all_ops(kind, d, acc):
    if kind == "op":
        acc.append(d)
        for r in d["g"]:
            _all_ops("region", r, acc)
    elif kind == "block":
        for o in d["ops"]:
            _all_ops("op", o, acc)
    else:
        for b in d:
            _all_ops("block", b, acc)


def _all_blocks(kind, d, acc):
    if kind == "op":
        for r in d["g"]:
            _all_blocks("region", r, acc)
    elif kind == "block":
        acc.append(d)
        for o in d["ops"]:
            _all_blocks("op", o, acc)
    else:
        for b in d:
            _all_blocks("block", b, acc)


def _all_regions(kind, d, acc):
    if kind == "op":
        for r in d["g"]:
            acc.append(r)
            _all_regions("region", r, acc)
    elif kind == "block":
        for o in d["ops"]:
            _all_regions("op", o, acc)
    else:
        if not any(d is x for x in acc):
            acc.append(d)
        for b in d:
            _all_regions("block", b, acc)


MUTATIONS = ["rtype", "atype", "attr", "prop", "name", "operand", "succ", "blockorder", "oporder",
             "addres", "addarg", "addop", "xref", "dropop", "addblock", "dropblock", "addregion"]


def mutate(rng, kind, spec, what):
    """single-point mutation of a copy of spec; returns None if not applicable"""
    s = copy.deepcopy(spec)
    ops, blocks, regions = [], [], []
    _all_ops(kind, s, ops)
    _all_blocks(kind, s, blocks)
    _all_regions(kind, s, regions)
    vs, bs = [], []
    _collect_spec(kind, s, vs, bs)
    fresh = max(vs + [0]) + 100
    pick = lambda xs: rng.choice(xs) if xs else None
    if what == "rtype":
        o = pick([o for o in ops if o["r"]])
        if o is None:
            return None
        r = rng.choice(o["r"])
        r[1] = (r[1] + 1 + rng.randrange(NT - 1)) % NT
    elif what == "atype":
        b = pick([b for b in blocks if b["args"]])
        if b is None:
            return None
        r = rng.choice(b["args"])
        r[1] = (r[1] + 1 + rng.randrange(NT - 1)) % NT
    elif what == "attr":
        o = pick(ops)
        if o is None:
            return None
        o["a"] = (o["a"] + 1 + rng.randrange(NA - 1)) % NA
    elif what == "prop":
        o = pick(ops)
        if o is None:
            return None
        o["p"] = (o["p"] + 1 + rng.randrange(NP - 1)) % NP
    elif what == "name":
        o = pick(ops)
        if o is None:
            return None
        o["k"] = {0: 2, 1: 2, 2: 1}[o["k"]]
    elif what == "operand":
        o = pick([o for o in ops if o["o"]])
        if o is None:
            return None
        i = rng.randrange(len(o["o"]))
        cands = [["i", v] for v in vs] + [["o", k] for k in range(NOUTV)]
        cands = [c for c in cands if c != o["o"][i]]
        o["o"][i] = rng.choice(cands)
    elif what == "succ":
        o = pick([o for o in ops if o["s"]])
        if o is None:
            return None
        i = rng.randrange(len(o["s"]))
        cands = [["i", b] for b in bs] + [["o", k] for k in range(NOUTB)]
        cands = [c for c in cands if c != o["s"][i]]
        o["s"][i] = rng.choice(cands)
    elif what == "blockorder":
        r = pick([r for r in regions if len(r) >= 2])
        if r is None:
            return None
        i = rng.randrange(len(r) - 1)
        r[i], r[i + 1] = r[i + 1], r[i]
    elif what == "oporder":
        b = pick([b for b in blocks if len(b["ops"]) >= 2])
        if b is None:
            return None
        i = rng.randrange(len(b["ops"]) - 1)
        b["ops"][i], b["ops"][i + 1] = b["ops"][i + 1], b["ops"][i]
    elif what == "addres":
        o = pick(ops)
        if o is None:
            return None
        o["r"].append([fresh, rng.randrange(NT)])
    elif what == "addarg":
        b = pick(blocks)
        if b is None:
            return None
        b["args"].append([fresh, rng.randrange(NT)])
    elif what == "addop":
        b = pick(blocks)
        if b is None:
            return None
        b["ops"].insert(rng.randrange(len(b["ops"]) + 1),
                        {"k": 0, "o": [], "s": [], "a": 0, "p": 0, "r": [], "g": []})
    elif what == "addblock":
        r = pick(regions)
        if r is None:
            return None
        r.insert(rng.randrange(len(r) + 1), {"n": max(bs + [0]) + 100, "args": [], "ops": []})
    elif what == "dropblock":
        r = pick([r for r in regions if r])
        if r is None:
            return None
        victim = r.pop(rng.randrange(len(r)))
        gone_v, gone_b = [], []
        _collect_spec("block", victim, gone_v, gone_b)
        for o in ops:
            o["o"] = [["o", 0] if (t == "i" and n in gone_v) else [t, n] for t, n in o["o"]]
            o["s"] = [["o", 0] if (t == "i" and n in gone_b) else [t, n] for t, n in o["s"]]
    elif what == "addregion":
        o = pick(ops)
        if o is None:
            return None
        o["g"].append([])
    elif what == "dropop":
        b = pick([b for b in blocks if b["ops"]])
        if b is None:
            return None
        victim = b["ops"].pop(rng.randrange(len(b["ops"])))
        gone_v, gone_b = [], []
        _collect_spec("op", victim, gone_v, gone_b)
        for o in ops:
            o["o"] = [["o", 0] if (t == "i" and n in gone_v) else [t, n] for t, n in o["o"]]
            o["s"] = [["o", 0] if (t == "i" and n in gone_b) else [t, n] for t, n in o["s"]]
    elif what == "xref":
        # the copy uses a value/block of the ORIGINAL instead of its own
        o = pick([o for o in ops if any(t == "i" for t, _ in o["o"] + o["s"])])
        if o is None:
            return None
        idx = [("o", i) for i, (t, _) in enumerate(o["o"]) if t == "i"] + \
              [("s", i) for i, (t, _) in enumerate(o["s"]) if t == "i"]
        f, i = rng.choice(idx)
        o[f][i] = ["x", o[f][i][1]]
    else:
        return None
    return s


def rename(spec_kind, spec, off_v, off_b, keep_prob, rng):
    """fresh-named copy of a sub-tree inside the same IR; with probability keep_prob a reference to an
    inside name is NOT renamed (the copy then uses the original's value: an outside operand for the copy)"""
    s = copy.deepcopy(spec)
    vs, bs = [], []
    _collect_spec(spec_kind, s, vs, bs)
    ops, blocks = [], []
    _all_ops(spec_kind, s, ops)
    _all_blocks(spec_kind, s, blocks)
    for o in ops:
        for r in o["r"]:
            r[0] += off_v
        o["o"] = [[t, n + off_v] if (t == "i" and n in vs and rng.random() >= keep_prob) else [t, n] for t, n in o["o"]]
        o["s"] = [[t, n + off_b] if (t == "i" and n in bs and rng.random() >= keep_prob) else [t, n] for t, n in o["s"]]
    for b in blocks:
        b["n"] += off_b
        for r in b["args"]:
            r[0] += off_v
    return s


def gen_case(rng):
    kind = rng.choices(["op", "block", "region"], [6, 2, 2])[0]
    mode = rng.choices(["self", "clone", "copy", "mut", "unrelated", "sub"], [2, 4, 3, 12, 1, 4])[0]
    fwd = rng.random() < 0.2
    attach = [int(rng.random() < 0.25), int(rng.random() < 0.25)]
    spec, g = gen_spec(rng, kind, fwd, maxops=rng.choice([3, 6, 9, 12]))
    case = {"kind": kind, "mode": mode, "a": spec, "attach": attach, "fwd": int(fwd)}
    if mode in ("self", "clone"):
        return case
    if mode == "copy":
        case.update(mode="spec", b=copy.deepcopy(spec), mut="copy")
        return case
    if mode == "mut":
        for _ in range(6):
            what = rng.choice(MUTATIONS)
            m = mutate(rng, kind, spec, what)
            if m is not None:
                if rng.random() < 0.5:
                    case.update(mode="spec", b=m, mut=what)
                else:                                  # mutated one on the left
                    if what == "xref":
                        continue
                    case.update(mode="spec", a=m, b=copy.deepcopy(spec), mut=what + "-left")
                return case
        case.update(mode="spec", b=copy.deepcopy(spec), mut="copy")
        return case
    if mode == "unrelated":
        other, _ = gen_spec(rng, kind, fwd)
        case.update(mode="spec", b=other, mut="unrelated")
        return case
    # sub: two sibling sub-trees of one IR
    keep = rng.choice([0.0, 0.0, 0.3, 1.0])
    twin = rename(kind, spec, 200, 200, keep, rng)
    if rng.random() < 0.4:
        m = mutate(rng, kind, twin, rng.choice([w for w in MUTATIONS if w != "xref"]))
        twin = m if m is not None else twin
    first_twin = rng.random() < 0.5
    x, y = (twin, spec) if first_twin else (spec, twin)
    if kind == "op":
        root = {"k": 0, "o": [], "s": [], "a": 0, "p": 0, "r": [], "g": [[{"n": 900, "args": [], "ops": [x, y]}]]}
        pa, pb = [0, 0, 0], [0, 0, 1]
    elif kind == "block":
        root = {"k": 0, "o": [], "s": [], "a": 0, "p": 0, "r": [], "g": [[x, y]]}
        pa, pb = [0, 0], [0, 1]
    else:
        root = {"k": 0, "o": [], "s": [], "a": 0, "p": 0, "r": [], "g": [x, y]}
        pa, pb = [0], [1]
    if rng.random() < 0.5:
        pa, pb = pb, pa
    return {"kind": kind, "mode": "sub", "a": root, "pa": pa, "pb": pb, "fwd": int(fwd), "mut": f"twin-keep{keep}"}


# ------------------------------------------------------------------------------------------------
# the parsed test corpus (tests/filecheck/**/*.mlir): module vs itself / clone / single-point mutations

_CORPUS = None


def corpus_modules(rng, want):
    """list of (relative path, chunk index) of small modules that parse"""
    global _CORPUS
    from pathlib import Path
    files = sorted(str(p) for p in Path("/repo/tests/filecheck").rglob("*.mlir"))
    rng.shuffle(files)
    out = []
    for f in files:
        if len(out) >= want:
            break
        try:
            text = Path(f).read_text()
        except Exception:
            continue
        if "expected-error" in text or "verify-diagnostics" in text:
            continue
        chunks = text.split("// -----")
        for ci, ch in enumerate(chunks[:3]):
            m = _parse(ch)
            if m is None:
                continue
            n = sum(1 for _ in m.walk())
            if 2 <= n <= 30:
                out.append([f, ci])
    return out[:want]


def _mlctx():
    global _CORPUS
    if _CORPUS is None:
        from xdsl.context import Context
        from xdsl.dialects import get_all_dialects
        c = Context(allow_unregistered=True)
        for name, factory in get_all_dialects().items():
            c.register_dialect(name, factory)
        _CORPUS = c
    return _CORPUS


def _parse(text):
    from xdsl.parser import Parser
    try:
        return Parser(_mlctx(), text).parse_module()
    except BaseException:
        return None


CORPUS_MUTS = ["none", "attr", "prop", "operand", "succ", "blockorder", "rtype", "atype", "oporder"]


_PARSED: dict = {}


def build_corpus(case):
    from pathlib import Path
    import random
    from xdsl.dialects.builtin import StringAttr, i1
    from xdsl.ir import Block
    key = (case["file"], case["chunk"])
    if key not in _PARSED:                        # A is never mutated (only its clone is), so it can be shared
        _PARSED[key] = _parse(Path(case["file"]).read_text().split("// -----")[case["chunk"]])
    A = _PARSED[key]
    keep = [A]
    if case["pair"] == "self":
        return A, A, keep
    B = A.clone()
    rng = random.Random(case["mseed"])
    what = case["pair"]
    ops = list(B.walk())
    if what == "attr":
        rng.choice(ops).attributes["c03_mut"] = StringAttr("m")
    elif what == "prop":
        rng.choice(ops).properties["c03_mut"] = StringAttr("m")
    elif what == "operand":
        cands = [o for o in ops if o.operands]
        vals = [r for o in ops for r in o.results] + [a for o in ops for r in o.regions for b in r.blocks for a in b.args]
        if cands and vals:
            o = rng.choice(cands)
            i = rng.randrange(len(o.operands))
            o.operands[i] = rng.choice(vals)
    elif what == "succ":
        cands = [o for o in ops if o.successors]
        if cands:
            o = rng.choice(cands)
            blocks = list(o.parent.parent.blocks) if o.parent is not None and o.parent.parent is not None else []
            if blocks:
                o.successors[rng.randrange(len(o.successors))] = rng.choice(blocks)
    elif what == "blockorder":
        regs = [r for o in ops for r in o.regions if len(r.blocks) >= 2]
        if regs:
            r = rng.choice(regs)
            b = r.blocks[len(r.blocks) - 1]
            r.detach_block(b)
            r.insert_block(b, 0)
    elif what == "oporder":
        blks = [b for o in ops for r in o.regions for b in r.blocks if len(list(b.ops)) >= 2]
        if blks:
            b = rng.choice(blks)
            first = b.first_op
            first.detach()
            b.add_op(first)
    elif what == "rtype":
        cands = [o for o in ops if o.results]
        if cands:
            r = rng.choice(rng.choice(cands).results)
            r._type = StringAttr("c03") if r.type == i1 else i1   # noqa: SLF001  (mutation of a private field)
    elif what == "atype":
        blks = [b for o in ops for r in o.regions for b in r.blocks if b.args]
        if blks:
            a = rng.choice(rng.choice(blks).args)
            a._type = StringAttr("c03") if a.type == i1 else i1   # noqa: SLF001
    keep.append(B)
    return A, B, keep


# ------------------------------------------------------------------------------------------------
# hand-written witnesses (also the known-finding replays)

def _op(k=0, o=(), r=(), a=0, p=0, s=(), g=()):
    return {"k": k, "o": [list(x) for x in o], "r": [list(x) for x in r], "a": a, "p": p,
            "s": [list(x) for x in s], "g": [list(x) for x in g]}


W_RT = {"kind": "op", "mode": "spec", "a": _op(r=[(1, 0)]), "b": _op(r=[(1, 1)]), "attach": [0, 0], "mut": "rtype"}
_FWD = _op(g=[[{"n": 1, "args": [], "ops": [_op(o=[("i", 5)]), _op(k=2, r=[(5, 0)])]}]])
W_FWD_CLONE = {"kind": "op", "mode": "clone", "a": _FWD, "attach": [0, 0]}
W_FWD_SELF = {"kind": "op", "mode": "self", "a": _FWD, "attach": [0, 0]}
W_ATT = {"kind": "op", "mode": "self", "a": _op(), "attach": [1, 1]}
W_DOM = {"kind": "block", "mode": "sub",
         "a": _op(g=[[{"n": 1, "args": [], "ops": [_op(k=2, r=[(5, 0)]), _op(o=[("i", 5)])]},
                      {"n": 2, "args": [], "ops": [_op(k=2, r=[(6, 0)]), _op(o=[("i", 5)])]}]]),
         "pa": [0, 1], "pb": [0, 0]}
WITNESSES = [W_RT, W_FWD_CLONE, W_FWD_SELF, W_ATT, W_DOM]


# ------------------------------------------------------------------------------------------------

def run(ctx: Ctx):
    thorough = ctx.tier == "thorough"
    rng = ctx.rng
    replay_findings(ctx, "pairs", impl, holds)
    cases = copy.deepcopy(WITNESSES) + [gen_case(rng) for _ in range(12000 if thorough else 1200)]
    differential(ctx, DiffSpec("witnesses+generated-pairs", REQ, cases, impl, coq_expr, holds, known, nontrivial,
                               shard=500 if thorough else 200))
    dist: dict = {}
    for c in cases:
        k = f"{c['kind']}/{c['mode']}/{c.get('mut', '-')}"
        dist[k] = dist.get(k, 0) + 1
    ctx.coverage["generated_distribution"] = dict(sorted(dist.items()))
    ctx.coverage["generated_with_forward_refs"] = sum(c.get("fwd", 0) for c in cases)
    ctx.coverage["generated_attached_roots"] = sum(1 for c in cases if any(c.get("attach", [0, 0])))

    icases = collision_cases() + [c for c in cases if c["kind"] == "op" and c["mode"] != "sub"][:3000 if thorough else 200]
    differential(ctx, DiffSpec("cse-operationinfo-eq", REQ, icases, impl_info, coq_expr_info, holds_info, None,
                               lambda c, r: (r, json.dumps(c, sort_keys=True)) if r != 0 else None,
                               shard=500 if thorough else 150))

    pcases = [gen_cons_case(rng) for _ in range(2000 if thorough else 240)]
    differential(ctx, DiffSpec("schedule_space+HashableModule", REQ, pcases, impl_cons, coq_expr_cons, holds_cons_hash,
                               known_cons, lambda c, r: (c["pass"], tuple(r), json.dumps(c["body"], sort_keys=True)),
                               shard=500 if thorough else 240))
    pd: dict = {}
    for c in pcases:
        pd[c["pass"]] = pd.get(c["pass"], 0) + 1
    ctx.coverage["pass_kinds"] = pd

    mods = corpus_modules(rng, 120 if thorough else 16)
    ccases = []
    for f, ci in mods:
        for pair in ["self"] + CORPUS_MUTS:
            ccases.append({"kind": "op", "mode": "corpus", "file": f, "chunk": ci, "pair": pair,
                           "mseed": rng.randrange(1 << 30)})
    differential(ctx, DiffSpec("test-corpus-modules", REQ, ccases, impl, coq_expr, holds, known, nontrivial,
                               shard=150 if thorough else 40))
    ctx.coverage["corpus_modules"] = len(mods)
    ctx.coverage["model_configuration"] = MODEL_CFG
    ctx.coverage["rule"] = __doc__.split("\n\n", 1)[1][:1500]
    ctx.assumptions += ASSUMPTIONS
