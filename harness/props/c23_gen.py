"""C23 case generators (pure functions of the rng) and the independent validity check of a case."""
from __future__ import annotations

import itertools

F32, F64, F16, PTR = -32, -64, -16, 0
INT_BIN = ["AddOp", "SubOp", "MulOp", "UDivOp", "SDivOp", "URemOp", "SRemOp", "AndOp", "OrOp", "XOrOp", "ShlOp",
           "LShrOp", "AShrOp"]
OVERFLOW = {"AddOp", "SubOp", "MulOp", "ShlOp"}
EXACT = {"UDivOp", "SDivOp", "LShrOp", "AShrOp"}
FLOAT_BIN = ["FAddOp", "FSubOp", "FMulOp", "FDivOp", "FRemOp"]
FM = ["reassoc", "nnan", "ninf", "nsz", "arcp", "contract", "afn"]


def blk(args, body, term):
    return {"args": [list(a) for a in args], "body": body, "term": term}


def binop(r, cls, t, a, b, ovf=None, ex=0, dj=0, fm=()):
    return ["bin", r, cls, ovf, ex, dj, list(fm), t, a, b]


# ------------------------------------------------------------------------------------------------
# validity of a case as an llvm-dialect function (MLIR rules), independent of xDSL's verifier


def instr_def(ins):
    return None if ins[0] == "store" else ins[1]


def instr_uses(ins):
    k = ins[0]
    return {"const": [], "bin": ins[8:10], "icmp": ins[4:6], "fcmp": ins[4:6], "cast": [ins[6]] if k == "cast" else [],
            "select": ins[3:6], "alloca": [ins[4]] if k == "alloca" else [], "load": [ins[3]] if k == "load" else [],
            "store": ins[2:4]}[k]


def result_type(ins):
    k = ins[0]
    if k == "const":
        return ins[2]
    if k == "bin":
        return ins[7]
    if k in ("icmp", "fcmp"):
        return 1
    if k == "cast":
        return ins[7]
    if k == "select":
        return ins[2]
    if k == "alloca":
        return PTR
    if k == "load":
        return ins[2]
    return None


def successors(t):
    if t[0] == "br":
        return [t[1]]
    if t[0] == "condbr":
        return [t[2], t[4]]
    return []


def dominators(blocks):
    n = len(blocks)
    preds = [[] for _ in range(n)]
    for i, b in enumerate(blocks):
        for s in successors(b["term"]):
            if 0 <= s < n:
                preds[s].append(i)
    reach = {0}
    todo = [0]
    while todo:
        x = todo.pop()
        for s in successors(blocks[x]["term"]):
            if 0 <= s < n and s not in reach:
                reach.add(s)
                todo.append(s)
    dom = {i: set(reach) for i in reach}
    dom[0] = {0}
    changed = True
    while changed:
        changed = False
        for i in sorted(reach):
            if i == 0:
                continue
            ps = [p for p in preds[i] if p in reach]
            new = set.intersection(*[dom[p] for p in ps]) | {i} if ps else {i}
            if new != dom[i]:
                dom[i] = new
                changed = True
    return reach, dom


def validity(case):
    """-> (valid, reason).  Valid = every MLIR / LLVM-dialect rule the property's quantifier relies on holds."""
    blocks = case["blocks"]
    n = len(blocks)
    types = {}
    where = {}
    for bi, b in enumerate(blocks):
        for i, t in b["args"]:
            if i in types:
                return False, "value defined twice"
            types[i] = t
            where[i] = (bi, -1)
        for ii, ins in enumerate(b["body"]):
            d = instr_def(ins)
            if d is not None:
                if d in types:
                    return False, "value defined twice"
                types[d] = result_type(ins)
                where[d] = (bi, ii)
    reach, dom = dominators(blocks)
    for bi, b in enumerate(blocks):
        if bi not in reach and (b["args"]):
            return False, "unreachable block with arguments (phi without entries: outside the quantifier)"

    def use_ok(v, bi, ii):
        if v not in where:
            return False
        db, di = where[v]
        if bi not in reach:
            return db == bi and di < ii or (db in reach and db != bi) or (db == bi and di < ii)
        if db == bi:
            return di < ii
        return db in dom.get(bi, ())

    for bi, b in enumerate(blocks):
        for ii, ins in enumerate(b["body"]):
            for u in instr_uses(ins):
                if not use_ok(u, bi, ii):
                    return False, "use not dominated by its definition"
            k = ins[0]
            if k == "bin":
                _, r, cls, ovf, ex, dj, fm, t, a, c = ins
                if types[a] != t or types[c] != t:
                    return False, "operand type mismatch"
                if cls in FLOAT_BIN:
                    if t not in (F32, F64, F16):
                        return False, "float op on a non-float type"
                elif t < 1:
                    return False, "integer op on a non-integer type"
                if ovf is not None and not (0 <= ovf <= 3):
                    return False, "overflowFlags is not an OverflowAttr encoding"
            elif k == "icmp":
                if not (0 <= ins[2] <= 9):
                    return False, "icmp predicate outside 0..9"
                if ins[3] < 1 or types[ins[4]] != ins[3] or types[ins[5]] != ins[3]:
                    return False, "icmp operand types"
            elif k == "fcmp":
                if not (0 <= ins[2] <= 15):
                    return False, "fcmp predicate outside 0..15"
                if ins[3] not in (F32, F64, F16) or types[ins[4]] != ins[3] or types[ins[5]] != ins[3]:
                    return False, "fcmp operand types"
            elif k == "cast":
                _, r, cls, ofl, nneg, t, a, t2 = ins
                if types[a] != t or t < 1 or t2 < 1:
                    return False, "cast types"
                if cls == "TruncOp" and not t2 < t:
                    return False, "trunc must narrow"
                if cls in ("ZExtOp", "SExtOp") and not t < t2:
                    return False, "ext must widen"
            elif k == "select":
                if types[ins[3]] != 1 or types[ins[4]] != ins[2] or types[ins[5]] != ins[2]:
                    return False, "select types"
            elif k == "alloca":
                if types[ins[4]] < 1 or types[ins[4]] != ins[3]:
                    return False, "alloca size type"
            elif k == "load":
                if types[ins[3]] != PTR:
                    return False, "load pointer type"
            elif k == "store":
                if types[ins[3]] != PTR or types[ins[2]] != ins[1]:
                    return False, "store types"
        t = b["term"]
        ii = len(b["body"])
        edges = []
        if t[0] == "ret":
            if not use_ok(t[2], bi, ii) or types[t[2]] != t[1] or case.get("ret") != t[1]:
                return False, "return value"
        elif t[0] == "retvoid":
            if case.get("ret") is not None:
                return False, "void return in a non-void function"
        elif t[0] == "br":
            edges = [(t[1], t[2])]
        elif t[0] == "condbr":
            if not use_ok(t[1], bi, ii) or types[t[1]] != 1:
                return False, "branch condition"
            edges = [(t[2], t[3]), (t[4], t[5])]
        for d, args in edges:
            if not (0 < d < n):
                return False, "branch to the entry block / outside the region"
            if len(args) != len(blocks[d]["args"]):
                return False, "operand count differs from the block-argument count"
            for a, (_, ty) in zip(args, blocks[d]["args"]):
                if not use_ok(a, bi, ii) or types[a] != ty:
                    return False, "branch operand"
    return True, ""


# ------------------------------------------------------------------------------------------------
# family 1: one operation per function


def single_op_cases(thorough: bool):
    widths = [1, 7, 8, 16, 32, 64] if thorough else [1, 7, 8, 64]
    out = []
    for cls in INT_BIN:
        for w in widths:
            if cls in OVERFLOW:
                variants = [dict(ovf=o) for o in (None, 0, 1, 2, 3)]
            elif cls in EXACT:
                variants = [dict(ex=0), dict(ex=1)]
            elif cls == "OrOp":
                variants = [dict(dj=0), dict(dj=1)]
            else:
                variants = [dict()]
            for v in variants:
                out.append({"ret": w, "blocks": [blk([(1, w), (2, w)], [binop(3, cls, w, 1, 2, **v)], ["ret", w, 3])]})
        # operands swapped / the same operand twice: order matters for sub, div, shifts
        out.append({"ret": 8, "blocks": [blk([(1, 8), (2, 8)], [binop(3, cls, 8, 2, 1)], ["ret", 8, 3])]})
        out.append({"ret": 8, "blocks": [blk([(1, 8), (2, 8)], [binop(3, cls, 8, 1, 1)], ["ret", 8, 3])]})
    for pred in range(10):
        for w in ([1, 8, 64] if not thorough else [1, 7, 8, 16, 32, 64]):
            out.append({"ret": 1, "blocks": [blk([(1, w), (2, w)], [["icmp", 3, pred, w, 1, 2]], ["ret", 1, 3])]})
        out.append({"ret": 1, "blocks": [blk([(1, 8), (2, 8)], [["icmp", 3, pred, 8, 2, 1]], ["ret", 1, 3])]})
    for w, w2 in [(8, 1), (8, 4), (64, 8), (32, 31), (7, 3)]:
        for ofl in (None, [], ["nsw"], ["nuw"], ["nsw", "nuw"]):
            out.append({"ret": w2, "blocks": [blk([(1, w)], [["cast", 2, "TruncOp", ofl, 0, w, 1, w2]], ["ret", w2, 2])]})
    for w, w2 in [(1, 8), (4, 8), (8, 64), (31, 32), (3, 7)]:
        for nn in (0, 1):
            out.append({"ret": w2, "blocks": [blk([(1, w)], [["cast", 2, "ZExtOp", None, nn, w, 1, w2]], ["ret", w2, 2])]})
        out.append({"ret": w2, "blocks": [blk([(1, w)], [["cast", 2, "SExtOp", None, 0, w, 1, w2]], ["ret", w2, 2])]})
    for w in (1, 8, 64):
        out.append({"ret": w, "blocks": [blk([(1, 1), (2, w), (3, w)], [["select", 4, w, 1, 2, 3]], ["ret", w, 4])]})
    for t in (F32, F64):
        out.append({"ret": t, "blocks": [blk([(1, 1), (2, t), (3, t)], [["select", 4, t, 1, 2, 3]], ["ret", t, 4])]})
        for pred in range(16):
            out.append({"ret": 1, "blocks": [blk([(1, t), (2, t)], [["fcmp", 3, pred, t, 1, 2]], ["ret", 1, 3])]})
        for cls in FLOAT_BIN:
            for fm in ([], ["nnan"], ["nnan", "ninf"], ["reassoc", "contract"], FM):
                out.append({"ret": t, "blocks": [blk([(1, t), (2, t)], [binop(3, cls, t, 1, 2, fm=fm)], ["ret", t, 3])]})
            out.append({"ret": t, "blocks": [blk([(1, t), (2, t)], [binop(3, cls, t, 2, 1)], ["ret", t, 3])]})
    out.append({"ret": F16, "blocks": [blk([(1, F16), (2, F16)], [binop(3, "FAddOp", F16, 1, 2)], ["ret", F16, 3])]})
    # constants (inlined as operands), memory round trip with and without alignment
    for w, c in [(8, 200), (8, 5), (1, 1), (1, 0), (64, 2**64 - 1), (32, 2**31), (7, 64)]:
        out.append({"ret": w, "blocks": [blk([(1, w)], [["const", 2, w, c], binop(3, "AddOp", w, 1, 2)], ["ret", w, 3])]})
        out.append({"ret": w, "blocks": [blk([(1, w)], [["const", 2, w, c], binop(3, "SubOp", w, 2, 1)], ["ret", w, 3])]})
    for t, bits in [(F32, 0x3FC00000), (F32, 0x3DCCCCCD), (F32, 0x80000000), (F64, 0x3FB999999999999A), (F64, 0xC000000000000000),
                    (F32, 0x7F800000), (F32, 0x00000001)]:
        out.append({"ret": t, "blocks": [blk([(1, t)], [["const", 2, t, bits], binop(3, "FAddOp", t, 1, 2)], ["ret", t, 3])]})
    for w in (8, 32, 64, 1):
        for al_a, al_s, al_l in [(0, 0, 0), (32, 0, 0), (8, 4, 2)]:
            out.append({"ret": w, "blocks": [blk([(1, w)], [["const", 2, 32, 1], ["alloca", 3, w, 32, 2, al_a],
                                                           ["store", w, 1, 3, al_s], ["load", 4, w, 3, al_l]], ["ret", w, 4])]})
    out.append({"ret": None, "blocks": [blk([(1, 8)], [], ["retvoid"])]})
    out.append({"ret": 8, "blocks": [blk([(1, 8)], [], ["unreachable"])]})
    # ---- malformed stream (not valid llvm-dialect: nothing is demanded, model and code must still agree) ----
    for pred in (-1, -10, -11, 10, 11, 100):
        out.append({"ret": 1, "blocks": [blk([(1, 8), (2, 8)], [["icmp", 3, pred, 8, 1, 2]], ["ret", 1, 3])]})
    for pred in (-1, -16, -17, 16, 40):
        out.append({"ret": 1, "blocks": [blk([(1, F32), (2, F32)], [["fcmp", 3, pred, F32, 1, 2]], ["ret", 1, 3])]})
    for ovf in (4, 7, -1):
        out.append({"ret": 8, "blocks": [blk([(1, 8), (2, 8)], [binop(3, "AddOp", 8, 1, 2, ovf=ovf)], ["ret", 8, 3])]})
    return out


# ------------------------------------------------------------------------------------------------
# family 2: small CFG shapes, exhaustively


def cfg_sweep_cases():
    """entry(a:i8, b:i8, c:i1), B1(x:i8), B2(y:i8): every combination of a few terminator shapes incl. double edges
    with equal and different operands, self loops, and (malformed) branches to the entry / wrong operand counts."""
    A, B, C, X, Y = 1, 2, 3, 4, 5
    entry_terms = [["br", 1, [A]], ["br", 2, [B]],
                   ["condbr", C, 1, [A], 1, [A]], ["condbr", C, 1, [A], 1, [B]],
                   ["condbr", C, 1, [A], 2, [B]], ["condbr", C, 2, [B], 1, [B]], ["condbr", C, 2, [A], 2, [B]]]
    b1_terms = [["ret", 8, X], ["br", 2, [X]], ["br", 1, [A]], ["condbr", C, 2, [X], 2, [A]], ["condbr", C, 2, [X], 2, [X]],
                ["condbr", C, 1, [X], 2, [A]]]
    b2_terms = [["ret", 8, Y], ["br", 1, [Y]], ["condbr", C, 1, [Y], 1, [B]], ["condbr", C, 2, [Y], 1, [Y]]]
    out = []
    for te, t1, t2 in itertools.product(entry_terms, b1_terms, b2_terms):
        out.append({"ret": 8, "blocks": [blk([(A, 8), (B, 8), (C, 1)], [], te), blk([(X, 8)], [], t1), blk([(Y, 8)], [], t2)]})
    # constants as incoming values, two phis per block, swap through the block arguments
    out.append({"ret": 8, "blocks": [blk([(A, 8), (B, 8), (C, 1)], [["const", 9, 8, 7]], ["condbr", C, 1, [9, A], 1, [9, A]]),
                                     blk([(X, 8), (Y, 8)], [binop(6, "SubOp", 8, X, Y)], ["ret", 8, 6])]})
    out.append({"ret": 8, "blocks": [blk([(A, 8), (B, 8), (C, 1)], [["const", 9, 8, 7], ["const", 10, 8, 7]],
                                         ["condbr", C, 1, [9, A], 1, [10, A]]),
                                     blk([(X, 8), (Y, 8)], [binop(6, "SubOp", 8, X, Y)], ["ret", 8, 6])]})
    out.append({"ret": 8, "blocks": [blk([(A, 8), (B, 8), (C, 1)], [], ["br", 1, [A, B, C]]),
                                     blk([(X, 8), (Y, 8), (6, 1)], [["const", 7, 1, 0]], ["condbr", 6, 1, [Y, X, 7], 2, []]),
                                     blk([], [binop(8, "SubOp", 8, X, Y)], ["ret", 8, 8])]})
    # malformed: branch to the entry block, operand count mismatch
    out.append({"ret": 8, "blocks": [blk([(A, 8)], [], ["br", 1, [A]]), blk([(X, 8)], [], ["br", 0, [X]])]})
    out.append({"ret": 8, "blocks": [blk([], [["const", A, 8, 1]], ["br", 1, [A]]), blk([(X, 8)], [], ["br", 0, []])]})
    out.append({"ret": 8, "blocks": [blk([(A, 8), (B, 8)], [], ["br", 1, [A]]), blk([(X, 8), (Y, 8)], [], ["ret", 8, X])]})
    out.append({"ret": 8, "blocks": [blk([(A, 8), (B, 8)], [], ["br", 1, [A, B]]), blk([(X, 8)], [], ["ret", 8, X])]})
    return out


# ------------------------------------------------------------------------------------------------
# family 3: random programs


class ProgGen:
    def __init__(self, rng):
        self.rng = rng
        self.next_id = 1

    def fresh(self):
        self.next_id += 1
        return self.next_id - 1

    def gen(self):
        r = self.rng
        self.next_id = 1
        widths = r.choice([[8], [8, 1], [32, 8], [64, 16], [7, 3], [16, 64, 8], [1, 8, 32]])
        use_float = r.random() < 0.15
        n = r.choice([1, 2, 2, 3, 3, 4, 4, 5, 6])
        # logical CFG: node 0 entry; edges chosen so that every node is reachable (spanning tree) + extra edges
        params = [(self.fresh(), r.choice(widths)) for _ in range(r.randint(1, 3))]
        if r.random() < 0.7 or not any(t == 1 for _, t in params):
            params.append((self.fresh(), 1))
        if use_float:
            ft = r.choice([F32, F64])
            params.append((self.fresh(), ft))
            params.append((self.fresh(), ft))
        ret = r.choice([t for _, t in params if t >= 1 or r.random() < 0.5])
        nodes = list(range(n))
        bargs = {0: params}
        for i in nodes[1:]:
            k = r.choice([0, 1, 1, 2])
            bargs[i] = [(self.fresh(), r.choice(widths + ([ft] if use_float and r.random() < 0.3 else []))) for _ in range(k)]
        # CFG: a random binary spanning tree from the entry (reachability) plus extra edges to any non-entry
        # block: back edges, self loops, cross edges and double edges (the same successor twice)
        succ = {i: [] for i in nodes}
        for j in nodes[1:]:
            cands = [p for p in range(j) if len(succ[p]) < 2]
            succ[r.choice(cands)].append(j)
        for i in nodes:
            if len(succ[i]) < 2 and n > 1 and r.random() < 0.45:
                succ[i].append(r.choice(succ[i]) if succ[i] and r.random() < 0.3 else r.choice(nodes[1:]))
            if len(succ[i]) == 2 and r.random() < 0.5:
                succ[i].reverse()
        # optionally a dead block (no arguments, not a successor of anything)
        if r.random() < 0.12:
            nodes.append(n)
            succ[n] = [r.choice(nodes[1:])] if n > 1 and r.random() < 0.5 else []
            bargs[n] = []
            n += 1
        blocks_logical = [{"args": bargs[i], "succ": succ[i]} for i in nodes]
        cfg = [{"term": (["br", s[0], []] if len(s) == 1 else ["condbr", 0, s[0], [], s[1], []] if s else ["ret"])}
               for s in (b["succ"] for b in blocks_logical)]
        reach, dom = dominators(cfg)
        if len(reach) != n:
            # drop unreachable logical nodes' arguments (keep them as dead blocks without arguments)
            for i in nodes:
                if i not in reach:
                    bargs[i] = []
        # bodies in dominance (BFS from entry over the dominator relation = any order where dominators come first)
        order = sorted(reach, key=lambda i: len(dom[i])) + [i for i in nodes if i not in reach]
        defs_in = {i: [] for i in nodes}          # (id, ty) defined in block i (args + body)
        bodies = {i: [] for i in nodes}
        terms = {}
        for i in order:
            avail = []
            for d in sorted(dom.get(i, {i})):
                if d != i:
                    avail += defs_in[d]
            avail += list(bargs[i])
            body = bodies[i]

            def emit(ins, ty):
                body.append(ins)
                if ty is not None:
                    avail.append((ins[1], ty))

            def value_of(ty):
                c = [v for v, t in avail if t == ty]
                if c and r.random() < 0.85:
                    return r.choice(c)
                v = self.fresh()
                if ty >= 1:
                    emit(["const", v, ty, r.choice([0, 1, (1 << ty) - 1, 1 << (ty - 1), r.getrandbits(ty)])], ty)
                elif ty == F32:
                    emit(["const", v, ty, r.choice([0x3F800000, 0x40490FDB, 0xBFC00000, 0x00000000])], ty)
                else:
                    emit(["const", v, ty, r.choice([0x3FF0000000000000, 0x400921FB54442D18, 0xBFF8000000000000])], ty)
                return v

            for _ in range(r.choice([0, 1, 1, 2, 3, 4]) if i in reach else r.choice([0, 1])):
                kind = r.choice(["bin", "bin", "bin", "icmp", "select", "cast", "mem", "fbin" if use_float else "bin"])
                ints = [t for _, t in avail if t >= 1] or [widths[0]]
                if kind == "bin":
                    t = r.choice(ints)
                    cls = r.choice(INT_BIN)
                    kw = {}
                    if cls in OVERFLOW:
                        kw["ovf"] = r.choice([None, 0, 0, 1, 2, 3])
                    elif cls in EXACT:
                        kw["ex"] = r.choice([0, 0, 1])
                    elif cls == "OrOp":
                        kw["dj"] = r.choice([0, 0, 1])
                    a, b = value_of(t), value_of(t)
                    emit(binop(self.fresh(), cls, t, a, b, **kw), t)
                elif kind == "fbin":
                    a, b = value_of(ft), value_of(ft)
                    emit(binop(self.fresh(), r.choice(FLOAT_BIN[:4]), ft, a, b, fm=r.choice([[], [], ["nnan"], ["nnan", "ninf"]])), ft)
                elif kind == "icmp":
                    if use_float and r.random() < 0.3:
                        a, b = value_of(ft), value_of(ft)
                        emit(["fcmp", self.fresh(), r.randint(1, 14), ft, a, b], 1)
                    else:
                        t = r.choice(ints)
                        a, b = value_of(t), value_of(t)
                        emit(["icmp", self.fresh(), r.randrange(10), t, a, b], 1)
                elif kind == "select":
                    t = r.choice([t for _, t in avail if t != PTR] or [widths[0]])
                    c, a, b = value_of(1), value_of(t), value_of(t)
                    emit(["select", self.fresh(), t, c, a, b], t)
                elif kind == "cast":
                    t = r.choice(ints)
                    t2 = r.choice([w for w in (1, 3, 7, 8, 16, 32, 64) if w != t])
                    a = value_of(t)
                    if t2 < t:
                        emit(["cast", self.fresh(), "TruncOp", r.choice([None, [], ["nsw"], ["nuw"], ["nsw", "nuw"]]), 0, t, a, t2], t2)
                    elif r.random() < 0.5:
                        emit(["cast", self.fresh(), "ZExtOp", None, r.choice([0, 0, 1]), t, a, t2], t2)
                    else:
                        emit(["cast", self.fresh(), "SExtOp", None, 0, t, a, t2], t2)
                else:
                    t = r.choice(ints)
                    v = value_of(t)
                    one = self.fresh()
                    emit(["const", one, 32, 1], 32)
                    p = self.fresh()
                    emit(["alloca", p, t, 32, one, r.choice([0, 0, 8, 32])], PTR)
                    emit(["store", t, v, p, r.choice([0, 0, 4])], None)
                    emit(["load", self.fresh(), t, p, r.choice([0, 0, 4])], t)
            s = succ[i]
            if not s:
                terms[i] = ["ret", ret, value_of(ret)]
            elif len(s) == 1:
                terms[i] = ["br", s[0], [value_of(t) for _, t in bargs[s[0]]]]
            else:
                c = value_of(1)
                ta = [value_of(t) for _, t in bargs[s[0]]]
                if s[0] == s[1] and r.random() < 0.5:
                    ea = list(ta)
                else:
                    ea = [value_of(t) for _, t in bargs[s[1]]]
                terms[i] = ["condbr", c, s[0], ta, s[1], ea]
            defs_in[i] = list(bargs[i]) + [(instr_def(x), result_type(x)) for x in body if instr_def(x) is not None]
        # layout: usually logical order (dominators first); sometimes a permutation of the non-entry blocks, so that a
        # definition can sit in a block that comes later in the region than a use
        layout = nodes[:]
        if n > 2 and r.random() < 0.25:
            rest = nodes[1:]
            r.shuffle(rest)
            layout = [0] + rest
        pos = {b: k for k, b in enumerate(layout)}

        def relabel(t):
            if t[0] == "br":
                return ["br", pos[t[1]], t[2]]
            if t[0] == "condbr":
                return ["condbr", t[1], pos[t[2]], t[3], pos[t[4]], t[5]]
            return t
        return {"ret": ret, "blocks": [blk(bargs[b], bodies[b], relabel(terms[b])) for b in layout]}


def program_cases(rng, count):
    g = ProgGen(rng)
    out = []
    tries = 0
    while len(out) < count and tries < count * 20:
        tries += 1
        try:
            c = g.gen()
        except (IndexError, ValueError, KeyError):
            continue
        ok, _ = validity(c)
        if ok:
            out.append(c)
    return out


def jit_inputs(rng, case, count):
    """boundary + random bit patterns for the parameters"""
    tys = [t for _, t in case["blocks"][0]["args"]]

    def pool(t):
        if t >= 1:
            m = (1 << t) - 1
            return sorted({0, 1 & m, m, 1 << (t - 1), (1 << (t - 1)) - 1 if t > 1 else 0, 2 & m, 3 & m, (m - 1) & m})
        if t == F32:
            return [0x00000000, 0x80000000, 0x3F800000, 0xBF800000, 0x7F800000, 0xFF800000, 0x7FC00000, 0x00000001,
                    0x7F7FFFFF, 0x40490FDB, 0x3DCCCCCD]
        return [0x0000000000000000, 0x8000000000000000, 0x3FF0000000000000, 0xBFF0000000000000, 0x7FF0000000000000,
                0xFFF0000000000000, 0x7FF8000000000000, 0x0000000000000001, 0x7FEFFFFFFFFFFFFF, 0x400921FB54442D18]

    def rnd(t):
        if t >= 1:
            return rng.getrandbits(t)
        return rng.getrandbits(32 if t == F32 else 64)
    ins = []
    pools = [pool(t) for t in tys]
    total = 1
    for p in pools:
        total *= len(p)
    if total <= count:
        ins = [list(x) for x in itertools.product(*pools)]
    else:
        for _ in range(count * 2 // 3):
            ins.append([rng.choice(p) for p in pools])
    while len(ins) < count:
        ins.append([rnd(t) for t in tys])
    return ins
