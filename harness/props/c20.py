"""C20 -- Parallel-move lowering performs a simultaneous assignment.

Tie: hand-written Coq model (coq/C20/Model.v) of ParallelMovOp.verify_, ParallelMovPattern.match_and_rewrite,
_insert_mv_op, _insert_swap_ops and move_ops_for_value vs the real pass `riscv-lower-parallel-mov` run on a module
built around one riscv.ParallelMovOp.  Compared exactly: the list of emitted operations (opcode, destination
register, every operand as SSA identity + register), the value that replaces each result, and the exception class
(PassFailedException / AssertionError / KeyError / ValueError / VerifyException / non-termination).
Oracle (independent of the model): a RISC-V register machine on symbolic values -- every register starts with
its own unknown, integer values are XOR-sets of unknowns, x0 reads 0 and ignores writes, fmv.s narrows -- run on
the operations the REAL pass emitted; every destination must hold the old value of its source, every other
register except the designated free ones must be unchanged, and the pass may fail only with
PassFailedException and only for an unallocated register, an unsupported width or a float cycle without a
designated free float register.
"""
from __future__ import annotations

import itertools

from harness.common import Ctx, coq_bool, coq_list, coq_Z, exc_code, replay_findings

# ----------------------------------------------------------------------------- registers
# A register is one int: 2k = integer register #k (#0 is `zero`), 2k+1 = float register #k,
# -2 / -1 = unallocated integer / float register.
INT_NAMES = (["zero"] + [f"s{i}" for i in range(1, 12)] + [f"a{i}" for i in range(8)]
             + [f"t{i}" for i in range(7)])
FLT_NAMES = ([f"fs{i}" for i in range(12)] + [f"fa{i}" for i in range(8)] + [f"ft{i}" for i in range(12)])
ZERO = 0


def is_float(r):
    return r % 2 == 1


def reg_type(r):
    from xdsl.dialects import riscv
    if r == -2:
        return riscv.IntRegisterType.unallocated()
    if r == -1:
        return riscv.FloatRegisterType.unallocated()
    if is_float(r):
        return riscv.FloatRegisterType.from_name(FLT_NAMES[r // 2])
    return riscv.IntRegisterType.from_name(INT_NAMES[r // 2])


def reg_code(t):
    from xdsl.dialects import riscv
    if not t.is_allocated:
        return -1 if isinstance(t, riscv.FloatRegisterType) else -2
    name = t.register_name.data
    if isinstance(t, riscv.FloatRegisterType):
        return 2 * FLT_NAMES.index(name) + 1
    return 2 * INT_NAMES.index(name)


# ----------------------------------------------------------------------------- running the real pass
# case = {"moves": [[val, src, dst, width], ...], "free": [reg, ...] | None}
#   val = id of the SSA value used as operand (two operands with the same id are the same SSA value;
#   the type of a value is a function of the value, so equal ids must come with equal `src`).
OPC = {"riscv.mv": 1, "riscv.fmv.s": 2, "riscv.fmv.d": 3, "riscv.xor": 4}


def build(case):
    from xdsl.dialects import riscv, test
    from xdsl.dialects.builtin import ArrayAttr, DenseArrayBase, ModuleOp, i32
    moves = case["moves"]
    vals, order = {}, []
    for v, s, _d, _w in moves:
        if v not in vals:
            vals[v] = s
            order.append(v)
        assert vals[v] == s, "an SSA value has one type"
    src_op = test.TestOp(result_types=[reg_type(vals[v]) for v in order])
    ssa = {v: src_op.results[i] for i, v in enumerate(order)}
    free = case.get("free")
    pm = riscv.ParallelMovOp([ssa[v] for v, _, _, _ in moves], [reg_type(d) for _, _, d, _ in moves],
                             DenseArrayBase.from_list(i32, [w for *_, w in moves]),
                             None if free is None else ArrayAttr([reg_type(f) for f in free]))
    use = test.TestOp(operands=list(pm.results))
    return ModuleOp([src_op, pm, use]), src_op, use, order


class _Timeout(BaseException):
    pass


def _alarm(*_a):
    raise _Timeout()


WATCHDOG_S = 20.0     # backstop only (CPU seconds, ITIMER_VIRTUAL)


def impl(case):
    """[0, ops, results] | [-1, exception code] | [-2, code] (rejected by op.verify()) | [-3] (the pass does
    not terminate).  op = [opcode, rd, [ref, reg], ...]; a ref is the id of an operand value of the parallel
    move (>= 0) or -(j+1) for the result of the j-th emitted op.
    Non-termination is detected deterministically: every iteration of every loop of the pattern inserts an
    operation and a terminating run inserts at most 4 per operand, so the harness counts the calls of
    PatternRewriter.insert (wrapped for the duration of this call only) and stops after 50 + 12 * #operands."""
    import signal
    from xdsl.context import Context
    from xdsl.pattern_rewriter import PatternRewriter
    from xdsl.transforms.riscv_lower_parallel_mov import RISCVLowerParallelMovPass
    m, src_op, use, order = build(case)
    try:
        m.verify()
    except BaseException as e:  # noqa: BLE001
        return [-2, exc_code(e)]
    budget = [50 + 12 * len(case["moves"])]
    orig_insert = PatternRewriter.insert

    def counted_insert(self, op, insertion_point=None):
        budget[0] -= 1
        if budget[0] < 0:
            raise _Timeout()
        return orig_insert(self, op, insertion_point)

    old = signal.signal(signal.SIGVTALRM, _alarm)
    signal.setitimer(signal.ITIMER_VIRTUAL, WATCHDOG_S)
    PatternRewriter.insert = counted_insert
    try:
        RISCVLowerParallelMovPass().apply(Context(), m)
    except _Timeout:
        return [-3]
    except BaseException as e:  # noqa: BLE001
        return [-1, exc_code(e)]
    finally:
        PatternRewriter.insert = orig_insert
        signal.setitimer(signal.ITIMER_VIRTUAL, 0)
        signal.signal(signal.SIGVTALRM, old)
    ref = {r: v for r, v in zip(src_op.results, order)}
    ops = []
    body = list(m.body.block.ops)
    assert body[0] is src_op and body[-1] is use
    for j, o in enumerate(body[1:-1]):
        ref[o.results[0]] = -(j + 1)
        ops.append([OPC.get(o.name, 99), reg_code(o.results[0].type)]
                   + [[ref[x], reg_code(x.type)] for x in o.operands])
    return [0, ops, [ref[x] for x in use.operands]]


# ----------------------------------------------------------------------------- oracle (independent of the model)
# RISC-V register machine on symbolic values.  Every register starts with its own distinct unknown;
# an integer value is the set of unknowns XOR-ed together (xor = symmetric difference, `zero` reads as the
# empty set and ignores writes); a float value is (unknown, narrowed) where fmv.s keeps only the low 32 bits.
def simulate(ops):
    regs = {}

    def rd(r):
        if r == ZERO:
            return frozenset()
        if r not in regs:
            regs[r] = (r, False) if is_float(r) else frozenset([r])
        return regs[r]

    def wr(r, v):
        if r != ZERO:
            regs[r] = v

    for o in ops:
        opc, d, args = o[0], o[1], [a[1] for a in o[2:]]
        if opc == 1:
            assert not is_float(d) and not is_float(args[0])
            wr(d, rd(args[0]))
        elif opc in (2, 3):
            assert is_float(d) and is_float(args[0])
            u, narrowed = rd(args[0])
            wr(d, (u, narrowed or opc == 2))
        elif opc == 4:
            assert not is_float(d) and not any(map(is_float, args))
            wr(d, rd(args[0]) ^ rd(args[1]))
        else:
            raise AssertionError(f"unexpected op {o}")
    return regs, rd


def initial(r):
    if r == ZERO:
        return frozenset()
    return (r, False) if is_float(r) else frozenset([r])


ALLOWED = (32, 64)


def float_cycle(moves):
    par = {d: s for _v, s, d, _w in moves if s != d and is_float(d)}
    for d in par:
        x, n = d, 0
        while x in par and n <= len(par):
            x, n = par[x], n + 1
            if x == d:
                return True
    return False


def failure_allowed(case):
    """The cases in which no correct sequence exists (so the pass must and may report failure)."""
    moves, free = case["moves"], case.get("free") or []
    if any(r < 0 for _v, s, d, _w in moves for r in (s, d)):
        return "unallocated register"
    if any(w not in ALLOWED for *_x, w in moves):
        return "unsupported width"
    if float_cycle(moves) and not any(is_float(f) for f in free):
        return "float cycle without designated free float register"
    return None


def holds(case, res):
    moves, free = case["moves"], case.get("free") or []
    if res[0] == -2:
        return True, ""          # rejected by the op verifier: not an input of the pass
    if res[0] == -3:
        return False, "the pass does not terminate"
    if res[0] == -1:
        why = failure_allowed(case)
        if res[1] == exc_code_name("PassFailedException") and why:
            return True, ""
        return False, (f"the pass aborts with exception code {res[1]} although a correct sequence exists"
                       if not why else f"failure ({why}) is reported with exception code {res[1]}, not PassFailedException")
    used = {r for _v, s, d, _w in moves for r in (s, d)}
    if ZERO in free or any(f in used for f in free):
        return True, ""          # a designated free register that is an operand / result / zero: outside the property
    ops = res[1]
    try:
        regs, rd = simulate(ops)
    except AssertionError as e:
        return False, f"ill-kinded emitted op: {e}"
    for _v, s, d, w in moves:
        if d == ZERO:
            continue             # x0 is hard-wired: nothing can be demanded of a move into it
        got, want = rd(d), initial(s)
        if is_float(d):
            ok = got[0] == want[0] and (not got[1] or w == 32)
        else:
            ok = got == want
        if not ok:
            return False, f"destination {d} does not hold the old value of source {s} (holds {show(got)})"
    dsts = {d for _v, _s, d, _w in moves}
    for r in sorted(regs):
        if r not in dsts and r not in free and regs[r] != initial(r):
            return False, f"register {r} is neither a destination nor a designated free register but now holds {show(regs[r])}"
    return True, ""


def show(v):
    return sorted(v) if isinstance(v, frozenset) else list(v)


def exc_code_name(name):
    from harness.common import EXC
    return EXC[name]


# ----------------------------------------------------------------------------- model side
VARIANT = None            # Coq `cfg` the real code is compared with; set from the source by generate()

_OLD = {"while": "inp.type != out.type", "res": "results[output_index[nw_inp.type]] = nw_inp",
        "out": "out = nw_out", "fin": "results[output_index[src_types[idx]]] = out"}
_NEW = {"while": "inp.type != src_types[idx]", "res": "results[output_index[nw_out.type]] = nw_out",
        "out": "out = nw_inp", "fin": "results[output_index[out.type]] = out"}
_ROOT = "free_registers[type(dst_type)].append(dst_type)"


def detect_variant(path=None):
    """Fail-closed recognition (python `ast`) of which of the modelled variants of match_and_rewrite the
    working tree contains: the five flags of coq/C20/Model.v `cfg`.  Only the statements that the repairs
    C20-1 .. C20-5 touch are inspected; everything else is covered by the correspondence."""
    import ast
    from harness.common import Untranslatable
    if path is None:      # the file the pass is actually imported from
        import xdsl.transforms.riscv_lower_parallel_mov as mod
        path = mod.__file__
    tree = ast.parse(open(path).read())
    fn = next((f for c in ast.walk(tree) if isinstance(c, ast.ClassDef) and c.name == "ParallelMovPattern"
               for f in c.body if isinstance(f, ast.FunctionDef) and f.name == "match_and_rewrite"), None)
    if fn is None:
        raise Untranslatable("ParallelMovPattern.match_and_rewrite not found")
    loops = [n for n in fn.body if isinstance(n, ast.For)]
    walk_loop = next((n for n in loops if ast.unparse(n.target) == "dst_type" and ast.unparse(n.iter) == "dst_types"), None)
    cyc_loop = next((n for n in loops if ast.unparse(n.iter) == "enumerate(results)"), None)
    if walk_loop is None or cyc_loop is None:
        raise Untranslatable("the tree loop / cycle loop of match_and_rewrite were not recognised")
    tail = [n for n in walk_loop.body if isinstance(n, ast.If) and ast.unparse(n.test) == "dst_type not in src_by_dst_type"]
    if len(tail) > 1 or any([ast.unparse(x) for x in t.body] != [_ROOT] or t.orelse for t in tail):
        raise Untranslatable("unexpected statement after the tree walk (line %d)" % tail[0].lineno)
    root_free = bool(tail)
    if _ROOT in ast.unparse(fn) and not root_free or ast.unparse(fn).count(_ROOT) > 1:
        raise Untranslatable("free_registers is extended at an unexpected place")
    whiles = [n for n in ast.walk(cyc_loop) if isinstance(n, ast.While) and "_insert_swap_ops" in ast.unparse(n)]
    if len(whiles) != 1:
        raise Untranslatable("the xor-swap loop was not recognised")
    w = whiles[0]
    body = [ast.unparse(x) for x in w.body]
    parent = next(n for n in ast.walk(cyc_loop) if isinstance(n, ast.If) and w in n.body)
    after = ast.unparse(parent.body[parent.body.index(w) + 1])
    got = {"while": ast.unparse(w.test), "res": next((b for b in body if b.startswith("results[")), ""),
           "out": next((b for b in body if b.startswith("out = nw_")), ""), "fin": after}
    if got == _OLD:
        xor_old = True
    elif got == _NEW:
        xor_old = False
    else:
        raise Untranslatable(f"xor-swap loop is neither the pinned nor the repaired form: {got}")
    # ---- C20-3: moves into `zero` handled at the top of the first loop
    src_txt = ast.unparse(fn)
    first = next((n for n in loops if ast.unparse(n.target) == "(idx, src, dst)"), None)
    if first is None:
        raise Untranslatable("the first loop of match_and_rewrite was not recognised")
    zero_first = False
    if "ZERO" in src_txt:
        h = first.body[0]
        want = ["width = op.input_widths.get_values()[idx]",
                "results[idx] = _insert_mv_op(rewriter, src, dst.type, width).results[0]", "continue"]
        if not (isinstance(h, ast.If) and not h.orelse and src_txt.count("ZERO") == 1
                and ast.unparse(h.test) == "dst.type == riscv.Registers.ZERO and src.type != dst.type"
                and [ast.unparse(x) for x in h.body] == want):
            raise Untranslatable("the zero register is treated in an unmodelled way")
        zero_first = True
    # ---- C20-4: key of unprocessed_children
    n_val, n_reg = src_txt.count("unprocessed_children[src]"), src_txt.count("unprocessed_children[src.type]")
    if (n_val, n_reg) == (3, 0):
        cnt_by_reg = False
    elif (n_val, n_reg) == (0, 3):
        cnt_by_reg = True
    else:
        raise Untranslatable(f"unprocessed_children is indexed in an unmodelled way ({n_val}, {n_reg})")
    # ---- C20-5: width lookup
    n_old, n_new = src_txt.count("src_type_by_src[src]"), src_txt.count("width_by_dst[dst_type]")
    if (n_old, n_new) == (2, 0) and "width_by_dst" not in src_txt:
        width_by_dst = False
    elif (n_old, n_new) == (0, 2) and "src_type_by_src" not in src_txt and \
            "width_by_dst = dict(zip(dst_types, op.input_widths.iter_values(), strict=True))" in src_txt:
        width_by_dst = True
    else:
        raise Untranslatable(f"the width of a move is looked up in an unmodelled way ({n_old}, {n_new})")
    return root_free, xor_old, zero_first, cnt_by_reg, width_by_dst


FLAGS = ("root_free", "xor_old", "zero_first", "cnt_by_reg", "width_by_dst")


def generate(ctx):
    global VARIANT
    flags = detect_variant()
    VARIANT = "(mkCfg " + " ".join(coq_bool(f) for f in flags) + ")"
    meaning = {(True, True, False, False, False): "pinned tree (theorems: C20_*_refuted + C20_partial)",
               (False, False, False, False, False): "C20-1 + C20-2 applied (theorems: C20_simultaneous, C20_frame, C20_failure_reported, ... under `wf`)",
               (False, False, True, True, True): "C20-1 .. C20-5 applied (theorems: C20_all_* under the weaker `wf_all`)"}
    ctx.coverage["model_variant"] = dict(zip(FLAGS, flags))
    ctx.coverage["model_variant"]["meaning"] = meaning.get(tuple(flags), "a mix of repairs without its own theorems (correspondence and oracle only)")


def coq_moves(moves):
    return coq_list(f"mkM {coq_Z(v)} {coq_Z(s)} {coq_Z(d)} {coq_Z(w)}" for v, s, d, w in moves)


def variant():
    global VARIANT
    if VARIANT is None:
        VARIANT = "(mkCfg " + " ".join(coq_bool(f) for f in detect_variant()) + ")"
    return VARIANT


def coq_expr(case):
    return f"c20_case {variant()} {coq_moves(case['moves'])} {coq_list(coq_Z(f) for f in (case.get('free') or []))}"


# enumerators mirrored from coq/C20/Enc.v (same order)
def insert_all(x, l):
    if not l:
        return [[x]]
    return [[x] + l] + [[l[0]] + t for t in insert_all(x, l[1:])]


def perms(l):
    if not l:
        return [[]]
    return [q for p in perms(l[1:]) for q in insert_all(l[0], p)]


def choices(opts, n):
    if n == 0:
        return [[]]
    return [[o] + t for o in opts for t in choices(opts, n - 1)]


def graphs(regs):
    return [[(p, d) for p, d in zip(ps, regs) if p is not None] for ps in choices([None] + regs, len(regs))]


def wrule(s):
    return 32 if (s // 2) % 2 == 1 else 64


def moves_of(edges):
    seen, out = [], []
    for s, d in edges:
        if s not in seen:
            seen.append(s)
        out.append([seen.index(s), s, d, wrule(s)])
    return out


# ----------------------------------------------------------------------------- fingerprints (mirror of Enc.v)
HM, HB = (1 << 60) - 1, 1000003


def hash_sx(x, h):
    if isinstance(x, int):
        return (h * HB + x + 1000) & HM
    h = (h * HB + 1000033 + 1000) & HM
    for y in x:
        h = hash_sx(y, h)
    return (h * HB + 1000037 + 1000) & HM


def hash_block(rs):
    h = 0
    for r in rs:
        h = hash_sx(r, h)
    return h


BLOCK = 64


def orders(all_, gi, gf):
    if all_:
        return perms(gi + gf)
    return [gi + gf, (gi + gf)[::-1], gf + gi[::-1]]


def sweep_shard(all_, first, iregs, fregs, free):
    """(Coq expression printing one hash per block of 64 cases, the cases in the same order)."""
    def sel(g):
        if first is None:
            return not g or g[0][1] != iregs[0]
        return bool(g) and g[0][1] == iregs[0] and g[0][0] == first
    cases = [{"moves": moves_of(p), "free": list(free)}
             for gi in graphs(iregs) if sel(gi) for gf in graphs(fregs) for p in orders(all_, gi, gf)]
    fst = "None" if first is None else f"(Some {coq_Z(first)})"
    z = lambda l: coq_list(coq_Z(x) for x in l)
    return (f"c20_sweep_h {variant()} {'true' if all_ else 'false'} {fst} {z(iregs)} {z(fregs)} {z(free)}", cases)


_sampled = set()


def _tally(ctx, name, cases, ev):
    fails, known_hits = [], {}
    for i, (c, (r, ok, why, kid, nt)) in enumerate(zip(cases, ev)):
        if nt is not None:
            ctx.nontrivial.add((name, nt))
        if not ok:
            if kid:
                known_hits[kid] = known_hits.get(kid, 0) + 1
            else:
                fails.append((c, r, why))
        if nt is not None and name not in _sampled:
            _sampled.add(name)
            ctx.sample({"family": name, "case": c, "impl": r}, limit=8)
    ctx.evaluations += len(cases)
    return fails, known_hits


def hashed_sweeps(ctx, families):
    """Exhaustive families [(name, shards)]: the Coq side enumerates the cases itself and prints one
    fingerprint per block of 64 results; a block whose fingerprint differs from the implementation's is
    re-evaluated case by case with full output.  All shards of all families go to one parallel coqc batch."""
    import time
    from harness import common
    t = time.time()
    flat = {name: [c for _, cs in shards for c in cs] for name, shards in families}
    allc = [c for name, _ in families for c in flat[name]]
    allev = common.eval_cases(allc, impl, holds, known, nontrivial, parallel=len(allc) >= 4000)
    ev, off = {}, 0
    for name, _ in families:
        ev[name] = allev[off:off + len(flat[name])]
        off += len(flat[name])
    try:
        model = ctx.coq_eval(REQ, [e for _, shards in families for e, _ in shards], shard=3)
        model_err = None
    except common.ModelUnavailable as e:
        model, model_err = None, str(e)
    mpos = 0
    for name, shards in families:
        fails, known_hits = _tally(ctx, name, flat[name], ev[name])
        diverge, err = [], model_err
        if model is not None:
            try:
                suspects, off = [], 0
                for (_e, cs) in shards:
                    mh = model[mpos]
                    mpos += 1
                    nb = (len(cs) + BLOCK - 1) // BLOCK
                    if len(mh) != nb:
                        raise common.ModelUnavailable(f"{name}: model enumerates {len(mh)} blocks, harness {nb}")
                    for b in range(nb):
                        idx = range(off + b * BLOCK, off + min(len(cs), (b + 1) * BLOCK))
                        if hash_block([ev[name][i][0] for i in idx]) != mh[b]:
                            suspects += list(idx)
                    off += len(cs)
                if suspects:
                    suspects = suspects[:1280]
                    full = ctx.coq_eval(REQ, [coq_expr(flat[name][i]) for i in suspects], shard=160)
                    for i, m in zip(suspects, full):
                        if ev[name][i][0] != m:
                            diverge.append((flat[name][i], ev[name][i][0], m))
                    if not diverge:
                        raise common.ModelUnavailable(f"{name}: block fingerprints differ but no single case "
                                                      "does (the enumerators of Enc.v and c20.py are out of step)")
            except common.ModelUnavailable as e:
                err = str(e)
        common._report(ctx, name, len(flat[name]), fails, diverge, known_hits, err, True, t)


def explicit_families(ctx, families):
    """[(name, cases, exhaustive)]: one Coq expression per case (full results compared), one coqc batch."""
    import time
    from harness import common
    t = time.time()
    allc = [c for _n, cs, _x in families for c in cs]
    allev = common.eval_cases(allc, impl, holds, known, nontrivial, parallel=len(allc) >= 1500)
    try:
        model = ctx.coq_eval(REQ, [coq_expr(c) for c in allc], shard=120)
        model_err = None
    except common.ModelUnavailable as e:
        model, model_err = None, str(e)
    off = 0
    for name, cs, exh in families:
        ev = allev[off:off + len(cs)]
        fails, known_hits = _tally(ctx, name, cs, ev)
        diverge = []
        if model is not None:
            diverge = [(c, e[0], m) for c, e, m in zip(cs, ev, model[off:off + len(cs)]) if e[0] != m]
        off += len(cs)
        common._report(ctx, name, len(cs), fails, diverge, known_hits, model_err, exh, t)


# ----------------------------------------------------------------------------- known-finding classes
def nontrivial_moves(moves):
    return [m for m in moves if m[1] != m[2]]


def cycles(moves):
    """cycles of the register graph of the non-trivial moves (destinations assumed distinct)"""
    par = {d: s for _v, s, d, _w in nontrivial_moves(moves)}
    out, seen = [], set()
    for d in par:
        path, x = [], d
        while x in par and x not in path and x not in seen:
            path.append(x)
            x = par[x]
        if x == d and path:
            out.append(path)
            seen.update(path)
    return out


def known(case, res):
    """Class predicates of the committed known findings (known_findings.d/C20.json)."""
    moves, free = case["moves"], case.get("free") or []
    nt = nontrivial_moves(moves)
    if [m[2] for m in moves].count(ZERO) >= 2:
        return "C20-kf-3"       # `zero` is a destination more than once (the verifier allows it)
    ntd = {m[2] for m in nt}
    by_src = {}
    for v, s, _d, _w in nt:
        by_src.setdefault(s, set()).add(v)
    if res[0] == -1 and res[1] == 6 and any(len(vs) > 1 and s in ntd for s, vs in by_src.items()):
        return "C20-kf-5"       # two SSA values live in one source register that is itself overwritten
    if res[0] != 0:
        return None
    ops = res[1]
    roots = {m[1] for m in nt} - ntd
    if any(o[1] in roots and o[1] not in free for o in ops):
        return "C20-kf-1"       # an emitted op writes a tree root (a register that is only read)
    xor_regs = {o[1] for o in ops if o[0] == 4}
    if ZERO in xor_regs:
        return "C20-kf-4"       # xor-swap through the hard-wired zero register
    if any(len(c) >= 3 and set(c) & xor_regs for c in cycles(moves)):
        return "C20-kf-2"       # xor-swap chain on a cycle of three or more registers
    wid = {}
    for v, _s, _d, w in moves:
        wid.setdefault(v, set()).add(w)
    if any(is_float(s) and len(wid[v]) > 1 for v, s, _d, _w in nt):
        return "C20-kf-6"       # one float SSA value moved with two different widths
    return None


def nontrivial(case, res):
    nt = nontrivial_moves(case["moves"])
    srcs = [m[1] for m in nt]
    dsts = {m[2] for m in nt}
    if cycles(case["moves"]) or len(srcs) != len(set(srcs)) or any(s in dsts for s in srcs) or res[0] < 0:
        return (tuple(map(tuple, case["moves"])), tuple(case.get("free") or ()))
    return None


# ----------------------------------------------------------------------------- explicit families
TI, TF = 40, 41      # t0 / ft8: registers outside every swept graph, used as designated free registers


def zero_family():
    """universe zero, s1, s2: parents of s1, s2 in {none, zero, s1, s2}; 0..2 moves into zero; every order"""
    out = []
    for ps in choices([None, 0, 2, 4], 2):
        base = [(p, d) for p, d in zip(ps, [2, 4]) if p is not None]
        for k in range(3):
            for zs in choices([0, 2, 4], k):
                seen = set()
                for p in perms(base + [(z, 0) for z in zs]):
                    if tuple(p) in seen:
                        continue
                    seen.add(tuple(p))
                    for free in ([], [TI]):
                        out.append({"moves": moves_of(p), "free": free})
    return out


def partitions(n):
    def go(i, cur, mx):
        if i == n:
            yield list(cur)
            return
        for v in range(mx + 2):
            yield from go(i + 1, cur + [v], max(mx, v))
    yield from go(0, [], -1)


def ssa_family():
    """int graphs on 3 registers, every order, every assignment of SSA values to operands in which some
    source register carries two different values (a value has one register)"""
    out = []
    for g in graphs([2, 4, 6]):
        for p in perms(g):
            n = len(p)
            for part in partitions(n):
                ok = all(p[i][0] == p[j][0] for i in range(n) for j in range(n) if part[i] == part[j])
                canon = all(part[i] == part[j] for i in range(n) for j in range(n) if p[i][0] == p[j][0])
                if ok and not canon:
                    for free in ([], [TI]):
                        out.append({"moves": [[part[i], p[i][0], p[i][1], 32] for i in range(n)], "free": free})
    return out


def width_family():
    """float graphs on 2 registers + one int move, every order, every per-operand width in {32, 64, 16}"""
    out = []
    for g in graphs([3, 5]):
        for p in perms(g + [(2, 4)]):
            base = moves_of(p)
            for ws in choices([32, 64, 16], len(base)):
                for free in ([], [TF]):
                    out.append({"moves": [[v, s_, d, w] for (v, s_, d, _), w in zip(base, ws)], "free": free})
    return out


def random_case(rng):
    """larger graphs (up to 8 registers per kind) with a malformed stream: unsupported widths, unallocated
    registers, kind mismatches, duplicate destinations, free lists that overlap the moves."""
    ni, nf = rng.randint(0, 8), rng.randint(0, 4)
    iregs = [2 * k for k in rng.sample(range(1, 12), ni)]
    fregs = [2 * k + 1 for k in rng.sample(range(0, 12), nf)]
    bad = rng.random() < 0.25
    edges = []
    for regs in (iregs, fregs):
        for d in regs:
            u = rng.random()
            if u < 0.25:
                continue
            pool = regs + ([0] if regs is iregs and rng.random() < 0.15 else [])
            s_ = d if u < 0.32 else rng.choice(pool)
            edges.append((s_, d))
    rng.shuffle(edges)
    moves = moves_of(edges)
    wv = {}
    for m in moves:
        m[3] = wv.setdefault(m[0], rng.choice([32, 64]))
    free = []
    if rng.random() < 0.5:
        free.append(TI)
    if rng.random() < 0.5:
        free.append(TF)
    rng.shuffle(free)
    if bad and moves:
        k = rng.randrange(8)
        m = rng.choice(moves)
        if k == 0:
            m[3] = rng.choice([0, 8, 16, 40, 128])
        elif k == 1:
            m[2] = -1 if is_float(m[2]) else -2
        elif k == 2:
            old = m[1]
            for q in moves:
                if q[1] == old:
                    q[1] = -1 if is_float(old) else -2
        elif k == 3:
            m[2] = m[2] ^ 1
        elif k == 4:
            m[2] = rng.choice(moves)[2]
        elif k == 5:
            free = free + [rng.choice([m[1], m[2], 0])]
        elif k == 6:
            m[2] = 0
        else:
            m[3] = 96 - m[3]
    return {"moves": moves, "free": free if free or rng.random() < 0.5 else None}

META = {
    "id": "C20",
    "title": "Parallel-move lowering performs a simultaneous assignment",
    "design_ref": "DESIGN.md section 8.C20",
    "technique": "Coq proof of the lowering algorithm (tree walk, cycle breaking, xor-swap chain) against a RISC-V register machine + exhaustive model-vs-code correspondence on the emitted operation lists",
    "level_text": (
        "Theorems in coq/Props/C20.v. For the tree as it is now (C20-1 + C20-2 applied, model `lower repaired`), for EVERY "
        "well-formed parallel move (any number of registers, any mix of chains, fan-outs, cycles, self-moves, integer "
        "and float registers, any free list, any operand order): if a sequence is emitted then after executing it every "
        "destination holds the old value of its source (C20_simultaneous) and no register other than destinations and "
        "designated free registers changes (C20_frame); the loops terminate, the only exception is PassFailedException and "
        "only for an unallocated register, an unsupported width or a float cycle without free float register "
        "(C20_failure_reported), those impossible cases always fail (C20_fails_when_impossible) and everything else "
        "succeeds (C20_success). For the tree with the further proposed repairs C20-3 (moves into zero), C20-4 (counter "
        "keyed by register) and C20-5 (width per move) -- model `lower repaired_all` -- the same five statements are proved "
        "under the weaker hypotheses `wf_all` (several SSA values per register, per-operand widths): C20_all_*. For the "
        "originally pinned tree (`lower unchanged`) the full statements are REFUTED (C20_frame_refuted, "
        "C20_simultaneous_refuted) and C20_partial holds: whenever every cycle has a designated free register of its kind "
        "the pinned code emits exactly what the repaired algorithm emits. Which variant of the model the working tree is "
        "compared with is decided on every run by a fail-closed `ast` recognition of the statements the five repairs touch "
        "(coverage.model_variant). The model is tied to the code by exhaustive sweeps over all move graphs on 3-4 integer "
        "and 2 float registers with every operand order and free set, comparing the emitted operation lists exactly, plus "
        "graphs through `zero`, shared registers, per-operand widths and random larger/malformed inputs."),
    "level_note": (
        "Trusted: Coq kernel; the hand-written model (Python dicts as functions, SSA values as (identity, register), "
        "registers as integers); RISC-V semantics of mv/fmv.s/fmv.d/xor as written in Model.v `step`; correspondence harness. "
        "Hypotheses `wf` (Spec.v): kinds match and destinations are distinct (verifier; the verifier exempts `zero`, the "
        "theorems do not), one SSA value per source register, one width per SSA value, designated free registers are not "
        "operand/result registers and not `zero`, `zero` is not overwritten; `wf_all` drops the two SSA-value hypotheses. "
        "Partial: `zero` as a repeated destination / overwritten `zero` (accepted by the code with C20-3) is outside both "
        "`wf` and `wf_all`; it is covered by the exhaustive zero-register sweep, the oracle and four vm_compute Examples. "
        "Inputs outside `wf` that the verifier accepts are recorded as known findings kf-3..kf-6 for the current tree. "
        "Not covered by the partial theorem for the originally pinned tree: integer cycles resolved by xor swaps. Not "
        "modelled: ABI register aliases (x0 vs zero), the rewriter's insertion point and name hints, results of the "
        "parallel move that have no use."),
}
COQ_TARGETS = ["C20/Enc.vo", "C20/Proofs.vo", "Props/C20.vo"]
REQ = ["C20.Model", "C20.Enc"]
ASSUMPTIONS = [
    "a designated free register is not an operand or result register of the parallel move (the meaning of `free`)",
    "register names are compared as the pass compares them (attribute equality); the ABI aliases x0..x31 are not identified with zero, ra, ...",
]
TRUSTED = [
    "RISC-V semantics of mv / fmv.s / fmv.d / xor on 64-bit registers with x0 hard-wired to 0 as written in coq/C20/Model.v (`step`) and, independently, in harness/props/c20.py (`simulate`)",
]


def run(ctx: Ctx):
    thorough = ctx.tier == "thorough"
    rng = ctx.rng
    replay_findings(ctx, "moves", impl, holds)
    I3, I4, F2 = [2, 4, 6], [2, 4, 6, 8], [3, 5]

    def shards(all_, iregs, fregs, frees):
        return [sweep_shard(all_, first, iregs, fregs, fr) for first in [None] + (iregs or []) for fr in frees]

    both = ([], [TI], [TF], [TI, TF])
    fams = [("all-graphs-3int-every-order", shards(True, I3, [], ([], [TI]))),
            ("all-graphs-2float-every-order", [sweep_shard(True, None, [], F2, fr) for fr in ([], [TF])])]
    if thorough:
        fams += [("all-graphs-3int+2float-every-order", shards(True, I3, F2, both)),
                 ("all-graphs-4int-every-order", shards(True, I4, [], ([], [TI]))),
                 ("all-graphs-4int+2float-3-orders", shards(False, I4, F2, both))]
    else:
        fams += [("all-graphs-3int+2float-3-orders", shards(False, I3, F2, both)),
                 ("all-graphs-4int-3-orders", shards(False, I4, [], ([], [TI])))]
    hashed_sweeps(ctx, fams)

    def pick(cases, n):
        return cases if thorough or len(cases) <= n else rng.sample(cases, n)
    explicit_families(ctx, [
        ("zero-register-graphs", pick(zero_family(), 100), thorough),
        ("several-ssa-values-per-register", pick(ssa_family(), 120), thorough),
        ("per-operand-widths", pick(width_family(), 120), thorough),
        ("random-larger-and-malformed", [random_case(rng) for _ in range(3000 if thorough else 300)], False)])
    ctx.coverage["rule"] = RULE
    ctx.coverage["exhaustive"] = True
    ctx.coverage["explanation"] = EXPLANATION


RULE = ("Exhaustive families: every move graph (each register has no incoming move or one source among the "
        "registers of its kind, itself included = self-move) on 3 (thorough: 4) integer and 2 float registers, "
        "every order of the operands (or three fixed orders where stated in the family name), every subset of "
        "one spare integer and one spare float register as designated free registers, one SSA value per source "
        "register, widths 32/64 by a fixed rule; enumerated independently by Coq (Enc.v) and python and compared "
        "through per-block fingerprints of the full results. Explicit families: graphs through `zero` (incl. "
        "duplicate zero destinations), several SSA values in one register, every per-operand width in {32,64,16}, "
        "random graphs on up to 8+4 registers with a malformed stream (unsupported widths, unallocated registers, "
        "kind mismatches, duplicate destinations, free lists overlapping the moves). Non-trivial = the graph has a "
        "cycle, a fan-out or a chain of two or more moves, or the pass raises; distinct = distinct (operand list, "
        "free list).")
EXPLANATION = ("exhaustive over all move graphs with the stated number of registers; the emitted operation list "
               "(opcode, rd, operand SSA value and register), the replacement values and the exception class are compared")


def replay_case(ctx, witness):
    case = witness.get("case") or witness
    if "moves" not in case:
        print("nothing to replay")
        return 0
    r = impl(case)
    ok, why = holds(case, r)
    print("case      :", case)
    print("real pass :", r)
    try:
        print("model     :", ctx.coq_eval(REQ, [coq_expr(case)])[0])
    except Exception as e:  # noqa: BLE001
        print("model unavailable:", e)
    print("oracle    :", "holds" if ok else "FAILS: " + why, "| known class:", None if ok else known(case, r))
    return 0 if ok or known(case, r) else 1
