"""C18 -- Pass pipeline specifications round-trip through text.

Tie: hand-written Coq model (coq/C18/Model.v) of xdsl/utils/arg_spec.py (printer, the ten lexer
regexes as deterministic recognisers, lazy token stream, recursive-descent parser, string unescape,
_convert_arg_to_type/isa, from_spec/spec) and PassPipeline.parse_spec, compared with the real code on
(1) char-classes: every code point against the real compiled regexes (class membership bit mask),
(2,3) rules+lexer: each of the ten regexes matched at position 0 of generated strings (match
length) and the whole token stream (kind, text), (4) parse: tuple(parse_pipeline(s)) on token soups,
mutated valid pipelines, random ASCII and non-ASCII text (structure or exception class),
(5) print-parse: random ArgSpec pipelines printed and parsed back (text and structure),
(6) passes: every registered pass class (xdsl.transforms.get_all_passes) and synthetic pass classes
covering every supported option type, instantiated with generated values of each declared field
type: pipeline_pass_spec, its text, PassPipeline.parse_spec of the text (fields of the new pass),
(6b) pipelines: 2-4 passes where one class occurs 2-3 times with different (sometimes identical)
option values, interleaved with other passes, printed comma-joined and parsed back position by position,
(7) from-text: hand-made/mutated option texts against the registered classes (pass / ValueError /
ArgSpecParseError).  Floats cross the boundary as IEEE bit patterns; float()/str() are tables
computed by CPython per case (named oracle).
Oracles (independent of the model): printed text parses back to an equal ArgSpec (a non-finite
float may read back as its text inf/-inf/nan: untyped values have no literal for it) / to an equal
pass; parse_pipeline raises nothing but ArgSpecParseError (or ValueError for an over-long integer
literal); from_pass_spec raises nothing but ValueError; token texts concatenate to the input.
Non-trivial: a parse case that yields at least one option value or a non-lexical error; a
round-trip case with at least one option value; distinct = distinct text / spec / (class, values).
"""
import dataclasses
import re
import string
import struct
from dataclasses import dataclass, field
from types import NoneType, UnionType
from typing import Literal, Union, get_args, get_origin, get_type_hints

from harness.common import (Ctx, DiffSpec, Untranslatable, coq_list, coq_Z, coq_Zs, differential,
                            replay_findings)

META = {
    "id": "C18",
    "title": "Pass pipeline specifications round-trip through text",
    "design_ref": "DESIGN.md section 8.C18",
    "technique": "Coq proof of print->lex->parse->from_spec round trip and parser totality on a character-level "
                 "model + differential correspondence on every registered pass class and arbitrary pipeline strings",
    "level_text": (
        "Theorems in coq/Props/C18.v about the character-level model of arg_spec.py after the fix commits 433c5e1, "
        "fdc8560, c048b77: for EVERY ArgSpec whose pass/option names lex as identifiers, whose strings contain ANY "
        "characters except a lone surrogate, whose ints have at most 4300 digits and whose floats print to a text that "
        "the NUMBER regex matches entirely and that contains '.' (all floats except inf/-inf/nan, given "
        "float(text) = x), parse_pipeline(str(spec)) = [spec] (C18_spec_roundtrip), likewise for comma-joined "
        "pipelines (C18_pipeline_roundtrip), and from_pass_spec of the parsed spec gives back the pass field by field "
        "(C18_roundtrip; a field equal to its default comes back as the default; excluded: an empty tuple of a Union "
        "field and a 1-tuple whose element alone has the field type). inf/-inf/nan of a float-typed option are read as "
        "strings and converted by float() (C18_convert_non_finite); as untyped ArgSpec values and in a float|str field "
        "they stay strings (C18_roundtrip_refuted_non_finite, C18_convert_refuted_str_union). For EVERY input string "
        "the parser returns specs, ArgSpecParseError, or the ValueError of int() on a literal of more than 4300 digits, "
        "and never reads past EOF, trips the assertion or runs out of fuel (C18_parse_total; only ArgSpecParseError for "
        "inputs of at most 4300 characters: C18_parse_total_short). The refutations of the code before the fixes are "
        "kept against the old printer / old conversion (C18_print_old_refuted_*). The model is tied to the code by the "
        "correspondence families listed in the rule."),
    "level_note": (
        "Trusted: Coq kernel; hand-written model (incl. a strict UTF-8 decoder for \\HH escapes); CPython "
        "float()/str()/== on floats as named oracles (abstract in the theorems with the hypothesis float(printed text) "
        "= x, tables in the correspondence); CPython `re` semantics of the ten regexes (tied by the "
        "char-classes/rules+lexer families); harness. Not covered: Literal[...] of non-strings, nested tuples, field "
        "types outside int|float|bool|str|None|Literal|tuple|Union (translation fails closed); dataclass "
        "__post_init__ of a pass. The parse oracle accepts ValueError from int() of a literal with more than 4300 "
        "digits as an option error; an untyped ArgSpec value inf/-inf/nan may read back as its text."),
}
COQ_TARGETS = ["C18/Enc.vo", "C18/ProofsLex.vo", "C18/ProofsParse.vo", "C18/ProofsTotal.vo", "C18/ProofsPass.vo",
               "C18/ProofsWitness.vo",
               "Props/C18.vo"]
REQ = ["C18.Model", "C18.Enc"]
ASSUMPTIONS = [
    "option field names are Python identifiers (no '-'); pass names are the registered names",
    "CPython: float(t) == x for every finite float x, t = str(x) with 'e' replaced by '.0e' when it has no '.'",
    "sys.get_int_max_str_digits() == 4300 (CPython default)",
]
TRUSTED = [
    "named oracles: CPython float(text), str(float), float ==, int == float (abstract Section variables in the "
    "theorems; per-case tables / exact bit-level definitions in the correspondence)",
    "CPython `re` backtracking semantics for the ten _lexer_rules patterns (deterministic recognisers in the model, "
    "compared on every code point and on generated strings every run)",
    "str(1e22) == '1e+22', str(1e-05) == '1e-05', str(float('inf')) == 'inf' (checked on every run)",
]

SHARD = 200
PRELUDE = """
Definition vB := @VBool Z. Definition vI := @VInt Z. Definition vF := @VFloat Z. Definition vS := @VStr Z.
Definition pN := @PNone Z. Definition pS := @PScalar Z. Definition pT := @PTuple Z.
Definition mkF := @Build_field Z. Definition mkC := @Build_pass_class Z.
"""

# ------------------------------------------------------------------------------------ helpers
KIND = {"IDENT": 1, "L_BRACE": 2, "R_BRACE": 3, "EQUALS": 4, "NUMBER": 5, "SPACE": 6, "STRING_LIT": 7,
        "MLIR_PIPELINE": 8, "COMMA": 9, "EOF": 100}
E_ARGSPEC, E_PARSE, E_UNIDEC, E_UNIENC, E_VALUE, E_OTHER = 20, 1, 21, 22, 3, 10
BAD_STR_CHARS = '"\\\n\f\v\r'


def cps(s):
    return [ord(c) for c in s]


def uncps(l):
    return "".join(chr(c) for c in l)


def coq_str(s):
    """Coq `list Z` literal of the code points; runs of > 40 equal characters become `repeat c n`."""
    parts, lit, i = [], [], 0
    while i < len(s):
        j = i
        while j < len(s) and s[j] == s[i]:
            j += 1
        if j - i > 40:
            if lit:
                parts.append(coq_Zs(lit))
                lit = []
            parts.append(f"repeat {coq_Z(ord(s[i]))} (Z.to_nat {coq_Z(j - i)})")
        else:
            lit += [ord(s[i])] * (j - i)
        i = j
    if lit or not parts:
        parts.append(coq_Zs(lit))
    return parts[0] if len(parts) == 1 and parts[0].startswith("[") else "(" + " ++ ".join(parts) + ")%list"


def fbits(x):
    return struct.unpack(">Q", struct.pack(">d", x))[0]


def unbits(b):
    return struct.unpack(">d", struct.pack(">Q", b))[0]


def exc_kind(e):
    from xdsl.utils.exceptions import ArgSpecParseError, ParseError
    if isinstance(e, ArgSpecParseError):
        return E_ARGSPEC
    if isinstance(e, ParseError):
        return E_PARSE
    if isinstance(e, UnicodeDecodeError):
        return E_UNIDEC
    if isinstance(e, UnicodeEncodeError):
        return E_UNIENC
    if isinstance(e, ValueError):
        return E_VALUE
    return E_OTHER


ERRNAME = {20: "ArgSpecParseError", 1: "xdsl ParseError", 21: "UnicodeDecodeError", 22: "UnicodeEncodeError",
           3: "ValueError", 10: "another exception kind"}

# JSON codec for option values (floats as bit patterns: inf/nan/-0.0 survive)
def jenc(v):
    if v is None or isinstance(v, (bool, str)):
        return v
    if isinstance(v, int):
        return v
    if isinstance(v, float):
        return {"f": fbits(v)}
    if isinstance(v, tuple):
        return {"t": [jenc(x) for x in v]}
    raise TypeError(v)


def jdec(j):
    if isinstance(j, dict):
        if "f" in j:
            return unbits(j["f"])
        return tuple(jdec(x) for x in j["t"])
    return j


def enc_value(v):
    if isinstance(v, bool):
        return [0, int(v)]
    if isinstance(v, int):
        return [1, v]
    if isinstance(v, float):
        return [2, fbits(v)]
    if isinstance(v, str):
        return [3, cps(v)]
    raise TypeError(f"unsupported parameter value {v!r}")


def enc_spec(sp):
    return [cps(sp.name), [[cps(k), [enc_value(x) for x in vs]] for k, vs in sp.parameters.items()]]


def coq_value(v):
    if isinstance(v, bool):
        return f"vB {'true' if v else 'false'}"
    if isinstance(v, int):
        return f"vI {coq_Z(v)}"
    if isinstance(v, float):
        return f"vF {coq_Z(fbits(v))}"
    if isinstance(v, str):
        return f"vS {coq_str(v)}"
    raise Untranslatable(f"unsupported option value {v!r}")


def coq_pval(v):
    if v is None:
        return "pN"
    if isinstance(v, tuple):
        return f"pT {coq_list(coq_value(x) for x in v)}"
    return f"pS ({coq_value(v)})"


def enc_pval(v):
    if v is None:
        return [0]
    if isinstance(v, tuple):
        return [2, [enc_value(x) for x in v]]
    return [1, enc_value(v)]


# my own copy of the '.'-containing part of the NUMBER regex: which texts float() is applied to
_FLOAT_TEXT = re.compile(r"[-+]?[0-9]+\.[0-9]*(?:[eE][-+]?[0-9]+)?")


def coq_ptab(text):
    # float("inf"), float("-inf"), float("nan"): used by the non-finite fallback of _convert_arg_to_type
    tab = {t: fbits(float(t)) for t in ("inf", "-inf", "nan")}
    for pos in range(len(text)):
        m = _FLOAT_TEXT.match(text, pos)
        if m and m.group() not in tab:
            tab[m.group()] = fbits(float(m.group()))
    return coq_list(f"({coq_str(t)}, {coq_Z(b)})" for t, b in tab.items())


def floats_in(v, out):
    if isinstance(v, float):
        out.add(fbits(v))                  # by bit pattern: 0.0 and -0.0 are different entries
    elif isinstance(v, tuple):
        for x in v:
            floats_in(x, out)


def coq_stab(fs):
    return coq_list(f"({coq_Z(b)}, {coq_str(str(unbits(b)))})" for b in sorted(fs))


def py_equal(a, b):
    """Python ==, except that two NaNs count as equal (a NaN option can never compare equal otherwise)."""
    if isinstance(a, float) and isinstance(b, float) and a != a and b != b:
        return True
    if isinstance(a, tuple) and isinstance(b, tuple):
        return len(a) == len(b) and all(py_equal(x, y) for x, y in zip(a, b))
    return a == b


# ------------------------------------------------------------------------------------ generators
IDCH = string.ascii_letters + string.digits + "_-"
SPACES = [" ", " ", " ", "  ", "\t", "\n", "\r", "\x0b", "\x0c", "\x1c", "\x1f", "\x85", "\xa0", "\u1680", "\u2003",
          "\u200a", "\u2028", "\u2029", "\u202f", "\u205f", "\u3000"]
NOT_SPACES = ["\x1b", "\u200b", "\u2060", "\ufeff", "\x84", "\x86", "\u180e"]
IDENT_POOL = ["a", "b", "foo", "foo-bar", "x_1", "arg-1", "2d-slice", "true", "false", "mlir-opt", "inf", "nan",
              "-inf", "-a", "--", "-", "_", "1e5", "1e-05", "e", "E5", "e-5", "1-", "0x10", "9z", "True", "none",
              "canonicalize", "cse", "dce"]
NUMBER_POOL = ["0", "1", "-1", "+5", "007", "12", "1.5", "1.", "-0.0", "1.5e3", "1.5e+3", "1.5E-3", "1.e5", "1.5e",
               "1.5e+", "+2.", "1e+22", "-1e-05", "-1e+22", "123456789012345678901234567890", "1..2", "1.2.3", ".5",
               "-.5", "+", "1.5e-", "00.00", "1.5e3e4", "9" * 40, "1.0e999", "4.9e-324"]
STRING_POOL = ['"abc"', '""', '"a b"', '"\\n"', '"\\t"', '"\\\\"', '"\\""', '"\\r"', '"\\f"', '"\\v"', '"\\fa"',
               '"\\f0x"', '"\\ff\\n"', '"\\fA9"', '"\\fg"', '"x\\f"', '"\u00e9"', '"x', 'x"', '"\\x"', '"a\nb"', '"\\',
               '"a\tb"', '"{a=1}"', '"a,b"', '"\\fa\\r"', '"\\r\\fa"', '"\U0001f600"', '"\\n\\t\\\\\\""', '"\\0a"',
               '"\\"', '"\ud800"', '"\\fa\ud800"', '"\ud800\\r"', '"tab\there"', '"\x00"', '"\\f\\\\"',
               '"\\c3\\a9"', '"\\e2\\82\\ac"', '"\\f0\\9f\\98\\80"', '"\\c3"', '"\\a9"', '"\\c0\\80"', '"\\ed\\a0\\80"',
               '"\\ed\\9f\\bf"', '"\\f4\\90\\80\\80"', '"\\41"', '"\\0D"', '"\\0d\\0C\\0B"', '"\\7f"', '"\\80"', '"\\c3\u00e9"',
               '"\\e0\\9f\\bf"', '"\\e0\\a0\\80"', '"\\ef\\bf\\bf"', '"\\f0\\8f\\bf\\bf"', '"\\f0\\90\\80\\80"',
               '"\\f4\\8f\\bf\\bf"', '"\\f5\\80\\80\\80"', '"\\c2\\80"', '"\\c1\\bf"', '"\\df\\bf"', '"\\zz"', '"\\0"', '"\\0g"',
               '"a\\c3\\a9b"', '"\\c3\\a9\\c3"', '"\\e2\\82"', '"\\f0\\9f\\98"', '"\\C3\\A9"', '"\\fa"', '"\\ff\\fe"']
MLIR_POOL = ["[x]", "[]", '[a{b}, "c"]', "[\\n]", "[a]b]", "[x", "[\\]]", "[a\nb]", "[[x]]", '[\\"]', "[\\x]",
             "[canonicalize,cse]", "[x\\\\]"]
PUNCT_POOL = ["{", "}", "=", ","]
JUNK_POOL = ["$", "+", ".", "(", ")", ";", "\\", '"', "[", "]", "\u00e9", "\U0001f600", "\ud800", "\x00", ":", "/",
             "*", "'", "<", "|", "~", "\x7f", "\udfff", "\U0010ffff"]


def rand_ident(rng):
    if rng.random() < 0.5:
        return rng.choice(IDENT_POOL)
    return "".join(rng.choice(IDCH) for _ in range(rng.randint(1, 6)))


def rand_number(rng):
    if rng.random() < 0.5:
        return rng.choice(NUMBER_POOL)
    s = rng.choice(["", "", "-", "+"]) + "".join(rng.choice(string.digits) for _ in range(rng.randint(1, 4)))
    if rng.random() < 0.5:
        s += "." + "".join(rng.choice(string.digits) for _ in range(rng.randint(0, 3)))
        if rng.random() < 0.4:
            s += rng.choice("eE") + rng.choice(["", "-", "+"]) + "".join(
                rng.choice(string.digits) for _ in range(rng.randint(0, 3)))
    return s


def rand_string_lit(rng):
    if rng.random() < 0.4:
        return rng.choice(STRING_POOL)
    body = []
    for _ in range(rng.randint(0, 6)):
        r = rng.random()
        if r < 0.55:
            body.append(rng.choice(string.ascii_letters + string.digits + " _-.,={}[]"))
        elif r < 0.8:
            body.append("\\" + rng.choice('nfvtr"\\' + "x0a"))
        elif r < 0.85:
            body.append("".join("\\%02x" % b for b in rng.choice(
                [[0xC3, 0xA9], [0xE2, 0x82, 0xAC], [0xF0, 0x9F, 0x98, 0x80], [rng.randint(0, 255)],
                 [rng.randint(0xC0, 0xF7), rng.randint(0x70, 0xC5)],
                 [rng.randint(0xE0, 0xEF), rng.randint(0x80, 0xBF), rng.randint(0x80, 0xBF)],
                 [rng.randint(0xF0, 0xF5), rng.randint(0x80, 0xBF), rng.randint(0x80, 0xBF), rng.randint(0x7E, 0xC1)]])))
        elif r < 0.9:
            body.append(rng.choice(["\u00e9", "\u4e2d", "\U0001f600", "\t", "\xa0"]))
        else:
            body.append(rng.choice(['"', "\n", "\r", "\\", "\ud800"]))
    return '"' + "".join(body) + '"'


def rand_piece(rng):
    r = rng.random()
    if r < 0.22:
        return rand_ident(rng)
    if r < 0.40:
        return rand_number(rng)
    if r < 0.55:
        return rand_string_lit(rng)
    if r < 0.62:
        return rng.choice(MLIR_POOL)
    if r < 0.82:
        return rng.choice(PUNCT_POOL)
    if r < 0.90:
        return rng.choice(SPACES)
    if r < 0.93:
        return rng.choice(NOT_SPACES)
    return rng.choice(JUNK_POOL)


def rand_soup(rng):
    return "".join(rand_piece(rng) for _ in range(rng.randint(0, 9)))


def rand_value_text(rng):
    r = rng.random()
    if r < 0.35:
        return rand_number(rng)
    if r < 0.6:
        return rand_ident(rng)
    if r < 0.7:
        return rng.choice(["true", "false"])
    return rand_string_lit(rng)


def rand_valid_pipeline(rng):
    elems = []
    for _ in range(rng.randint(1, 3)):
        if rng.random() < 0.1:
            elems.append("mlir-opt" + rng.choice(MLIR_POOL))
            continue
        s = rand_ident(rng)
        if rng.random() < 0.75:
            opts = []
            for _ in range(rng.randint(0, 4)):
                k = rand_ident(rng)
                if rng.random() < 0.75:
                    k += "=" + ",".join(rand_value_text(rng) for _ in range(rng.randint(1, 3)))
                opts.append(k)
            s += "{" + rng.choice([" ", " ", " ", "  ", "\t"]).join(opts) + "}"
        elems.append(s)
    return ",".join(elems)


def mutate(rng, s):
    s = list(s)
    for _ in range(rng.randint(1, 2)):
        r = rng.random()
        pos = rng.randint(0, len(s))
        if r < 0.35 and s:
            del s[min(pos, len(s) - 1)]
        elif r < 0.8:
            s.insert(pos, rand_piece(rng))
        elif s:
            s[min(pos, len(s) - 1)] = rand_piece(rng)
    return "".join(s)


def rand_text(rng):
    r = rng.random()
    if r < 0.35:
        return rand_soup(rng)
    if r < 0.6:
        return rand_valid_pipeline(rng)
    if r < 0.9:
        return mutate(rng, rand_valid_pipeline(rng))
    if r < 0.95:
        return "".join(chr(rng.randint(32, 126)) for _ in range(rng.randint(0, 12)))
    return "".join(chr(rng.choice([rng.randint(0, 0x2FF), rng.randint(0x2000, 0x206F), rng.randint(0xD7F0, 0xE010),
                                   rng.randint(0x10000, 0x10FFFF)])) for _ in range(rng.randint(1, 6)))


FIXED_TEXTS = ["", " ", ",", "a", "a,", "a,,b", "a b", "a{}", "a{b c=1,2 d}", "a{b=1 b=2 c b}", "p {a}", "p{a= 1}",
               "p{a=1  b}", "p{a=1,}", "p{a=,1}", "p{a=1", "p{a", "p{", "p{a=", "p{a=1 ", "p{a=1 }", "p{ a}",
               'mlir-opt[x{y}, "z"]', "foo[x]", "mlir-opt[x]{a}", "mlir-opt[x],b", "mlir-opt{a}[x]", "mlir-opt",
               "2d-slice", "12", "-5a", "--a", "1.5e3", "p{a=1.e5,1.5E-3,+2.,-0.0,007,+5,-0}", "p{a=1.5e}",
               'p{a="x"y"}', 'p{a="back\\slash"}', "p{a=1e+22}", "p{a=1e-05}", "p{a=inf}", 'p{a="\\r"}',
               'p{a="\\fa"}', 'p{a="\\f"}', 'p{a="\\n\\t\\\\\\""}', 'p{a="\ud800"}', "p\ud800", "p{a=true,false,True}",
               "p{a=" + "0" * 4299 + "7}", "p{a=" + "0" * 4300 + "7}",
               "p{a=-" + "0" * 4299 + "7}", "p{a=+" + "0" * 4300 + "7}", "p{a=1." + "1" * 5000 + "}",
               "p{a=" + "0" * 4300 + "7$", 'p{a="\\r"} $', "p{a=1}$", "$", "a$", 'p{a="\\fa",$}', "p{a=1 b=2}  ",
               "p{a-b=1 a_b=2}", "p{a=1}{b=2}", "p{a={}}", "p{a=[x]}", "p{[x]}", "mlir-opt[x][y]"]

NAME_POOL = ["p", "canonicalize", "convert-arith-to-riscv", "2d-slice", "mlir-opt", "x_1", "--a", "-", "9lives",
             "1-", "cse", "true"]
KEY_POOL = ["a", "b", "arg_1", "arg-1", "x", "flag", "true", "n2", "_", "k-"]
STR_VALUE_POOL = ["", "a", "true", "false", "1", "1.5", "has space", 'q"uote', "back\\slash", "new\nline", "tab\t",
                  "\u00e9\U0001f600", "x,y", "a=b", "{}", "}", "[x]", "cr\r", "ff\f", "vt\v", "\\n", '"', "\\",
                  "inf", "-", "--mlir-print-op-generic", "builtin.module(x)", "\x00", "\x7f", "\xa0", "'", "a\\\"b"]
FLOAT_POOL = [0.0, -0.0, 1.5, -2.25, 1e22, 1e-05, 1.5e300, float("inf"), float("-inf"), float("nan"), 5e-324,
              123456.789, 1e16, 1e15, 9999999999999998.0, 0.1, 1e-4, 1.5e22, 2.5e-07, -1e22, 1e100, 3.14, 100.0,
              1.7976931348623157e308, 2.0 ** 53, 0.5]
INT_POOL = [0, 1, -1, 2, 7, 42, -5, 10 ** 6, 2 ** 63, -2 ** 64, 10 ** 30, 9, 10, 99, 100, -10]


def rand_str_value(rng):
    if rng.random() < 0.55:
        return rng.choice(STR_VALUE_POOL)
    out = []
    for _ in range(rng.randint(0, 8)):
        r = rng.random()
        if r < 0.7:
            out.append(chr(rng.randint(32, 126)))
        elif r < 0.85:
            out.append(rng.choice("\u00e9\u4e2d\U0001f600\u2003\xa0\t"))
        else:
            out.append(rng.choice(BAD_STR_CHARS))
    return "".join(out)


def rand_float_value(rng):
    r = rng.random()
    if r < 0.5:
        return rng.choice(FLOAT_POOL)
    if r < 0.7:
        return round(rng.uniform(-1000, 1000), rng.randint(0, 6))
    if r < 0.85:
        return rng.uniform(-1, 1) * 10.0 ** rng.randint(-30, 30)
    x = unbits(rng.getrandbits(64))
    return x


def rand_int_value(rng):
    if rng.random() < 0.6:
        return rng.choice(INT_POOL)
    return rng.randint(-10 ** rng.randint(1, 25), 10 ** rng.randint(1, 25))


def rand_scalar(rng):
    r = rng.random()
    if r < 0.2:
        return rng.random() < 0.5
    if r < 0.45:
        return rand_int_value(rng)
    if r < 0.7:
        return rand_float_value(rng)
    return rand_str_value(rng)


# ------------------------------------------------------------------------------------ family: char classes
def class_mask(c):
    from xdsl.utils.arg_spec import _lexer_rules
    R = [p for p, _ in _lexer_rules]
    ch = chr(c)
    m = 0
    if R[1].fullmatch(ch):
        m |= 1            # [0-9]
    if R[0].fullmatch("0" + ch):
        m |= 2            # [A-Za-z_-]
    if R[2].fullmatch(ch):
        m |= 4            # [A-Za-z0-9_-]
    if R[8].fullmatch(ch):
        m |= 8            # \s
    if R[3].fullmatch('"' + ch + '"'):
        m |= 16           # [^\n\f\v\r"\\]
    if R[4].fullmatch("[" + ch + "]"):
        m |= 32           # [^\n\f\v\r\]\\]
    if R[3].fullmatch('"\\' + ch + '"'):
        m |= 64           # [nfvtr"\\]
    from xdsl.utils import mlir_lexer
    if ch in mlir_lexer.hexdigits:
        m |= 128
    try:
        ch.encode()
    except UnicodeEncodeError:
        m |= 256
    return m


def class_blocks(thorough):
    blocks = [(lo, 0x10000) for lo in range(0, 0x110000, 0x10000)] if thorough else \
        [(0, 0x3100), (0xD700, 0xA00), (0xFE00, 0x200), (0x10FF00, 0x100)]
    return [{"lo": lo, "n": n} for lo, n in blocks]


def class_block_impl(case):
    """run-length encoded class masks of the code points lo .. lo+n-1, from the real regexes"""
    import itertools
    return [[m, len(list(g))] for m, g in itertools.groupby(class_mask(c) for c in range(case["lo"], case["lo"] + case["n"]))]


# ------------------------------------------------------------------------------------ family: rules / lexer
def rules_impl(case):
    from xdsl.utils.arg_spec import _lexer_rules
    s = case["s"]
    return [(m.end() if (m := p.match(s)) is not None else -1) for p, _ in _lexer_rules]


def lexer_impl(case):
    from xdsl.utils.arg_spec import PipelineLexer, SpecTokenKind
    from xdsl.utils.exceptions import ArgSpecParseError
    out = []
    try:
        for t in PipelineLexer._generator(case["s"]):
            if t.kind is SpecTokenKind.EOF:
                out.append([100])
            else:
                out.append([KIND[t.kind.name], cps(t.span.text)])
    except ArgSpecParseError:
        out.append([101])
    return out


def lexer_holds(case, res):
    body = [t for t in res if len(t) == 2]
    if res and res[-1] == [100]:
        if uncps([c for t in body for c in t[1]]) != case["s"]:
            return False, "token texts do not concatenate to the input"
        if any(not t[1] for t in body):
            return False, "empty token"
    if [t for t in res[:-1] if len(t) == 1]:
        return False, "EOF/error marker before the end of the stream"
    return True, ""


# ------------------------------------------------------------------------------------ family: parse
def parse_impl(case):
    from xdsl.utils.arg_spec import parse_pipeline
    try:
        specs = tuple(parse_pipeline(case["s"]))
    except BaseException as e:  # ArgSpecParseError derives from BaseException
        if isinstance(e, (KeyboardInterrupt, SystemExit, MemoryError)):
            raise
        return [-1, exc_kind(e)]
    return [0, [enc_spec(sp) for sp in specs]]


def parse_holds(case, res):
    if res[0] == 0 or res[1] in (E_ARGSPEC, E_VALUE):
        return True, ""
    return False, (f"parse_pipeline({case['s'][:80]!r}) raised {ERRNAME.get(res[1], res[1])}, which is neither the "
                   f"pipeline parse error (ArgSpecParseError) nor an option error (ValueError)")


def parse_nontrivial(case, res):
    if res[0] == 0 and any(sp[1] and any(p[1] for p in sp[1]) for sp in res[1]):
        return case["s"]
    if res[0] == -1 and res[1] != E_ARGSPEC:
        return case["s"]
    return None


# ------------------------------------------------------------------------------------ family: print-parse
def mk_specs(case):
    from xdsl.utils.arg_spec import ArgSpec
    return [ArgSpec(n, {k: tuple(jdec(v) for v in vs) for k, vs in ps}) for n, ps in case["specs"]]


def non_finite(v):
    return isinstance(v, float) and (v != v or abs(v) == float("inf"))


def value_back_equal(orig, back):
    """a non-finite float has no literal syntax: as an untyped ArgSpec value it reads back as its text
    (from_spec converts it for float-typed options); everything else must compare equal"""
    if len(orig) != len(back):
        return False
    return all((isinstance(y, str) and y == str(x)) if non_finite(x) else py_equal(x, y) for x, y in zip(orig, back))


def spec_equal(a, b):
    return (a.name == b.name and a.parameters.keys() == b.parameters.keys()
            and all(value_back_equal(a.parameters[k], b.parameters[k]) for k in a.parameters))


def pp_impl(case):
    from xdsl.utils.arg_spec import parse_pipeline
    specs = mk_specs(case)
    text = ",".join(str(sp) for sp in specs)
    try:
        back = tuple(parse_pipeline(text))
    except BaseException as e:
        if isinstance(e, (KeyboardInterrupt, SystemExit, MemoryError)):
            raise
        return [cps(text), [-1, exc_kind(e)]]
    return [cps(text), [0, [enc_spec(sp) for sp in back]]]


def pp_holds(case, res):
    from xdsl.utils.arg_spec import parse_pipeline
    specs = mk_specs(case)
    text = uncps(res[0])
    if res[1][0] != 0:
        return False, f"printed pipeline {text[:100]!r} does not parse back: {ERRNAME.get(res[1][1])}"
    back = tuple(parse_pipeline(text))
    if len(back) != len(specs) or not all(spec_equal(a, b) for a, b in zip(specs, back)):
        return False, f"printed pipeline {text[:100]!r} parses back to {back!r:.200}, not the original"
    return True, ""


def value_classes(values):
    """values that did not round-trip before the fixes (used only to generate `plain` cases)"""
    return [v for v in values if (isinstance(v, str) and any(c in v for c in BAD_STR_CHARS))
            or (isinstance(v, float) and "." not in str(v))]


def pp_nontrivial(case, res):
    if any(vs for _, ps in case["specs"] for _, vs in ps):
        return repr(case["specs"])
    return None


def pp_coq(case):
    specs = mk_specs(case)
    text = ",".join(str(sp) for sp in specs)
    fs = set()
    for sp in specs:
        for vs in sp.parameters.values():
            floats_in(vs, fs)
    lit = coq_list(
        "({}, {})".format(coq_str(sp.name), coq_list(
            "({}, {})".format(coq_str(k), coq_list(coq_value(v) for v in vs)) for k, vs in sp.parameters.items()))
        for sp in specs)
    return f"c18_print_parse {coq_ptab(text)} {coq_stab(fs)} {lit}"


def rand_specs_case(rng):
    specs = []
    for _ in range(rng.choice([0, 1, 1, 1, 2, 3])):
        name = rng.choice(NAME_POOL) if rng.random() < 0.7 else rand_pass_name(rng)
        keys = []
        for _ in range(rng.choice([0, 1, 1, 2, 3])):
            k = rng.choice(KEY_POOL)
            if k not in keys:
                keys.append(k)
        ps = [[k, [jenc(rand_scalar(rng)) for _ in range(rng.choice([0, 1, 1, 2, 3]))]] for k in keys]
        specs.append([name, ps])
    return {"specs": specs}


def rand_pass_name(rng):
    while True:
        n = "".join(rng.choice(IDCH) for _ in range(rng.randint(1, 8)))
        if name_ok(n):
            return n


def name_ok(n):
    """the model's name_okb: the text lexes as one IDENT token"""
    if not n or any(c not in IDCH for c in n):
        return False
    if n[0].isdigit():
        return not n.isdigit()
    if n[0] == "-" and len(n) > 1 and n[1].isdigit():
        return False
    return True


# ------------------------------------------------------------------------------------ family: passes
_SYN = None


def synthetic_classes():
    global _SYN
    if _SYN is not None:
        return _SYN
    from xdsl.passes import ModulePass

    class Base(ModulePass):
        def apply(self, ctx, op):
            pass

    @dataclass(frozen=True)
    class SynFloat(Base):
        name = "syn-float"
        x: float
        y: float = 0.5
        z: float | None = None
        w: float = 0.0

    @dataclass(frozen=True)
    class SynTuples(Base):
        name = "syn-tuples"
        a: tuple[float, ...]
        b: tuple[int | float, ...] = ()
        c: tuple[int, ...] | tuple[float, ...] = (1,)
        d: tuple[str, ...] = ("a",)
        e: tuple[bool, ...] = ()

    @dataclass(frozen=True)
    class SynUnion(Base):
        name = "syn-union"
        a: int | float = 1
        b: int | str | None = None
        c: bool | None = None
        d: tuple[int, str] = (1, "x")
        e: float | str = 1.0
        f: int | None = 5

    @dataclass(frozen=True)
    class SynReq(Base):
        name = "2d-syn-req"
        s: str
        n: int
        flag: bool
        opt: str = "dflt"
        o2: str | None = None

    @dataclass(frozen=True)
    class SynLit(Base):
        name = "syn-lit"
        mode: Literal["a", "b"] = "a"
        m2: Literal["x", "y"] | tuple[str, ...] = "x"
        r: tuple[int, ...] | None = None
        q: Literal["u", "v"] | None = None
        l: tuple[int, ...] = field(default_factory=lambda: (1, 2))

    @dataclass(frozen=True)
    class SynNoOpt(Base):
        name = "syn-noopt"

    _SYN = {c.name: c for c in [SynFloat, SynTuples, SynUnion, SynReq, SynLit, SynNoOpt]}
    return _SYN


def all_classes():
    from xdsl.transforms import get_all_passes
    out = {"registered:" + n: f() for n, f in sorted(get_all_passes().items())}
    out.update({"synthetic:" + n: c for n, c in synthetic_classes().items()})
    return out


_CLASSES = None


def get_class(cid):
    global _CLASSES
    if _CLASSES is None:
        _CLASSES = all_classes()
    return _CLASSES[cid]


def init_fields(cls):
    return [f for f in dataclasses.fields(cls) if f.name != "name" and f.init]


def coq_ty(t):
    if t is int:
        return "TyInt"
    if t is float:
        return "TyFloat"
    if t is bool:
        return "TyBool"
    if t is str:
        return "TyStr"
    if t is NoneType or t is None:
        return "TyNone"
    o = get_origin(t)
    if o is Literal:
        if not all(isinstance(a, str) for a in get_args(t)):
            raise Untranslatable(f"Literal of non-strings: {t}")
        return f"(TyLit {coq_list(coq_str(a) for a in get_args(t))})"
    if o is tuple:
        a = get_args(t)
        if len(a) == 2 and a[1] is ...:
            return f"(TyTupleVar {coq_ty(a[0])})"
        return f"(TyTupleFix {coq_list(coq_ty(x) for x in a)})"
    if o in (Union, UnionType):
        return f"(TyUnion {coq_list(coq_ty(x) for x in get_args(t))})"
    raise Untranslatable(f"unsupported option type {t!r}")


def field_default(f):
    if f.default is not dataclasses.MISSING:
        return True, f.default
    if f.default_factory is not dataclasses.MISSING:
        return True, f.default_factory()
    return False, None


def coq_class(cls):
    from xdsl.utils.arg_spec import _is_optional
    hints = get_type_hints(cls)
    fs = []
    for f in init_fields(cls):
        t = hints[f.name]
        has, d = field_default(f)
        union_none = get_origin(t) in (Union, UnionType) and NoneType in get_args(t)
        if _is_optional(f) != (union_none or has):
            raise Untranslatable(f"{cls.name}.{f.name}: _is_optional disagrees with the resolved type "
                                 f"(string annotation?)")
        fs.append(f"mkF {coq_str(f.name)} {coq_ty(t)} {'(Some (' + coq_pval(d) + '))' if has else 'None'}")
    return f"(mkC {coq_str(cls.name)} {coq_list(fs)})"


def gen_of_type(rng, t):
    if t is bool:
        return rng.random() < 0.5
    if t is int:
        return rand_int_value(rng)
    if t is float:
        return rand_float_value(rng)
    if t is str:
        return rand_str_value(rng)
    if t is NoneType or t is None:
        return None
    o = get_origin(t)
    if o is Literal:
        return rng.choice(get_args(t))
    if o is tuple:
        a = get_args(t)
        if len(a) == 2 and a[1] is ...:
            n = rng.choice([0, 1, 1, 2, 3, 4])
            return tuple(gen_scalar_of_type(rng, a[0]) for _ in range(n))
        return tuple(gen_scalar_of_type(rng, x) for x in a)
    if o in (Union, UnionType):
        return gen_of_type(rng, rng.choice(get_args(t)))
    raise Untranslatable(f"unsupported option type {t!r}")


def gen_scalar_of_type(rng, t):
    v = gen_of_type(rng, t)
    if v is None or isinstance(v, tuple):
        raise Untranslatable(f"nested tuple / None element type {t!r}")
    return v


def rand_pass_case(rng, cid, plain=False):
    cls = get_class(cid)
    hints = get_type_hints(cls)
    vals = {}
    for f in init_fields(cls):
        has, d = field_default(f)
        r = rng.random()
        if has and r < 0.25:
            continue                                   # leave the default
        if plain:
            # a value every maintainer would expect to work: no exotic characters / floats
            t = hints[f.name]
            for _ in range(50):
                v = gen_of_type(rng, t)
                flat = v if isinstance(v, tuple) else (v,)
                if not value_classes(flat) and not union_collapse(t, v):
                    break
            vals[f.name] = jenc(v)
        else:
            vals[f.name] = jenc(gen_of_type(rng, hints[f.name]))
    return {"cls": cid, "vals": vals}


def boundary_pass_cases(rng, cids):
    """values that the text form cannot tell from another value of the field type"""
    out = []
    for cid in cids:
        cls = get_class(cid)
        hints = get_type_hints(cls)
        for f in init_fields(cls):
            t = hints[f.name]
            if get_origin(t) not in (Union, UnionType):
                continue
            for a in get_args(t):
                if get_origin(a) is tuple:
                    base = rand_pass_case(rng, cid, plain=True)
                    base["vals"][f.name] = jenc(())
                    out.append(base)
                if a is float and str in get_args(t):
                    base = rand_pass_case(rng, cid, plain=True)
                    base["vals"][f.name] = jenc(rng.choice([float("inf"), float("-inf"), float("nan")]))
                    out.append(base)
                if get_origin(a) is Literal and any(get_origin(b) is tuple for b in get_args(t)):
                    base = rand_pass_case(rng, cid, plain=True)
                    base["vals"][f.name] = jenc((get_args(a)[0],))
                    out.append(base)
    return out


def build_pass(case):
    cls = get_class(case["cls"])
    return cls, cls(**{k: jdec(v) for k, v in case["vals"].items()})


def pass_impl(case):
    from xdsl.passes import PassPipeline
    cls, p = build_pass(case)
    sp = p.pipeline_pass_spec()
    text = str(sp)
    try:
        passes = PassPipeline.parse_spec({cls.name: lambda: cls}, text).passes
    except BaseException as e:
        if isinstance(e, (KeyboardInterrupt, SystemExit, MemoryError)):
            raise
        return [enc_spec(sp), cps(text), [-1, exc_kind(e)]]
    return [enc_spec(sp), cps(text),
            [0, [[cps(q.name), [enc_pval(getattr(q, f.name)) for f in init_fields(type(q))]] for q in passes]]]


def pass_holds(case, res):
    from xdsl.passes import PassPipeline
    cls, p = build_pass(case)
    text = uncps(res[1])
    if res[2][0] != 0:
        return False, f"{text[:120]!r} (printed from {p!r:.120}) does not parse back: {ERRNAME.get(res[2][1])}"
    back = PassPipeline.parse_spec({cls.name: lambda: cls}, text).passes
    if len(back) != 1 or type(back[0]) is not cls:
        return False, f"{text[:120]!r} parses to {back!r:.200}"
    for f in dataclasses.fields(cls):
        if f.compare and not py_equal(getattr(p, f.name), getattr(back[0], f.name)):
            return False, (f"{text[:120]!r}: option {f.name} was {getattr(p, f.name)!r:.80}, comes back as "
                           f"{getattr(back[0], f.name)!r:.80}")
    return True, ""


def union_collapse(t, v):
    """the value is a tuple that the text form cannot tell from None / from its single element"""
    from xdsl.utils.hints import isa
    if not isinstance(v, tuple):
        return False
    if get_origin(t) in (Union, UnionType) and len(v) == 0:
        return True
    return len(v) == 1 and isa(v[0], t)


def str_also_accepted(t, v):
    """v holds a non-finite float and the field type also accepts the value with that float replaced
    by its text inf/-inf/nan (e.g. float | str): the text form cannot tell the two apart"""
    from xdsl.utils.hints import isa
    flat = v if isinstance(v, tuple) else (v,)
    if not any(non_finite(x) for x in flat):
        return False
    strd = tuple(str(x) if non_finite(x) else x for x in flat)
    return (len(strd) == 1 and isa(strd[0], t)) or isa(strd, t)


def pass_known(case, res):
    cls, p = build_pass(case)
    sp = p.pipeline_pass_spec()
    hints = get_type_hints(cls)
    for k in sp.parameters:
        if union_collapse(hints[k], getattr(p, k)):
            return "C18-kf-4"
    for k in sp.parameters:
        if str_also_accepted(hints[k], getattr(p, k)):
            return "C18-kf-6"
    return None


def pass_nontrivial(case, res):
    if res[0][1]:
        return (case["cls"], repr(sorted(case["vals"].items(), key=lambda kv: kv[0])))
    return None


def pass_coq(case):
    cls, p = build_pass(case)
    fs = set()
    for f in init_fields(cls):
        floats_in(getattr(p, f.name), fs)
        has, d = field_default(f)
        if has:
            floats_in(d, fs)
    text = str(p.pipeline_pass_spec())
    vals = coq_list(coq_pval(getattr(p, f.name)) for f in init_fields(cls))
    return f"c18_pass_rt {coq_ptab(text)} {coq_stab(fs)} {coq_class(cls)} {vals}"


# ------------------------------------------------------------------------------------ family: pipelines
def rand_pipeline_case(rng, cids, with_opts):
    """2-4 passes; one class with options occurs 2-3 times with different (sometimes identical) option
    values, interleaved with other passes"""
    rep_cls = rng.choice(with_opts)
    n_rep = rng.choice([2, 2, 3])
    first = rand_pass_case(rng, rep_cls, plain=True)
    items = [first]
    for _ in range(n_rep - 1):
        r = rng.random()
        if r < 0.25:
            items.append({"cls": rep_cls, "vals": dict(first["vals"])})          # identical repeat
        elif r < 0.6 and first["vals"]:
            # same option names, different values
            other = rand_pass_case(rng, rep_cls, plain=True)
            hints = get_type_hints(get_class(rep_cls))
            vals = {}
            for k in first["vals"]:
                v = other["vals"].get(k)
                for _ in range(20):
                    if v is not None and v != first["vals"][k]:
                        break
                    v = jenc(gen_plain(rng, hints[k]))
                vals[k] = v
            items.append({"cls": rep_cls, "vals": vals})
        else:
            items.append(rand_pass_case(rng, rep_cls, plain=True))
    for _ in range(rng.choice([0, 1, 1, 2])):
        c = rng.choice(cids)
        if get_class(c).name != get_class(rep_cls).name:
            items.insert(rng.randint(0, len(items)), rand_pass_case(rng, c, plain=True))
    if rng.random() < 0.3:
        rng.shuffle(items)
    return {"passes": items[:4] if len(items) > 4 and rng.random() < 0.5 else items}


def gen_plain(rng, t):
    for _ in range(50):
        v = gen_of_type(rng, t)
        flat = v if isinstance(v, tuple) else (v,)
        if not value_classes(flat) and not union_collapse(t, v):
            break
    return v


def pl_build(case):
    return [build_pass(c) for c in case["passes"]]


def pl_registry(case):
    reg = []
    for c in case["passes"]:
        if c["cls"] not in reg:
            reg.append(c["cls"])
    return reg


def pl_text(built):
    return ",".join(str(p.pipeline_pass_spec()) for _, p in built)


def pl_impl(case):
    from xdsl.passes import PassPipeline
    built = pl_build(case)
    text = pl_text(built)
    reg = {get_class(c).name: (lambda c=c: get_class(c)) for c in pl_registry(case)}
    try:
        passes = PassPipeline.parse_spec(reg, text).passes
    except BaseException as e:
        if isinstance(e, (KeyboardInterrupt, SystemExit, MemoryError)):
            raise
        return [cps(text), [-1, exc_kind(e)]]
    return [cps(text),
            [0, [[cps(q.name), [enc_pval(getattr(q, f.name)) for f in init_fields(type(q))]] for q in passes]]]


def pl_holds(case, res):
    from xdsl.passes import PassPipeline
    built = pl_build(case)
    text = uncps(res[0])
    if res[1][0] != 0:
        return False, f"{text[:160]!r} does not parse back: {ERRNAME.get(res[1][1])}"
    reg = {get_class(c).name: (lambda c=c: get_class(c)) for c in pl_registry(case)}
    back = PassPipeline.parse_spec(reg, text).passes
    if len(back) != len(built):
        return False, f"{text[:160]!r} parses to {len(back)} passes, printed from {len(built)}"
    for i, ((cls, p), q) in enumerate(zip(built, back)):
        if type(q) is not cls:
            return False, f"{text[:160]!r}: pass #{i} is a {type(q).__name__}, was a {cls.__name__}"
        for f in dataclasses.fields(cls):
            if f.compare and not py_equal(getattr(p, f.name), getattr(q, f.name)):
                return False, (f"{text[:160]!r}: pass #{i} ({cls.name}) option {f.name} was "
                               f"{getattr(p, f.name)!r:.60}, comes back as {getattr(q, f.name)!r:.60}")
    return True, ""


def pl_known(case, res):
    for c in case["passes"]:
        k = pass_known(c, None)
        if k:
            return k
    return None


def pl_nontrivial(case, res):
    names = [c["cls"] for c in case["passes"]]
    rep = [c for c in case["passes"] if names.count(c["cls"]) > 1]
    if len(rep) > 1 and any(c["vals"] != rep[0]["vals"] for c in rep[1:]):
        return repr(case["passes"])
    return None


def pl_coq(case):
    built = pl_build(case)
    text = pl_text(built)
    reg = pl_registry(case)
    fs = set()
    for cls, p in built:
        for f in init_fields(cls):
            floats_in(getattr(p, f.name), fs)
            has, d = field_default(f)
            if has:
                floats_in(d, fs)
    items = coq_list("({}%nat, {})".format(reg.index(c["cls"]),
                                           coq_list(coq_pval(getattr(p, f.name)) for f in init_fields(cls)))
                     for c, (cls, p) in zip(case["passes"], built))
    return (f"c18_pipeline_rt {coq_ptab(text)} {coq_stab(fs)} "
            f"{coq_list(coq_class(get_class(c)) for c in reg)} {items}")


# ------------------------------------------------------------------------------------ family: from-text
def rand_option_text(rng, cls):
    """a mostly plausible option text for `cls`: right/wrong keys, values of right/wrong type, omissions"""
    hints = get_type_hints(cls)
    opts = []
    for f in init_fields(cls):
        r = rng.random()
        if r < 0.3:
            continue
        key = f.name if rng.random() < 0.5 else f.name.replace("_", "-")
        if r < 0.4:
            opts.append(key)
            continue
        if rng.random() < 0.7:
            try:
                v = gen_of_type(rng, hints[f.name])
            except Untranslatable:
                v = 1
            flat = v if isinstance(v, tuple) else (() if v is None else (v,))
            txt = ",".join(value_text(rng, x) for x in flat)
        else:
            txt = ",".join(rand_value_text(rng) for _ in range(rng.randint(1, 3)))
        opts.append(key + ("=" + txt if txt else ""))
    if rng.random() < 0.15:
        opts.append(rng.choice(KEY_POOL) + rng.choice(["", "=1", "=x"]))
    if rng.random() < 0.1 and opts:
        opts.append(rng.choice(opts))
    rng.shuffle(opts)
    name = cls.name if rng.random() < 0.93 else rng.choice(["nope", "cse"])
    s = name + ("{" + " ".join(opts) + "}" if opts or rng.random() < 0.3 else "")
    return s


def value_text(rng, v):
    from xdsl.utils.arg_spec import ArgSpec
    if isinstance(v, str) and rng.random() < 0.3 and v and all(c in IDCH for c in v):
        return v
    if isinstance(v, float) and rng.random() < 0.3:
        return repr(v).replace("e+", "e").replace("inf", "1.0e999")
    return ArgSpec._spec_parameter_type_str(v)


def ft_registry(case):
    return [get_class(c) for c in case["reg"]]


def ft_impl(case):
    from xdsl.passes import PassPipeline
    reg = ft_registry(case)
    try:
        passes = PassPipeline.parse_spec({c.name: (lambda c=c: c) for c in reg}, case["s"]).passes
    except BaseException as e:
        if isinstance(e, (KeyboardInterrupt, SystemExit, MemoryError)):
            raise
        return [-1, exc_kind(e)]
    return [0, [[cps(q.name), [enc_pval(getattr(q, f.name)) for f in init_fields(type(q))]] for q in passes]]


def ft_holds(case, res):
    if res[0] == 0 or res[1] in (E_ARGSPEC, E_VALUE):
        return True, ""
    return False, (f"PassPipeline.parse_spec({case['s'][:80]!r}) raised {ERRNAME.get(res[1], res[1])}: neither a "
                   f"pipeline parse error nor an option error")


def ft_coq(case):
    reg = ft_registry(case)
    return f"c18_from_text {coq_ptab(case['s'])} {coq_list(coq_class(c) for c in reg)} {coq_str(case['s'])}"


def ft_nontrivial(case, res):
    if res[0] == 0 and any(q[1] for q in res[1]):
        return case["s"]
    if res[0] == -1 and res[1] == E_VALUE:
        return case["s"]
    return None


# ------------------------------------------------------------------------------------ driver
FAMILIES = {
    "rules+lexer": (lambda c: [rules_impl(c), lexer_impl(c)],
                    lambda c: f"L [c18_rules {coq_str(c['s'])}; c18_lex {coq_str(c['s'])}]",
                    lambda c, r: lexer_holds(c, r[1])),
    "parse": (parse_impl, lambda c: f"c18_parse {coq_ptab(c['s'])} {coq_str(c['s'])}", parse_holds),
    "print-parse": (pp_impl, pp_coq, pp_holds),
    "passes": (pass_impl, pass_coq, pass_holds),
    "pipelines": (pl_impl, pl_coq, pl_holds),
    "from-text": (ft_impl, ft_coq, ft_holds),
}


def replay_case(ctx, witness):
    """./check C18 --replay file: rerun the recorded case on implementation and model, print the verdict"""
    fam, case = witness.get("family"), witness.get("case")
    if fam not in FAMILIES or case is None:
        print("witness is not a single case of a C18 family; nothing to re-run")
        return 0
    impl, coq, holds = FAMILIES[fam]
    r = impl(case)
    ok, why = holds(case, r)
    print("implementation:", r)
    print("oracle:", "holds" if ok else "FAILS: " + why)
    try:
        print("model:         ", ctx.coq_eval(REQ, [coq(case)], prelude=PRELUDE)[0])
    except Exception as e:  # noqa: BLE001
        print("model unavailable:", e)
    return 0 if ok else 1


EXPECTED_RULES = [
    (r"[0-9]+[A-Za-z_-]+[A-Za-z0-9_-]*", "IDENT"), (r"[-+]?[0-9]+(\.[0-9]*([eE][-+]?[0-9]+)?)?", "NUMBER"),
    (r"[A-Za-z0-9_-]+", "IDENT"), (r'"(\\[nfvtr"\\]|\\[0-9a-fA-F]{2}|[^\n\f\v\r"\\])*"', "STRING_LIT"),
    (r'\[(\\[nfvtr"\\]|[^\n\f\v\r\]\\])*\]', "MLIR_PIPELINE"), (r"\{", "L_BRACE"), (r"}", "R_BRACE"),
    (r"=", "EQUALS"), (r"\s+", "SPACE"), (r",", "COMMA")]


def check_trusted_facts(ctx):
    from xdsl.utils.arg_spec import _lexer_rules
    actual = [(p.pattern, k.name) for p, k in _lexer_rules]
    ctx.coverage["lexer_rules_as_modelled"] = actual == EXPECTED_RULES
    if actual != EXPECTED_RULES:
        # not a verdict by itself (an equivalent rewrite is fine): the char-classes / rules+lexer families decide
        ctx.coverage["lexer_rules_now"] = [list(x) for x in actual]
    facts = {"str(1e22)": (str(1e22), "1e+22"), "str(1e-05)": (str(1e-05), "1e-05"),
             "str(inf)": (str(float("inf")), "inf"), "str(nan)": (str(float("nan")), "nan"),
             "str(1.5e22)": (str(1.5e22), "1.5e+22"), "str(100.0)": (str(100.0), "100.0")}
    import sys
    facts["int_max_str_digits"] = (sys.get_int_max_str_digits(), 4300)
    bad = {k: v for k, v in facts.items() if v[0] != v[1]}
    if bad:
        ctx.broken.append({"trusted_fact_changed": {k: list(v) for k, v in bad.items()}})
    # float(str(x)) == x on the boundary pool and random bit patterns (named oracle hypothesis)
    n = 0
    for x in FLOAT_POOL + [unbits(ctx.rng.getrandbits(64)) for _ in range(2000)]:
        if x == x and abs(x) != float("inf"):
            n += 1
            t = str(x)
            t = t.replace("e", ".0e") if "." not in t else t          # the text the printer writes
            if fbits(float(t)) != fbits(x) or "." not in t:
                ctx.broken.append({"oracle_hypothesis_failed": f"float(printed text) != x for bits {fbits(x)}"})
                break
    ctx.coverage["oracle_float_roundtrip_checked"] = n


def run(ctx: Ctx):
    thorough = ctx.tier == "thorough"
    rng = ctx.rng
    k = 8 if thorough else 1
    check_trusted_facts(ctx)

    replay_findings(ctx, "print-parse", pp_impl, pp_holds)
    replay_findings(ctx, "passes", pass_impl, pass_holds)
    replay_findings(ctx, "parse", parse_impl, parse_holds)
    replay_findings(ctx, "pipelines", pl_impl, pl_holds)

    # (1) character classes, every code point (thorough) / the blocks containing every class member (quick)
    blocks = class_blocks(thorough)
    differential(ctx, DiffSpec("char-classes", REQ, blocks, class_block_impl,
                               lambda c: f"c18_class_rle {coq_Z(c['lo'])} {coq_Z(c['n'])}", None, None,
                               lambda c, r: c["lo"] if len(r) > 1 else None, shard=4, exhaustive=thorough))
    ctx.coverage["code_points_swept"] = sum(b["n"] for b in blocks)

    # (2) each regex at position 0 and (3) the token stream, on the same texts
    texts = [{"s": s} for s in FIXED_TEXTS if len(s) < 200]
    texts += [{"s": p} for pool in (IDENT_POOL, NUMBER_POOL, STRING_POOL, MLIR_POOL, SPACES, NOT_SPACES, JUNK_POOL)
              for p in pool]
    texts += [{"s": rand_piece(rng) + rand_piece(rng)} for _ in range(60 * k)]
    texts += [{"s": rand_text(rng)} for _ in range(120 * k)]
    differential(ctx, DiffSpec("rules+lexer", REQ, texts, lambda c: [rules_impl(c), lexer_impl(c)],
                               lambda c: f"L [c18_rules {coq_str(c['s'])}; c18_lex {coq_str(c['s'])}]",
                               lambda c, r: lexer_holds(c, r[1]), None,
                               lambda c, r: c["s"] if len(r[1]) > 2 else None, shard=SHARD))

    # (4) parse_pipeline on arbitrary strings
    pcases = [{"s": s} for s in FIXED_TEXTS] + [{"s": rand_text(rng)} for _ in range(500 * k)]
    differential(ctx, DiffSpec("parse", REQ, pcases, parse_impl,
                               lambda c: f"c18_parse {coq_ptab(c['s'])} {coq_str(c['s'])}",
                               parse_holds, None, parse_nontrivial, shard=SHARD))

    # (5) ArgSpec pipelines printed and parsed back
    scases = [rand_specs_case(rng) for _ in range(200 * k)]
    differential(ctx, DiffSpec("print-parse", REQ, scases, pp_impl, pp_coq, pp_holds, None, pp_nontrivial,
                               prelude=PRELUDE, shard=SHARD))

    # (6) every registered pass class + synthetic classes, generated option values of each declared type
    global _CLASSES
    _CLASSES = all_classes()
    cids = list(_CLASSES)
    try:
        for cid in cids:
            coq_class(_CLASSES[cid])
    except Untranslatable as e:
        ctx.broken.append({"translator": str(e)})
        return
    with_opts = [c for c in cids if init_fields(_CLASSES[c])]
    ctx.coverage["pass_classes"] = {"registered": sum(c.startswith("registered:") for c in cids),
                                    "with_options": sum(c.startswith("registered:") for c in with_opts),
                                    "synthetic": sum(c.startswith("synthetic:") for c in cids)}
    cases = [{"cls": c, "vals": {}} for c in cids if not _CLASSES[c].required_fields()]
    cases += boundary_pass_cases(rng, with_opts)
    for c in with_opts:
        reps = (1 if c.startswith("registered:") else 12) * k
        cases += [rand_pass_case(rng, c, plain=(i % 2 == 0)) for i in range(reps)]
    differential(ctx, DiffSpec("passes", REQ, cases, pass_impl, pass_coq, pass_holds, pass_known, pass_nontrivial,
                               prelude=PRELUDE, shard=SHARD))

    # (6b) pipelines of 2-4 passes in which one class occurs 2-3 times with different / identical option values
    plcases = [rand_pipeline_case(rng, cids, with_opts) for _ in range(90 * k)]
    differential(ctx, DiffSpec("pipelines", REQ, plcases, pl_impl, pl_coq, pl_holds, pl_known, pl_nontrivial,
                               prelude=PRELUDE, shard=30))

    # (7) option texts (right and wrong) against the classes: pass / ValueError / ArgSpecParseError
    fcases = []
    for _ in range(150 * k):
        c = rng.choice(with_opts)
        reg = [c] + ([rng.choice(cids)] if rng.random() < 0.3 else [])
        parts = [rand_option_text(rng, _CLASSES[r]) for r in reg]
        s = ",".join(parts)
        if rng.random() < 0.1:
            s = mutate(rng, s)
        fcases.append({"reg": reg, "s": s})
    differential(ctx, DiffSpec("from-text", REQ, fcases, ft_impl, ft_coq, ft_holds, None, ft_nontrivial,
                               prelude=PRELUDE, shard=SHARD))

    ctx.coverage["rule"] = __doc__.split("\n\n", 1)[1][:2400]
    ctx.coverage["exhaustive"] = thorough
    ctx.coverage["explanation"] = ("char-classes is exhaustive over all 0x110000 code points in the thorough tier; "
                                   "the other families are seeded random + fixed boundary texts")
