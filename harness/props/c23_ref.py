"""C23 reference evaluator: LLVM semantics of the SOURCE function (the case description), written independently
of xDSL, of the backend and of the Coq model.  Integers are unsigned bit patterns; floats are IEEE bit patterns.
`Excluded` = the source is poison / undefined on this input (flag violated, shift >= width, division by zero or
MIN/-1, load of an uninitialised cell, use of an undefined value) or does not finish within the step budget."""
from __future__ import annotations

import math
import struct

F32, F64 = -32, -64


class Excluded(Exception):
    pass


def s(u, w):
    return u - (1 << w) if u >> (w - 1) else u


def f_of(ty, bits):
    if ty == F32:
        return struct.unpack("<f", struct.pack("<I", bits & 0xFFFFFFFF))[0]
    return struct.unpack("<d", struct.pack("<Q", bits & (2**64 - 1)))[0]


def bits_of(ty, v):
    if ty == F32:
        try:
            return struct.unpack("<I", struct.pack("<f", v))[0]
        except OverflowError:
            return 0x7F800000 if v > 0 else 0xFF800000
    return struct.unpack("<Q", struct.pack("<d", v))[0]


def is_nan(ty, bits):
    v = f_of(ty, bits)
    return v != v


def fbin(cls, ty, a, b, fm):
    x, y = f_of(ty, a), f_of(ty, b)
    if "nnan" in fm and (x != x or y != y):
        raise Excluded("nnan")
    if "ninf" in fm and (math.isinf(x) or math.isinf(y)):
        raise Excluded("ninf")
    if set(fm) - {"nnan", "ninf"}:
        raise Excluded("value-changing fast-math flag: result not unique")
    try:
        if cls == "FAddOp":
            r = x + y
        elif cls == "FSubOp":
            r = x - y
        elif cls == "FMulOp":
            r = x * y
        elif cls == "FDivOp":
            if y == 0.0:
                if x == 0.0 or x != x:
                    r = math.nan
                else:
                    r = math.copysign(math.inf, x) * math.copysign(1.0, y)
            else:
                r = x / y
        elif cls == "FRemOp":
            if math.isinf(x) or y == 0.0 or x != x or y != y:
                r = math.nan
            elif math.isinf(y):
                r = x
            else:
                r = math.fmod(x, y)
        else:
            raise ValueError(cls)
    except OverflowError:
        r = math.inf
    if ty == F32 and r == r and not math.isinf(r):
        # one rounding of the exact result: double arithmetic on single operands rounds innocuously for + - * /
        r = f_of(F32, bits_of(F32, r))
    out = bits_of(ty, r)
    if "nnan" in fm and is_nan(ty, out):
        raise Excluded("nnan result")
    if "ninf" in fm and math.isinf(f_of(ty, out)):
        raise Excluded("ninf result")
    return out


def fcmp(pred, ty, a, b):
    x, y = f_of(ty, a), f_of(ty, b)
    un = x != x or y != y
    rel = {1: x == y, 2: x > y, 3: x >= y, 4: x < y, 5: x <= y, 6: x != y}
    if pred == 0:
        return 0
    if pred == 15:
        return 1
    if pred == 7:
        return int(not un)
    if pred == 14:
        return int(un)
    if 1 <= pred <= 6:
        return int((not un) and rel[pred])
    if 8 <= pred <= 13:
        return int(un or rel[pred - 7])
    raise Excluded("invalid predicate")


def ibin(cls, w, a, b, ovf, ex, dj):
    M = 1 << w
    nsw, nuw = bool((ovf or 0) & 1), bool((ovf or 0) & 2)
    sa, sb = s(a, w), s(b, w)
    lo, hi = -(M >> 1), (M >> 1) - 1
    if cls in ("AddOp", "SubOp", "MulOp"):
        f = {"AddOp": lambda p, q: p + q, "SubOp": lambda p, q: p - q, "MulOp": lambda p, q: p * q}[cls]
        if nuw and not (0 <= f(a, b) < M):
            raise Excluded("nuw")
        if nsw and not (lo <= f(sa, sb) <= hi):
            raise Excluded("nsw")
        return f(a, b) % M
    if cls in ("UDivOp", "URemOp"):
        if b == 0:
            raise Excluded("div by zero")
        if cls == "UDivOp":
            if ex and a % b:
                raise Excluded("exact")
            return a // b
        return a % b
    if cls in ("SDivOp", "SRemOp"):
        if sb == 0 or (sa == lo and sb == -1):
            raise Excluded("sdiv ub")
        q = abs(sa) // abs(sb)
        if (sa < 0) != (sb < 0):
            q = -q
        r = sa - q * sb
        if cls == "SDivOp":
            if ex and r:
                raise Excluded("exact")
            return q % M
        return r % M
    if cls == "AndOp":
        return a & b
    if cls == "OrOp":
        if dj and (a & b):
            raise Excluded("disjoint")
        return a | b
    if cls == "XOrOp":
        return a ^ b
    if cls in ("ShlOp", "LShrOp", "AShrOp"):
        if b >= w:
            raise Excluded("shift amount")
        if cls == "ShlOp":
            if nuw and (a << b) >= M:
                raise Excluded("nuw")
            if nsw and not (lo <= (sa << b) <= hi):
                raise Excluded("nsw")
            return (a << b) % M
        if ex and (a & ((1 << b) - 1)):
            raise Excluded("exact")
        return (a >> b) if cls == "LShrOp" else (sa >> b) % M
    raise ValueError(cls)


def icmp(pred, w, a, b):
    sa, sb = s(a, w), s(b, w)
    t = {0: a == b, 1: a != b, 2: sa < sb, 3: sa <= sb, 4: sa > sb, 5: sa >= sb, 6: a < b, 7: a <= b, 8: a > b, 9: a >= b}
    if pred not in t:
        raise Excluded("invalid predicate")
    return int(t[pred])


def cast(cls, ofl, nneg, w, a, w2):
    if cls == "TruncOp":
        r = a % (1 << w2)
        if ofl and "nuw" in ofl and r != a:
            raise Excluded("trunc nuw")
        if ofl and "nsw" in ofl and s(r, w2) != s(a, w):
            raise Excluded("trunc nsw")
        return r
    if cls == "ZExtOp":
        if nneg and s(a, w) < 0:
            raise Excluded("nneg")
        return a
    if cls == "SExtOp":
        return s(a, w) % (1 << w2)
    raise ValueError(cls)


def run(case, inputs, budget=4000):
    """-> result bit pattern (or None for a void return); raises Excluded"""
    blocks = case["blocks"]
    env = {}
    mem = {}
    for (i, t), v in zip(blocks[0]["args"], inputs):
        env[i] = v
    cur = 0
    steps = 0

    def get(v):
        if v not in env:
            raise Excluded("use of a value that has not been computed")
        return env[v]

    while True:
        b = blocks[cur]
        for ins in b["body"]:
            steps += 1
            if steps > budget:
                raise Excluded("step budget")
            k = ins[0]
            if k == "const":
                env[ins[1]] = ins[3]
            elif k == "bin":
                _, r, cls, ovf, ex, dj, fm, t, a, bb = ins
                env[r] = ibin(cls, t, get(a), get(bb), ovf, ex, dj) if t >= 1 else fbin(cls, t, get(a), get(bb), fm)
            elif k == "icmp":
                env[ins[1]] = icmp(ins[2], ins[3], get(ins[4]), get(ins[5]))
            elif k == "fcmp":
                env[ins[1]] = fcmp(ins[2], ins[3], get(ins[4]), get(ins[5]))
            elif k == "cast":
                _, r, cls, ofl, nneg, t, a, t2 = ins
                env[r] = cast(cls, ofl, nneg, t, get(a), t2)
            elif k == "select":
                env[ins[1]] = get(ins[4]) if get(ins[3]) & 1 else get(ins[5])
            elif k == "alloca":
                n = get(ins[4])
                if n != 1:
                    raise Excluded("alloca count other than one (not modelled)")
                addr = ("cell", len(mem))
                mem[addr] = None
                env[ins[1]] = addr
            elif k == "load":
                p = get(ins[3])
                if mem.get(p) is None or mem[p][0] != ins[2]:
                    raise Excluded("load of an uninitialised cell / other type")
                env[ins[1]] = mem[p][1]
            elif k == "store":
                mem[get(ins[3])] = (ins[1], get(ins[2]))
        t = b["term"]
        steps += 1
        if steps > budget:
            raise Excluded("step budget")
        if t[0] == "ret":
            return get(t[2])
        if t[0] == "retvoid":
            return None
        if t[0] == "unreachable":
            raise Excluded("unreachable executed")
        if t[0] == "br":
            d, args = t[1], t[2]
        else:
            c = get(t[1])
            d, args = (t[2], t[3]) if c & 1 else (t[4], t[5])
        vals = [get(a) for a in args]
        if len(vals) != len(blocks[d]["args"]):
            raise Excluded("operand / block-argument count mismatch")
        for (i, _), v in zip(blocks[d]["args"], vals):
            env[i] = v
        cur = d
