"""C21 -- x86 backend code computes the source results and honours the SysV ABI.

Tie.  Every generated func/arith integer function (i64 mostly, also i32/i16/i8; constants incl. 0 and values
outside si32, add/mul chains and wide trees, argument reuse, 0..10 arguments, dead code, a few unsupported `subi`;
plus 7..10-parameter shapes in which only SOME parameters are used -- an unused stack-passed parameter before a used
one -- and in which a stack-passed parameter is only read: returned directly, or used only as a left operand)
is pushed through the REAL documented pipeline (convert-func-to-x86-func, convert-arith-to-x86,
reconcile-unrealized-casts, canonicalize, dce, x86-allocate-registers, canonicalize,
x86-prologue-epilogue-insertion, -t x86-asm).  Per program three observables of the real run are compared, in one
coqc round, with the Coq model (coq/C21/Model.v) evaluated by vm_compute:
  (lowering)  the x86 IR after `dce` (canonically renumbered), or the fact that the pipeline rejects the program
              while lowering / at emission, vs `c21_lower` of the source;
  (emission)  the emitted assembly TEXT, parsed by this harness into the subset instruction list, vs `c21_finish`:
              the model's assignment of the allocation READ BACK from the real IR (the allocator is property C19
              and is not re-modelled), its second canonicalize and its prologue/epilogue insertion; the Coq
              predicate alloc_ok (hypothesis of the theorems) must be true of every real allocation;
  (execution) the parsed REAL assembly executed by the Coq x86-64 subset machine on boundary/random argument
              vectors (one vector with a distinct value in every slot, garbage upper bits for narrow types, stack-passed
              arguments, a sentinel in every
              callee-saved register, the trampoline's real return address in the return slot) vs the NATIVE
              execution of the same text (as/gcc + ctypes trampoline, in a forked child): rax, rbx, rbp, r12-r15
              and the rsp delta must agree exactly -- also on the defective programs -- and the Coq reference
              semantics src_sem must equal the harness's python evaluation of the source.
Oracle (independent of the model): the natively returned value, truncated to the type width, equals an independent
two's-complement python evaluation of the source function, every callee-saved register still holds its sentinel,
rsp is back, the call returns; a program the pipeline accepts must assemble.  Programs the pipeline rejects
(OutOfRegisters, unsupported op, constant outside si32) are skipped and counted; an accepted program outside the
modelled subset (none on this tree) is still judged by the oracle and reported as uncovered.
Non-trivial: the program was compiled, has at least two simultaneously live values and either pushes a
callee-saved register (prologue/epilogue emitted) or reads a stack-passed argument; distinct = distinct
(program, emitted text).
"""
from __future__ import annotations

import ctypes
import json
import os
import re
import shutil
import signal
import struct
import subprocess
from pathlib import Path

from harness.common import (BUILD, COQ, REPO, Ctx, DiffSpec, ModelUnavailable, coq_list, coq_Z, coq_Zs, differential,
                            exc_code, replay_findings, to_jsonable)

# ------------------------------------------------------------------------------------------------
# case format (JSON):
#   w     bit width of every value: 64 | 32 | 16 | 8
#   n     number of function arguments (all of type i<w>)
#   ops   list of ["c", k] | ["add", a, b] | ["mul", a, b] | ["sub", a, b]; value indices: 0..n-1 are the
#         arguments, n+j is the result of ops[j]
#   ret   index of the returned value, or -1 for a function without result
#   vecs  list of argument vectors (each n unsigned 64-bit integers: the raw register / stack-slot contents;
#         only the low w bits are the argument)

PRE = "convert-func-to-x86-func,convert-arith-to-x86,reconcile-unrealized-casts,canonicalize,dce"
ALLOC = "x86-allocate-registers"
CANON = "canonicalize"
PRO = "x86-prologue-epilogue-insertion"
ARITH = {"add": "arith.addi", "mul": "arith.muli", "sub": "arith.subi"}
M64 = (1 << 64) - 1


def src_text(case) -> str:
    w, n = case["w"], case["n"]
    t = f"i{w}"
    names = [f"%a{i}" for i in range(n)]
    lines = []
    for j, op in enumerate(case["ops"]):
        r = f"%v{j}"
        if op[0] == "c":
            lines.append(f"  {r} = arith.constant {op[1]} : {t}")
        else:
            lines.append(f"  {r} = {ARITH[op[0]]} {names[op[1]]}, {names[op[2]]} : {t}")
        names.append(r)
    sig = ", ".join(f"{a}: {t}" for a in names[:n])
    if case["ret"] < 0:
        return f"func.func public @f({sig}) {{\n" + "".join(x + "\n" for x in lines) + "  func.return\n}\n"
    return (f"func.func public @f({sig}) -> {t} {{\n" + "".join(x + "\n" for x in lines)
            + f"  func.return {names[case['ret']]} : {t}\n}}\n")


# independent reference semantics of the SOURCE program (two's complement, width w)
def src_eval(case, vec):
    w = case["w"]
    m = (1 << w) - 1
    vals = [v & m for v in vec]
    for op in case["ops"]:
        if op[0] == "c":
            vals.append(op[1] & m)
        elif op[0] == "add":
            vals.append((vals[op[1]] + vals[op[2]]) & m)
        elif op[0] == "mul":
            vals.append((vals[op[1]] * vals[op[2]]) & m)
        elif op[0] == "sub":
            vals.append((vals[op[1]] - vals[op[2]]) & m)
        else:
            raise ValueError(op)
    return None if case["ret"] < 0 else vals[case["ret"]]


# ------------------------------------------------------------------------------------------------
# the real pipeline

_PASSES = None


def _context():
    from xdsl.context import Context
    from xdsl.dialects import get_all_dialects
    c = Context()
    for name, f in get_all_dialects().items():
        c.register_dialect(name, f)
    return c


def _apply(ctx, module, spec):
    global _PASSES
    from xdsl.passes import PassPipeline
    if _PASSES is None:
        from xdsl.transforms import get_all_passes
        _PASSES = get_all_passes()
    PassPipeline.parse_spec(_PASSES, spec).apply(ctx, module)
    module.verify()


class Unmodelled(Exception):
    """the real pipeline produced an IR op / assembly line outside the modelled subset"""


# my own register tables (independent of xdsl/dialects/x86/registers.py)
R64 = ["rax", "rcx", "rdx", "rbx", "rsp", "rbp", "rsi", "rdi"] + [f"r{i}" for i in range(8, 16)]
R32 = ["eax", "ecx", "edx", "ebx", "esp", "ebp", "esi", "edi"] + [f"r{i}d" for i in range(8, 16)]
R16 = ["ax", "cx", "dx", "bx", "sp", "bp", "si", "di"] + [f"r{i}w" for i in range(8, 16)]
R8 = ["al", "cl", "dl", "bl", "spl", "bpl", "sil", "dil"] + [f"r{i}b" for i in range(8, 16)]
REGS = {}
for _w, _names in ((64, R64), (32, R32), (16, R16), (8, R8)):
    for _i, _nm in enumerate(_names):
        REGS[_nm] = (_w, _i)
CALLEE_SAVED = [3, 5, 12, 13, 14, 15]      # SysV: rbx rbp r12 r13 r14 r15
ARG_REGS = [7, 6, 2, 1, 8, 9]              # SysV: rdi rsi rdx rcx r8 r9
RSP, RAX = 4, 0

# IR entry kinds of the pre-allocation dump
K_ARG, K_STK, K_IMM, K_MOV, K_OP, K_MOVRET, K_RET = 1, 2, 3, 4, 5, 6, 7
XOP = {"x86.rs.add": 1, "x86.rs.imul": 2, "x86.rs.sub": 3}


def _reg_of(ty):
    """(width, index) of an allocated xdsl x86 general register type, or None if unallocated"""
    from xdsl.dialects.x86.registers import GeneralRegisterType
    if not isinstance(ty, GeneralRegisterType):
        raise Unmodelled(f"non general-purpose register type {ty}")
    if not ty.is_allocated:
        return None
    nm = ty.register_name.data
    if nm not in REGS:
        raise Unmodelled(f"register name {nm}")
    return REGS[nm]


def _width_of(ty):
    from xdsl.dialects.x86 import registers as R
    for cls, w in ((R.Reg64Type, 64), (R.Reg32Type, 32), (R.Reg16Type, 16), (R.Reg8Type, 8)):
        if isinstance(ty, cls):
            return w
    raise Unmodelled(f"register class {ty}")


def dump_func(module):
    """canonical dump of the single x86_func.func of `module`:
    -> (entries, regs) where entries[j] = [kind, ...] with SSA values renumbered by definition order and
    regs[j] = (width, index) | None of the result of entry j (None for ret)."""
    from xdsl.dialects import x86, x86_func
    from xdsl.ir import BlockArgument
    funcs = [op for op in module.body.block.ops]
    if len(funcs) != 1 or not isinstance(funcs[0], x86_func.FuncOp):
        raise Unmodelled("module is not a single x86_func.func")
    f = funcs[0]
    if len(f.body.blocks) != 1:
        raise Unmodelled("function with several blocks")
    blk = f.body.block
    nargs = len(blk.args)
    ids = {}
    entries, regs = [], []
    for op in blk.ops:
        if isinstance(op, x86.DS_MovOp):
            src = op.source
            dst = _reg_of(op.destination.type)
            if isinstance(src, BlockArgument):
                r = _reg_of(src.type)
                if src.index >= min(nargs - 1, 6) or r is None or r[1] != ARG_REGS[src.index]:
                    raise Unmodelled(f"argument move from block argument {src.index} : {src.type}")
                e = [K_ARG, src.index]
            elif op.destination.first_use is None and isinstance(op.next_op, x86_func.RetOp):
                if dst is not None and dst[1] != RAX:
                    raise Unmodelled(f"return value moved to {dst}")
                e = [K_MOVRET, ids[src]]
            else:
                e = [K_MOV, ids[src]]
            res = op.destination
        elif isinstance(op, x86.DM_MovOp):
            mem = op.memory
            if not (isinstance(mem, BlockArgument) and mem.index == nargs - 1 and _reg_of(mem.type) == (64, RSP)):
                raise Unmodelled(f"load from {mem}")
            e = [K_STK, op.memory_offset.value.data]
            res = op.destination
        elif isinstance(op, x86.DI_MovOp):
            e = [K_IMM, op.immediate.value.data]
            res = op.destination
        elif op.name in XOP:
            e = [K_OP, XOP[op.name], ids[op.register_in], ids[op.source]]
            res = op.register_out
        elif isinstance(op, x86_func.RetOp):
            entries.append([K_RET])
            regs.append(None)
            continue
        else:
            raise Unmodelled(f"IR op {op.name}")
        ids[res] = len(entries)
        entries.append(e)
        r = _reg_of(res.type)
        regs.append(r if r is not None else (_width_of(res.type), None))
    return entries, regs


LINE = re.compile(r"^\s*([a-z][a-z0-9]*)(?:\s+(.*?))?\s*(?:#.*)?$")
MEM = re.compile(r"^\[([a-z0-9]+)(?:([+-])(\d+))?\]$")
# parsed instruction codes (same numbering as coq/C21/Enc.v)
I_MOVRR, I_MOVRI, I_LOAD, I_ADD, I_SUB, I_IMUL, I_PUSH, I_POP, I_RET = 1, 2, 3, 4, 5, 6, 7, 8, 9


def parse_asm(text: str):
    """emitted assembly text -> (instrs, uncovered) ; instrs = list of [code, w, a, b, c]"""
    instrs, uncovered = [], []
    for raw in text.splitlines():
        line = raw.strip()
        if not line or line.startswith(".") or line.startswith("#") or re.match(r"^[A-Za-z_.$][\w.$]*:$", line):
            continue
        m = LINE.match(raw)
        if not m:
            uncovered.append(raw)
            continue
        mn, rest = m.group(1), (m.group(2) or "")
        args = [a.strip() for a in rest.split(",")] if rest else []
        ins = None
        if mn == "ret" and not args:
            ins = [I_RET, 64, 0, 0, 0]
        elif mn in ("push", "pop") and len(args) == 1 and args[0] in REGS and REGS[args[0]][0] == 64:
            ins = [I_PUSH if mn == "push" else I_POP, 64, REGS[args[0]][1], 0, 0]
        elif mn in ("mov", "add", "sub", "imul") and len(args) == 2 and args[0] in REGS:
            w, d = REGS[args[0]]
            if args[1] in REGS:
                w2, s = REGS[args[1]]
                if w2 == w:
                    ins = [{"mov": I_MOVRR, "add": I_ADD, "sub": I_SUB, "imul": I_IMUL}[mn], w, d, s, 0]
            elif mn == "mov" and re.match(r"^-?\d+$", args[1]):
                ins = [I_MOVRI, w, d, int(args[1]), 0]
            elif mn == "mov" and (mm := MEM.match(args[1])) and mm.group(1) in REGS and REGS[mm.group(1)][0] == 64:
                off = int(mm.group(3) or 0) * (-1 if mm.group(2) == "-" else 1)
                ins = [I_LOAD, w, d, REGS[mm.group(1)][1], off]
        if ins is None:
            uncovered.append(raw)
        else:
            instrs.append(ins)
    return instrs, uncovered


_COMPILED: dict = {}


def prog_key(case) -> str:
    return json.dumps([case["w"], case["n"], case["ops"], case["ret"]])


def compile_case(case):
    """run the real pipeline on the program of `case` (cached).  Result keys:
       status   ok | reject (the pipeline raised);  unmodelled = reason if an accepted program lies outside the
                modelled subset (then only the native oracle judges it)
       stage    where it was rejected;  exc/code/why
       pre      canonical dump of the x86 IR after `dce` (None if an op outside the subset was left over)
       alloc    register index per operation of `pre`, read back right after x86-allocate-registers
       text     emitted assembly;  asm = parsed subset instructions;  uncovered = unparsed lines"""
    key = prog_key(case)
    if key in _COMPILED:
        return _COMPILED[key]
    from xdsl.dialects.x86.ops import x86_code
    from xdsl.parser import Parser
    out = {"status": "ok", "pre": None}
    stage = "parse"
    unmodelled = None
    try:
        ctx = _context()
        module = Parser(ctx, src_text(case)).parse_module()
        module.verify()
        stage = "lower"
        _apply(ctx, module, PRE)
        try:
            out["pre"], _ = dump_func(module)
        except Unmodelled as e:
            unmodelled = f"after dce: {e}"
        stage = "allocate"
        _apply(ctx, module, ALLOC)
        if unmodelled is None:
            try:
                ent2, regs = dump_func(module)
                if ent2 != out["pre"]:
                    raise Unmodelled("x86-allocate-registers changed the operation list")
                if any(r is not None and (r[1] is None or r[0] != case["w"]) for r in regs):
                    raise Unmodelled(f"unallocated or wrong-width result after allocation: {regs}")
                out["alloc"] = [(-1 if r is None else r[1]) for r in regs]
            except Unmodelled as e:
                unmodelled = f"after allocation: {e}"
        stage = "canonicalize"
        _apply(ctx, module, CANON)
        stage = "prologue"
        _apply(ctx, module, PRO)
        stage = "emit"
        out["text"] = x86_code(module)
        out["asm"], out["uncovered"] = parse_asm(out["text"])
        if unmodelled is None and out["uncovered"]:
            unmodelled = "assembly line(s) outside the subset: " + "; ".join(x.strip() for x in out["uncovered"][:3])
        out["unmodelled"] = unmodelled      # accepted, but outside the modelled subset: oracle only
    except BaseException as e:  # the pipeline rejects the program
        if isinstance(e, (KeyboardInterrupt, SystemExit, MemoryError)):
            raise
        out.update({"status": "reject", "stage": stage, "exc": type(e).__name__, "code": exc_code(e),
                    "why": str(e)[:200], "leftover": unmodelled})
    _COMPILED[key] = out
    return out


# ------------------------------------------------------------------------------------------------
# native execution (oracle): gcc + ctypes trampoline, in a forked child so that a crash of the code under
# test cannot take the check down

TRAMP = r"""
    .intel_syntax noprefix
    .text
    .globl c21_call
    .globl c21_after_call
# long c21_call(void *fn, const u64 regargs[6], const u64 *stackargs, long nstack,
#               const u64 sentinels[6] /* rbx rbp r12 r13 r14 r15 */, u64 out[8])
# out = rax, rbx, rbp, r12, r13, r14, r15, (rsp after the call) - (rsp before the call)
c21_call:
    push rbx
    push rbp
    push r12
    push r13
    push r14
    push r15
    mov [rip+c21_save_rsp], rsp
    mov [rip+c21_save_out], r9
    mov [rip+c21_save_fn], rdi
    and rsp, -16
    test rcx, 1
    jz 1f
    sub rsp, 8
1:
    mov rax, rcx
2:
    test rax, rax
    jz 3f
    dec rax
    push qword ptr [rdx+rax*8]
    jmp 2b
3:
    mov [rip+c21_save_rsp2], rsp
    mov rbx, [r8]
    mov rbp, [r8+8]
    mov r12, [r8+16]
    mov r13, [r8+24]
    mov r14, [r8+32]
    mov r15, [r8+40]
    mov r10, rsi
    mov rdi, [r10]
    mov rsi, [r10+8]
    mov rdx, [r10+16]
    mov rcx, [r10+24]
    mov r8,  [r10+32]
    mov r9,  [r10+40]
    mov rax, 0x5a5a5a5a5a5a5a5a
    mov r10, rax
    mov r11, rax
    call qword ptr [rip+c21_save_fn]
c21_after_call:
    mov r11, [rip+c21_save_out]
    mov [r11], rax
    mov [r11+8], rbx
    mov [r11+16], rbp
    mov [r11+24], r12
    mov [r11+32], r13
    mov [r11+40], r14
    mov [r11+48], r15
    mov rax, rsp
    sub rax, [rip+c21_save_rsp2]
    mov [r11+56], rax
    mov rsp, [rip+c21_save_rsp]
    pop r15
    pop r14
    pop r13
    pop r12
    pop rbp
    pop rbx
    xor eax, eax
    ret
    .bss
    .align 8
c21_save_rsp:  .quad 0
c21_save_rsp2: .quad 0
c21_save_out:  .quad 0
c21_save_fn:   .quad 0
    .section .note.GNU-stack,"",@progbits
"""
SENTINELS = [0xA5A5000000000B0B, 0xA5A5000000000B0D, 0xA5A5000000000C0C,
             0xA5A5000000000D0D, 0xA5A5000000000E0E, 0xA5A5000000000F0F]
# canonical stand-in for the (address-space-randomised) return address of the trampoline in recorded results
RA_CANON = 0x00007E7E00C21000
NATIVE_CRASH, NATIVE_NOASM, NATIVE_NOTOOL = -9, -8, -7


def rename_label(text: str, name: str) -> str:
    """the emitted text with the function symbol `f` renamed (label and .globl/.local lines only)"""
    out = []
    for line in text.splitlines():
        s = line.strip()
        if s == "f:":
            line = f"{name}:"
        elif s in (".globl f", ".local f"):
            line = f".globl {name}"
        out.append(line)
    return "\n".join(out) + "\n"


class Native:
    """one shared object holding the trampoline and every assembled function of a batch"""
    _count = 0

    def __init__(self, workdir: Path):
        self.dir = workdir
        self.dir.mkdir(parents=True, exist_ok=True)
        self.names: dict[str, str] = {}     # emitted text -> symbol
        self.noasm: dict[str, str] = {}     # emitted text -> assembler message
        self.lib = None
        self.ret_addr = None
        self.available = shutil.which("gcc") is not None and shutil.which("as") is not None

    def build(self, texts):
        if not self.available:
            return
        texts = list(dict.fromkeys(texts))
        (self.dir / "tramp.s").write_text(TRAMP)
        # assemble every function on its own (a text that does not assemble must not hide the others); batch first
        for i, t in enumerate(texts):
            self.names[t] = f"c21_f_{i}"
        objs = []
        chunk = 64
        for k in range(0, len(texts), chunk):
            part = texts[k:k + chunk]
            for attempt in range(len(part) + 1):
                if not part:
                    break
                ok = self._assemble(part, f"fn_{k}")
                if ok is True:
                    objs.append(self.dir / f"fn_{k}.o")
                    break
                bad = self._blame(part, f"fn_{k}")
                if not bad:           # cannot attribute the message: fall back to one text at a time
                    for j, t in enumerate(part):
                        r = self._assemble([t], f"fn_{k}_{j}")
                        if r is True:
                            objs.append(self.dir / f"fn_{k}_{j}.o")
                        else:
                            self.noasm[t] = r
                    break
                for t, msg in bad.items():
                    self.noasm[t] = msg
                part = [t for t in part if t not in bad]
        Native._count += 1      # dlopen caches by path: never reuse a library name within one process
        so = self.dir / f"c21_{os.getpid()}_{Native._count}.so"
        cmd = ["gcc", "-shared", "-nostdlib", "-Wl,-z,noexecstack", "-o", str(so),
               str(self.dir / "tramp.s")] + [str(o) for o in objs]
        p = subprocess.run(cmd, capture_output=True, text=True)
        if p.returncode != 0:
            raise ModelUnavailable("gcc failed to link the native oracle: " + p.stderr[-500:])
        self.lib = ctypes.CDLL(str(so))
        self.ret_addr = ctypes.cast(self.lib.c21_after_call, ctypes.c_void_p).value

    def _assemble(self, texts, stem):
        src, self._lines = "", []
        for t in texts:
            body = rename_label(t, self.names[t])
            self._lines.append((src.count("\n") + 1, src.count("\n") + body.count("\n"), t))
            src += body
        (self.dir / f"{stem}.s").write_text(src + '    .section .note.GNU-stack,"",@progbits\n')
        p = subprocess.run(["as", "-o", str(self.dir / f"{stem}.o"), str(self.dir / f"{stem}.s")],
                           capture_output=True, text=True)
        self._stderr = p.stderr
        return True if p.returncode == 0 else (p.stderr.strip().splitlines() or ["as failed"])[-1][-200:]

    def _blame(self, texts, stem):
        """texts of the last _assemble call that own a line the assembler complained about"""
        bad = {}
        for m in re.finditer(r"\.s:(\d+): Error: (.*)", self._stderr):
            ln = int(m.group(1))
            for lo, hi, t in self._lines:
                if lo <= ln <= hi:
                    bad.setdefault(t, f"line {ln - lo + 1}: Error: {m.group(2)}"[:200])
        return bad

    def _call(self, text, vec):
        U = ctypes.c_uint64
        fn = ctypes.cast(getattr(self.lib, self.names[text]), ctypes.c_void_p).value
        ra = (U * 6)(*[(vec[i] if i < len(vec) else 0x1111111111111111 * (i + 1)) & M64 for i in range(6)])
        st = [v & M64 for v in vec[6:]]
        sa = (U * max(1, len(st)))(*st)
        sent = (U * 6)(*SENTINELS)
        out = (U * 8)()
        self.lib.c21_call(ctypes.c_void_p(fn), ra, sa, ctypes.c_long(len(st)), sent, out)
        return [int(x) for x in out]

    def run(self, jobs):
        """jobs: list of (text, vec) -> list of 8-int results | [NATIVE_*]; executed in forked children"""
        res = [None] * len(jobs)
        if not self.available or self.lib is None:
            return [[NATIVE_NOTOOL]] * len(jobs)
        start = 0
        while start < len(jobs):
            r, wfd = os.pipe()
            pid = os.fork()
            if pid == 0:
                try:
                    os.close(r)
                    signal.alarm(60)
                    with os.fdopen(wfd, "wb", buffering=0) as wf:
                        for k in range(start, len(jobs)):
                            text, vec = jobs[k]
                            if text in self.noasm:
                                out = [NATIVE_NOASM] + [0] * 7
                            else:
                                out = self._call(text, vec)
                            wf.write(struct.pack("<q8Q", k, *[x & M64 for x in out]))
                finally:
                    os._exit(0)
            os.close(wfd)
            done = start
            with os.fdopen(r, "rb") as rf:
                while True:
                    rec = rf.read(72)
                    if len(rec) < 72:
                        break
                    k, *vals = struct.unpack("<q8Q", rec)
                    res[k] = [NATIVE_NOASM] if vals[0] == (NATIVE_NOASM & M64) and jobs[k][0] in self.noasm else vals
                    done = k + 1
            os.waitpid(pid, 0)
            if done < len(jobs):
                res[done] = [NATIVE_CRASH]     # the child died while running job `done`
                done += 1
            start = done
        return res


# ------------------------------------------------------------------------------------------------
# generation

META = {
    "id": "C21",
    "title": "x86 backend code computes the source results and honours the SysV ABI",
    "design_ref": "DESIGN.md section 8.C21",
    "technique": ("Coq proof of the lowering kernels against an x86-64 subset machine (simulation under the C19 "
                  "no-interference hypothesis, prologue/epilogue frame theorem) + correspondence on the real pre-allocation "
                  "IR, on the emitted assembly text and on its execution (Coq machine vs native run), SysV facts by an "
                  "ast translator"),
    "level_text": (
        "Theorems in coq/Props/C21.v about (1) an x86-64 subset machine (16 registers, word-addressed stack, mov/add/sub/"
        "imul/load/push/pop/ret in 64/32/16/8-bit forms with wrap-around written out) and (2) a Gallina model of the "
        "lowering kernels LowerFuncOp, LowerReturnOp, ArithConstantToX86, ArithBinaryToX86, RS_Add_Zero, dce, "
        "RemoveRedundantDS_Mov and X86PrologueEpilogueInsertion, for EVERY straight-line func/arith program (any width, "
        "any number of arguments incl. stack-passed ones, constants, add/mul, dead code), EVERY register allocation that "
        "satisfies alloc_ok (C19's no-interference invariant, taken as hypothesis and evaluated in Coq on every real "
        "allocation), EVERY SysV entry state and argument vector: the two-address sequence of every table entry computes "
        "the source op (C21_binop_lowering_sound; the scheme is shown wrong for sub), the IR computes the source value "
        "(C21_lowering_computes_source, C21_dead_code_irrelevant), the emitted instruction list returns through the "
        "caller's return address with rsp restored, the source result in the low w bits of rax and all callee-saved "
        "registers restored (C21_returns_source_value_partial) PROVIDED stack_args_ok (the prologue pass rebases rsp-relative "
        "offsets, or no stack argument is read, or nothing is pushed) and, for the callee-saved clause, 64-bit values; the "
        "prologue/epilogue frame theorems hold for every list of pushed registers and any stack-balanced body "
        "(C21_callee_saved_restored, C21_rsp_restored). The unrepaired code REFUTES the full statements: stack-passed "
        "arguments are read k slots too low after k pushes (C21_stack_args_offset, _refuted, "
        "C21_returns_source_value_refuted), narrow names of callee-saved registers are not saved "
        "(C21_callee_saved_narrow_refuted), i8 muli is emitted as a non-existent 8-bit imul (C21_imul8_not_encodable); "
        "C21_returns_source_value_repaired is the full statement for a pass that rebases the offsets. The SysV tables and "
        "the structural facts of the prologue pass are re-extracted from the source on every run (ast translator) and "
        "the theorems are re-checked against them. Tie: on every generated program the model's pre-allocation IR and its "
        "final instruction list equal the real pipeline's IR and the parsed emitted assembly text, and the Coq machine "
        "running the parsed real assembly agrees register for register with the native execution of that text."),
    "level_note": (
        "Trusted: Coq kernel; the hand-written machine and lowering model; the translator c21_tables.py; the harness's "
        "assembly parser and IR dump; for the oracle gcc/as/ctypes/CPU. The register allocator is NOT re-modelled (C19): the "
        "allocation is read back from the real IR and must satisfy alloc_ok. Not covered: the assembler and the CPU "
        "(oracle only), instruction encodings, flags, vector/ptr/memref lowerings, AVX ops, x86-infer-broadcast, "
        "x86-regalloc-legalize, multi-block functions, calls; 16/8-bit partial-register semantics are modelled (merge) "
        "but claimed only through the low-w-bits invariant."),
}
COQ_TARGETS = ["Gen/C21_tables.vo", "C21/Enc.vo", "C21/ProofsMachine.vo", "C21/ProofsLower.vo", "C21/ProofsSim.vo",
               "C21/ProofsAbi.vo", "C21/ProofsRefute.vo", "Props/C21.vo"]
REQ = ["Gen.C21_tables", "C21.Model", "C21.Spec", "C21.Enc"]
ASSUMPTIONS = [
    "the register allocation is an input of the theorems: it satisfies `alloc_ok` (no result is written to a reserved "
    "register -- rsp, argument registers still to be read -- or over another value live afterwards; an in/out pair "
    "shares its register), which is property C19's no-interference invariant; the check evaluates alloc_ok in Coq on "
    "every allocation read back from the real allocator",
    "the entry state follows the SysV ABI: rsp 8-byte aligned with room for the save area, the return address at "
    "[rsp], stack-passed argument i at [rsp+8+8i], register arguments in rdi rsi rdx rcx r8 r9 (only the low w bits "
    "of a narrow argument are defined)",
]
TRUSTED = [
    "harness/translate/c21_tables.py (ast extraction of the SysV tables and of the structural facts of the prologue pass)",
    "the harness's assembly-text parser (text -> subset instruction list) and its pre-allocation IR dump",
    "for the oracle only: GNU as / gcc / ld, ctypes and the CPU (native run of the emitted text through a trampoline "
    "that loads sentinels into rbx rbp r12-r15 and measures rsp)",
]

SP0 = 0x00007FFD12340000
FILL = 0x1111111111111111
SCRATCH = 0x5A5A5A5A5A5A5A5A
BOUNDARY64 = [0, 1, 2, M64, M64 - 1, 1 << 63, (1 << 63) - 1, (1 << 63) + 1, 1 << 31, (1 << 31) - 1, (1 << 32) - 1,
              1 << 32, (1 << 32) + 1, 0xFFFFFFFF00000000, 0x00000000FFFFFFFF, 0x8000000080000000, 0x0123456789ABCDEF,
              0xFF, 0x100, 0x7F, 0x80, 0xFFFF, 0x10000, 0x7FFF, 0x8000]


def gen_const(rng, w):
    lo, hi = -(1 << (w - 1)), (1 << (w - 1)) - 1
    r = rng.random()
    if r < 0.30:
        return 0
    if r < 0.55:
        return rng.choice([1, -1, 2, 3, -2, 7, 10])
    if r < 0.70:
        return rng.choice([lo, hi, lo + 1, hi - 1])
    if w == 64:
        if r < 0.78:
            return rng.choice([-(1 << 31), (1 << 31) - 1])
        if r < 0.83:                       # outside si32: the pipeline must reject (DI_MovOp immediate)
            return rng.choice([1 << 31, -(1 << 31) - 1, 5000000000, hi, lo, 1 << 40])
        return rng.randint(-(1 << 31), (1 << 31) - 1)
    return rng.randint(lo, hi)


def gen_program(rng, thorough=False):
    w = rng.choices([64, 32, 16, 8], weights=[66, 18, 8, 8])[0]
    shape = rng.choices(["chain", "wide", "random", "tiny", "sparse", "retstack", "leftonly"],
                        weights=[22, 22, 22, 8, 12, 5, 9])[0]
    if shape in ("sparse", "retstack", "leftonly"):
        return gen_stack_shape(rng, w, shape)
    n = rng.choices(range(0, 11), weights=[2, 5, 8, 8, 6, 5, 7, 10, 10, 7, 5])[0]
    k = {"tiny": rng.randint(0, 2), "chain": rng.randint(1, 10), "wide": rng.randint(2, 7),
         "random": rng.randint(1, 12)}[shape]
    ops, nv = [], n

    def pick(recent=False):
        if nv == 0:
            return None
        if recent and rng.random() < 0.7:
            return rng.randrange(max(0, nv - 3), nv)
        return rng.randrange(nv)

    def binop():
        return "sub" if rng.random() < 0.015 else rng.choice(["add", "mul", "add"])

    if shape == "wide":
        # several independent values kept alive, then folded together
        leaves = []
        for _ in range(k):
            if nv == 0 or rng.random() < 0.25:
                ops.append(["c", gen_const(rng, w)])
            else:
                ops.append([binop(), pick(), pick()])
            leaves.append(nv)
            nv += 1
        acc = leaves[0]
        for x in leaves[1:]:
            ops.append([binop(), acc, x] if rng.random() < 0.5 else [binop(), x, acc])
            acc = nv
            nv += 1
    else:
        for _ in range(k):
            if nv == 0 or rng.random() < (0.25 if shape != "chain" else 0.12):
                ops.append(["c", gen_const(rng, w)])
            else:
                ops.append([binop(), pick(shape == "chain"), pick()])
            nv += 1
    r = rng.random()
    if nv == 0 or r < 0.04:
        ret = -1
    elif r < 0.85:
        ret = nv - 1
    else:
        ret = rng.randrange(nv)
    return {"w": w, "n": n, "ops": ops, "ret": ret}


def gen_stack_shape(rng, w, shape):
    """functions with 7..10 parameters that touch only SOME of them -- in particular some stack-passed
    parameters are unused while later ones are used -- and that read a stack-passed parameter without
    ever copying it (returned directly, or only as the LEFT operand, which the lowering reads in place)"""
    n = rng.choices([7, 8, 9, 10], weights=[2, 4, 3, 3])[0]
    stack = list(range(6, n))
    ops = []
    if shape == "retstack":
        # return a stack parameter directly, possibly next to dead / unrelated code
        g = rng.choice(stack)
        for _ in range(rng.choice([0, 0, 1, 2])):
            ops.append([rng.choice(["add", "mul"]), rng.randrange(n), rng.randrange(n)])
        return {"w": w, "n": n, "ops": ops, "ret": g}
    if shape == "leftonly":
        # acc = g op x (g a stack parameter, left operand only), a short chain on top; the right operands are
        # register parameters, constants or earlier results
        g = rng.choice(stack)
        nv = n

        def right():
            r = rng.random()
            if r < 0.55:
                return rng.randrange(0, 6)
            if r < 0.8 and nv > n:
                return rng.randrange(n, nv)
            return rng.choice(stack)
        if rng.random() < 0.3:
            ops.append(["c", rng.choice([1, 2, 3, -1, 7])])
            nv += 1
        ops.append([rng.choice(["add", "mul"]), g, right()])
        acc = nv
        nv += 1
        for _ in range(rng.choice([0, 0, 1, 2])):
            left = rng.choice([g, acc, rng.choice(stack)])
            ops.append([rng.choice(["add", "mul"]), left, right()])
            acc = nv
            nv += 1
        return {"w": w, "n": n, "ops": ops, "ret": acc}
    # sparse: a random subset of the parameters is used; make sure a stack parameter is used and, most of the
    # time, that an EARLIER stack parameter is not
    used = [i for i in range(n) if rng.random() < 0.45]
    late = rng.choice(stack[1:] if len(stack) > 1 else stack)
    if late not in used:
        used.append(late)
    if rng.random() < 0.8:
        skip = rng.choice([i for i in stack if i < late] or [late])
        used = [i for i in used if i != skip or i == late]
    used = sorted(set(used))
    vals = list(used)
    nv = n
    todo = list(used)
    rng.shuffle(todo)
    acc = todo.pop()
    while todo:
        x = todo.pop()
        ops.append([rng.choice(["add", "mul", "add"]), acc, x] if rng.random() < 0.5
                   else [rng.choice(["add", "mul", "add"]), x, acc])
        acc = nv
        vals.append(nv)
        nv += 1
    if rng.random() < 0.3 and nv > n:
        ops.append(["c", gen_const(rng, w) if w < 64 else rng.choice([0, 1, -1, 5])])
        ops.append([rng.choice(["add", "mul"]), acc, nv])
        nv += 2
        acc = nv - 1
    return {"w": w, "n": n, "ops": ops, "ret": acc}


def gen_vecs(rng, case, count):
    n, w = case["n"], case["w"]
    m = (1 << w) - 1
    vecs = []
    for j in range(count):
        v = []
        for _ in range(n):
            r = rng.random()
            if j == 0:
                x = rng.choice(BOUNDARY64)
            elif j == 1 or r >= 0.55:
                x = rng.getrandbits(64)          # narrow types: garbage in the upper bits (ABI leaves them undefined)
            elif r < 0.4:
                x = rng.choice(BOUNDARY64)
            else:
                x = rng.getrandbits(64) & m
            if j == 1:                           # a DISTINCT argument (low w bits) in every slot
                while any((x ^ y) & m == 0 for y in v) or x & m in (0, 1):
                    x = rng.getrandbits(64)
            v.append(x)
        vecs.append(v)
    return vecs


SEEDS = [
    # stack-passed arguments + a callee-saved register (the candidate of DESIGN 8.C21)
    {"w": 64, "n": 8, "ops": [["add", 6, 6], ["mul", 8, 7]], "ret": 9},
    {"w": 64, "n": 7, "ops": [["add", 6, 0]], "ret": 7},
    {"w": 64, "n": 10, "ops": [["add", 9, 8], ["mul", 10, 7], ["add", 11, 6]], "ret": 12},
    {"w": 64, "n": 9, "ops": [["c", 3], ["mul", 8, 9], ["add", 10, 6], ["add", 11, 7]], "ret": 12},
    # an unused stack-passed parameter before a used one; a stack parameter that is only read
    {"w": 64, "n": 8, "ops": [["add", 7, 0]], "ret": 8},
    {"w": 64, "n": 9, "ops": [["mul", 8, 6]], "ret": 9},
    {"w": 64, "n": 7, "ops": [], "ret": 6},
    {"w": 64, "n": 8, "ops": [["add", 7, 0]], "ret": 7},
    {"w": 64, "n": 8, "ops": [["add", 6, 0], ["mul", 7, 8]], "ret": 9},
    {"w": 32, "n": 9, "ops": [["mul", 8, 1]], "ret": 9},
    # narrow types and callee-saved registers
    {"w": 32, "n": 8, "ops": [["c", -3], ["mul", 7, 8], ["add", 9, 6]], "ret": 10},
    {"w": 32, "n": 2, "ops": [["c", -3], ["mul", 0, 2], ["add", 3, 1], ["add", 4, 0], ["mul", 5, 1], ["add", 6, 2],
                              ["add", 7, 3]], "ret": 8},
    {"w": 16, "n": 3, "ops": [["c", 5], ["add", 0, 1], ["mul", 4, 2], ["add", 5, 3], ["add", 6, 0]], "ret": 7},
    {"w": 8, "n": 2, "ops": [["mul", 0, 1]], "ret": 2},
    {"w": 8, "n": 2, "ops": [["add", 0, 1], ["add", 2, 0]], "ret": 3},
    # RS_Add_Zero chains, constants, dead code, argument returned directly, no result
    {"w": 64, "n": 2, "ops": [["c", 0], ["add", 2, 0], ["add", 1, 2], ["mul", 3, 4]], "ret": 5},
    {"w": 64, "n": 1, "ops": [["c", 0], ["add", 1, 1], ["add", 2, 0], ["add", 3, 3]], "ret": 4},
    {"w": 64, "n": 1, "ops": [], "ret": 0},
    {"w": 64, "n": 1, "ops": [["c", 7]], "ret": -1},
    {"w": 64, "n": 0, "ops": [["c", -2147483648]], "ret": 0},
    {"w": 64, "n": 2, "ops": [["c", 2147483648], ["add", 2, 0]], "ret": 3},
    {"w": 64, "n": 2, "ops": [["sub", 0, 1]], "ret": 2},
    {"w": 64, "n": 3, "ops": [["c", 5], ["add", 0, 1], ["mul", 4, 2], ["add", 5, 3], ["add", 6, 0]], "ret": 7},
    {"w": 64, "n": 6, "ops": [["add", 0, 1], ["add", 2, 3], ["add", 4, 5], ["mul", 6, 7], ["mul", 9, 8]], "ret": 10},
]


# ------------------------------------------------------------------------------------------------
# Coq terms

OPC = {"add": 1, "mul": 2, "sub": 3}


def hz(n: int) -> str:
    """Coq Z literal; large values in hexadecimal (decimal numerals above ~2^32 are slow to parse)"""
    if -(1 << 31) <= n < (1 << 31):
        return coq_Z(n)
    return f"(-{hex(-n)})%Z" if n < 0 else f"{hex(n)}%Z"


def hzs(ns) -> str:
    return coq_list(hz(n) for n in ns)


def coq_prog(case) -> str:
    ops = []
    for op in case["ops"]:
        if op[0] == "c":
            ops.append(f"ZC {hz(op[1])}")
        else:
            ops.append(f"ZB {OPC[op[0]]} {op[1]} {op[2]}")
    return f"(zprog {case['w']} {case['n']} {coq_list(ops)} {coq_Z(case['ret'])})"


WN = {64: "W64", 32: "W32", 16: "W16", 8: "W8"}


def coq_instr(i) -> str:
    c, w, a, b, k = i
    W = WN[w]
    if c == I_MOVRR:
        return f"IMovRR {W} {a} {b}"
    if c == I_MOVRI:
        return f"IMovRI {W} {a} {coq_Z(b)}"
    if c == I_LOAD:
        return f"ILoad {W} {a} {b} {coq_Z(k)}"
    if c in (I_ADD, I_SUB, I_IMUL):
        return f"{ {I_ADD: 'IAdd', I_SUB: 'ISub', I_IMUL: 'IImul'}[c]} {W} {a} {b}"
    if c == I_PUSH:
        return f"IPush {a}"
    if c == I_POP:
        return f"IPop {a}"
    return "IRet"


def code_version():
    """which repairs the code under test contains, as extracted by the translator from its source"""
    from harness.translate import c21_tables
    f = c21_tables.extract(REPO)
    return f["prologue_shifts"], f["select_by_index"], f["rejects_imul8"]


def coq_ver():
    return "current_version"


def coq_rej8():
    return "c21_rejects_imul8"


# ------------------------------------------------------------------------------------------------
# families

def lowering_impl(case):
    r = compile_case(case)
    if r["status"] == "reject" and r["stage"] == "parse":
        return [-3, r["code"]]
    if r["pre"] is not None:
        return r["pre"]
    if r["status"] == "reject":
        return -1           # rejected while lowering, or an unconverted op was left behind and emission refused
    return [-4]             # accepted but outside the modelled IR subset (never part of the differential)


def lowering_expr(case, p=None):
    return f"enc_lower_v {coq_rej8()} {p or coq_prog(case)}"


def emission_impl(case):
    r = compile_case(case)
    return [r["asm"], 1]


def emission_expr(case, p=None):
    r = compile_case(case)
    return f"enc_finish_v {coq_rej8()} {coq_ver()} {p or coq_prog(case)} {coq_Zs(r['alloc'][:-1])}"


_NATIVE: dict = {"obj": None, "results": {}}


def native_batch(cases, workdir: Path):
    """compile + assemble + run natively every (program, vector) of `cases`; results cached"""
    texts, jobs = [], []
    for c in cases:
        r = compile_case(c)
        if r["status"] != "ok":
            continue
        texts.append(r["text"])
        for v in c["vecs"]:
            if (r["text"], tuple(v)) not in _NATIVE["results"]:
                jobs.append((r["text"], tuple(v)))
    if not jobs:
        return
    nat = Native(workdir)
    nat.build(texts)
    res = nat.run([(t, list(v)) for t, v in jobs])
    _NATIVE["obj"] = nat
    ra = nat.ret_addr
    for (t, v), out in zip(jobs, res):
        _NATIVE["results"][(t, v)] = (out, ra)


def execution_impl(case):
    r = compile_case(case)
    if any((r["text"], tuple(v)) not in _NATIVE["results"] for v in case["vecs"]):
        d = BUILD / f"c21-native-{os.getpid()}-{len(_NATIVE['results'])}"
        try:
            native_batch([case], d)
        finally:
            shutil.rmtree(d, ignore_errors=True)
    outs = []
    for v in case["vecs"]:
        out, _ra = _NATIVE["results"][(r["text"], tuple(v))]
        if out == [NATIVE_NOASM]:
            return [-8]
        ref = src_eval(case, v)
        outs.append([list(out), -1 if ref is None else ref])
    return outs


def execution_expr(case, p=None):
    r = compile_case(case)
    ra = _NATIVE["results"][(r["text"], tuple(case["vecs"][0]))][1] if case["vecs"] else 0
    return (f"enc_exec_all {coq_list(coq_instr(i) for i in r['asm'])} {p or coq_prog(case)} {hz(SP0)} {hz(ra or 0)} "
            f"{coq_list(hzs(v) for v in case['vecs'])}")


def writes_of(asm):
    """hardware registers written by the parsed instruction list (other than through push/pop/ret)"""
    return {i[2] for i in asm if i[0] in (I_MOVRR, I_MOVRI, I_LOAD, I_ADD, I_SUB, I_IMUL)}


def judge(case, res):
    """-> list of (kind, message) failures of the property's statement on the native result"""
    fails = []
    if res == [-8]:
        r = compile_case(case)
        return [("noasm", "the pipeline accepted the program but the emitted text does not assemble: "
                 + _NATIVE["obj"].noasm.get(r["text"], "") if _NATIVE["obj"] else "")]
    m = (1 << case["w"]) - 1
    for v, (out, ref) in zip(case["vecs"], res):
        if out == [NATIVE_NOTOOL]:
            continue
        if out == [NATIVE_CRASH]:
            fails.append(("crash", f"native call crashed on arguments {v}"))
            continue
        rax, saved, delta = out[0], out[1:7], out[7]
        if case["ret"] >= 0 and (rax & m) != ref:
            fails.append(("value", f"f{tuple(x & m for x in v)} returned {rax & m}, the source program computes {ref}"))
        bad = [R64[r] for r, s, o in zip(CALLEE_SAVED, SENTINELS, saved) if o != s]
        if bad:
            fails.append(("callee", f"callee-saved register(s) {', '.join(bad)} not restored on arguments {v}"))
        if delta != 0:
            fails.append(("rsp", f"rsp changed by {delta if delta < 1 << 63 else delta - (1 << 64)} across the call"))
    return fails


def execution_holds(case, res):
    fails = judge(case, res)
    if fails:
        return False, "; ".join(dict.fromkeys(m for _, m in fails))[:600]
    return True, ""


def execution_known(case, res):
    """class predicates of the known findings (only ids listed unfixed in known_findings.d/C21.json count)"""
    kinds = {k for k, _ in judge(case, res)}
    r = compile_case(case)
    asm = r["asm"]
    pushes = [i for i in asm if i[0] == I_PUSH]
    first_stack_load = next((k for k, i in enumerate(asm) if i[0] == I_LOAD and i[3] == RSP), None)
    # kf-1: a stack-passed argument is loaded after the prologue pushed a callee-saved register: wrong value only
    if (kinds == {"value"} and case["n"] > 6 and pushes and first_stack_load is not None
            and any(i[0] == I_PUSH for i in asm[:first_stack_load])):
        return "C21-kf-1"
    # kf-2: a narrow (32/16/8-bit) name of a callee-saved register is written and never saved: register clobbered
    if (kinds == {"callee"} and case["w"] < 64
            and (writes_of(asm) & set(CALLEE_SAVED)) - {i[2] for i in pushes}):
        return "C21-kf-2"
    # kf-3: 8-bit multiplication: `imul r8, r8` is emitted, which is not an instruction
    if kinds == {"noasm"} and case["w"] == 8 and any(i[0] == I_IMUL and i[1] == 8 for i in asm):
        return "C21-kf-3"
    return None


def max_live(pre):
    """largest number of simultaneously live SSA values of the pre-allocation dump"""
    last = {}
    for j, e in enumerate(pre):
        ops = e[2:] if e[0] == K_OP else (e[1:] if e[0] in (K_MOV, K_MOVRET) else [])
        for v in ops:
            last[v] = j
    best = 0
    for j in range(len(pre)):
        best = max(best, sum(1 for v, l in last.items() if v < j <= l) )
    return best


def execution_nontrivial(case, res):
    r = compile_case(case)
    asm = r["asm"]
    if max_live(r["pre"]) >= 2 and (any(i[0] == I_PUSH for i in asm) or any(i[0] == I_LOAD for i in asm)):
        return (prog_key(case), r["text"])
    return None


FAMILY = "pipeline"


def applicable(case):
    r = compile_case(case)
    return r["status"] == "ok" and not r["unmodelled"] and bool(case.get("vecs"))


def pipeline_impl(case):
    if not applicable(case):
        return [lowering_impl(case), 0, 0]
    return [lowering_impl(case), emission_impl(case), execution_impl(case)]


def pipeline_expr(case):
    if not applicable(case):
        return f"L [{lowering_expr(case)}; I 0; I 0]"
    return (f"(let p := {coq_prog(case)} in L [{lowering_expr(case, 'p')}; {emission_expr(case, 'p')}; "
            f"{execution_expr(case, 'p')}])")


def pipeline_holds(case, res):
    return (True, "") if res[2] == 0 else execution_holds(case, res[2])


def pipeline_known(case, res):
    return None if res[2] == 0 else execution_known(case, res[2])


def pipeline_nontrivial(case, res):
    return None if res[2] == 0 else execution_nontrivial(case, res[2])


def replay_case(ctx: Ctx, witness: dict) -> int:
    """./check C21 --replay file: re-run the recorded program on pipeline, native oracle and model"""
    case = witness.get("case", witness)
    if not isinstance(case, dict) or "ops" not in case:
        print("nothing to replay (no program in the witness)")
        return 0
    case.setdefault("vecs", [])
    r = compile_case(case)
    print("pipeline:", r["status"], r.get("stage", ""), r.get("exc", ""), r.get("why", "") or r.get("unmodelled") or "")
    if r["status"] != "ok":
        return 0
    print(r["text"])
    res = to_jsonable(pipeline_impl(case)) if not r["unmodelled"] else [[-4], 0, to_jsonable(execution_impl(case))]
    ok, why = (True, "") if res[2] == 0 else execution_holds(case, res[2])
    print("native:", res[2])
    print("oracle:", "holds" if ok else "FAILS: " + why, "| known finding class:", None if ok else execution_known(case, res[2]))
    if not r["unmodelled"]:
        try:
            model = ctx.coq_eval(REQ, [pipeline_expr(case)])[0]
            print("model :", model[2] if len(model) > 2 else model)
            print("model == implementation:", model == res)
        except ModelUnavailable as e:
            print("model unavailable:", str(e)[:300])
    return 0 if ok else 1


def generate(ctx: Ctx):
    from harness.translate import c21_tables
    info = c21_tables.generate(REPO, COQ / "Gen")
    ctx.coverage["translator"] = ("harness/translate/c21_tables.py -> coq/Gen/C21_tables.v (sha1 " + info["sha1"] + "): "
                                  + json.dumps({k: v for k, v in info["facts"].items()
                                                if k not in ("binop_table",)}, default=str)[:700])


def make_programs(ctx: Ctx):
    rng = ctx.rng
    thorough = ctx.tier == "thorough"
    nprog = 1500 if thorough else 170
    progs = [dict(c) for c in SEEDS]
    for e in ctx.known_findings + ctx.fixed_findings:
        if "witness" in e:
            progs.append({k: e["witness"][k] for k in ("w", "n", "ops", "ret")})
    seen = {prog_key(c) for c in progs}
    while len(progs) < nprog:
        c = gen_program(rng, thorough)
        if prog_key(c) not in seen:
            seen.add(prog_key(c))
            progs.append(c)
    return progs


def make_cases(ctx: Ctx):
    """programs of this run with argument vectors for those the pipeline accepts (used by mutation experiments)"""
    progs = make_programs(ctx)
    nvec = 6 if ctx.tier == "thorough" else 4
    cases = []
    for c in progs:
        d = dict(c)
        d["vecs"] = gen_vecs(ctx.rng, c, nvec) if compile_case(c)["status"] == "ok" else []
        cases.append(d)
    return progs, cases


def run(ctx: Ctx):
    rng = ctx.rng
    thorough = ctx.tier == "thorough"
    nvec = 6 if thorough else 4
    progs = make_programs(ctx)
    stats = {"accepted": 0, "rejected": {}, "unmodelled": 0, "widths": {}, "nargs": {}, "uncovered_lines": 0,
             "emitted_lines": 0, "with_prologue": 0, "with_stack_loads": 0}
    ok_cases, oracle_only, unmodelled = [], [], []
    for c in progs:
        r = compile_case(c)
        stats["widths"][str(c["w"])] = stats["widths"].get(str(c["w"]), 0) + 1
        stats["nargs"][str(c["n"])] = stats["nargs"].get(str(c["n"]), 0) + 1
        if r["status"] == "ok":
            stats["accepted"] += 1
            stats["emitted_lines"] += len(r["asm"]) + len(r["uncovered"])
            stats["uncovered_lines"] += len(r["uncovered"])
            stats["with_prologue"] += any(i[0] == I_PUSH for i in r["asm"])
            stats["with_stack_loads"] += any(i[0] == I_LOAD for i in r["asm"])
            if r["unmodelled"]:
                stats["unmodelled"] += 1
                unmodelled.append({"case": c, "why": r["unmodelled"]})
                oracle_only.append(c)
            else:
                ok_cases.append(c)
        else:
            k = f"{r['exc']}@{r['stage']}"
            stats["rejected"][k] = stats["rejected"].get(k, 0) + 1
    ctx.coverage["programs"] = stats
    ctx.coverage["uncovered_fraction_of_emitted_lines"] = (
        round(stats["uncovered_lines"] / stats["emitted_lines"], 4) if stats["emitted_lines"] else 0.0)
    if unmodelled:
        # never the case on the tree this model was written for: the model no longer describes what is emitted
        ctx.coverage["outside_modelled_subset"] = to_jsonable(unmodelled[:5])
        ctx.broken.append({"correspondence": FAMILY, "programs_outside_the_modelled_subset": len(unmodelled),
                           "first": to_jsonable(unmodelled[0])})
    ctx.coverage["modelled_code_version"] = dict(zip(("prologue_shifts_stack_offsets", "selects_callee_saved_by_index",
                                                           "refuses_8bit_imul"), code_version()))

    # one family, one coqc round: [lowering, emission, execution] per program (0 = not applicable)
    cases, extra = [], []
    okset = {prog_key(c) for c in ok_cases}
    ooset = {prog_key(c) for c in oracle_only}
    for c in progs:
        d = dict(c)
        d["vecs"] = gen_vecs(rng, c, nvec) if prog_key(c) in okset | ooset else []
        (extra if prog_key(c) in ooset else cases).append(d)
    for e in ctx.known_findings + ctx.fixed_findings:
        if "witness" in e:
            d = dict(e["witness"])
            (extra if compile_case(d).get("unmodelled") else cases).append(d)
    workdir = ctx.tmpdir() / "native"
    native_batch([c for c in cases + extra if c["vecs"]], workdir)
    nat = _NATIVE["obj"]
    if nat is None or not nat.available:
        ctx.broken.append({"oracle": "gcc/as not available: the native oracle cannot run"})
    else:
        ctx.coverage["native"] = {"calls": len(_NATIVE["results"]), "texts_not_assembling": len(nat.noasm),
                                  "argument_vectors_per_program": nvec}
    differential(ctx, DiffSpec(FAMILY, REQ, cases, pipeline_impl, pipeline_expr, pipeline_holds,
                               pipeline_known, pipeline_nontrivial, shard=40 if thorough else 30))
    # accepted programs outside the modelled subset: no model to compare with, the native oracle still judges them
    if extra:
        active, fails, hits = ctx.active_known_ids(), [], {}
        for c in extra:
            res = to_jsonable(execution_impl(c))
            ok, why = execution_holds(c, res)
            ctx.evaluations += 1
            if not ok:
                kid = execution_known(c, res)
                if kid and kid in active:
                    hits[kid] = hits.get(kid, 0) + 1
                else:
                    fails.append((c, res, why))
        ctx.coverage["oracle_only"] = {"cases": len(extra), "oracle_failures": len(fails), "known_finding_hits": hits}
        if fails:
            fails.sort(key=lambda x: len(json.dumps(x[0])))
            c, res, why = fails[0]
            ctx.violation({"family": "oracle-only (outside the modelled subset)", "case": c, "impl_result": res,
                           "oracle": why, "other_failing_cases": len(fails) - 1})
    replay_findings(ctx, FAMILY, pipeline_impl, pipeline_holds)
    ctx.coverage["rule"] = __doc__.split("\n\n", 1)[1][:2400]
