"""C22 -- independent RV32 instruction-level reference (python), used ONLY as the statement-level oracle.

Nothing here is derived from the Coq model or from xDSL's own riscv interpreter: the semantics are written
from the RISC-V unprivileged ISA manual (RV32I + M + the Zbs/Zbb immediates that the rv32 dialect has).
Register values are python ints in [0, 2^32); float registers hold opaque 64-bit patterns (only moved,
loaded and stored by the code under test here).

Two executors share `alu`:
  * `run_ssa`  -- executes an SSA snippet (list of nodes, see c22_snip.py for the node encoding) on given values
                  of the free (`arg`) values and an initial byte memory; returns the values of the roots and the
                  trace of stores.
  * `run_asm`  -- executes the assembly text printed by `-t riscv-asm` on a register file + byte memory,
                  honouring labels, branches and `ret`.
"""
from __future__ import annotations

M32 = 1 << 32


def u32(x: int) -> int:
    return x & 0xFFFFFFFF


def s32(x: int) -> int:
    x &= 0xFFFFFFFF
    return x - M32 if x & 0x80000000 else x


def alu(name: str, x: int, y: int) -> int:
    """Result of the RV32 instruction `name` on register value x and second operand y (a register value for
    R-type, the already sign-extended-and-wrapped immediate for I-type, the shift amount for shift-immediates)."""
    x, y = u32(x), u32(y)
    if name in ("add", "addi"):
        return u32(x + y)
    if name == "sub":
        return u32(x - y)
    if name == "mul":
        return u32(x * y)
    if name == "mulh":
        return u32((s32(x) * s32(y)) >> 32)
    if name == "mulhu":
        return u32((x * y) >> 32)
    if name in ("and", "andi"):
        return x & y
    if name in ("or", "ori"):
        return x | y
    if name in ("xor", "xori"):
        return x ^ y
    if name in ("sll", "slli"):
        return u32(x << (y & 31))
    if name in ("srl", "srli"):
        return x >> (y & 31)
    if name in ("sra", "srai"):
        return u32(s32(x) >> (y & 31))
    if name in ("slt", "slti"):
        return 1 if s32(x) < s32(y) else 0
    if name in ("sltu", "sltiu"):
        return 1 if x < y else 0
    if name == "div":
        a, b = s32(x), s32(y)
        if b == 0:
            return u32(-1)
        if a == -(1 << 31) and b == -1:
            return u32(a)
        q = abs(a) // abs(b)
        return u32(q if (a < 0) == (b < 0) else -q)
    if name == "divu":
        return u32(-1) if y == 0 else x // y
    if name == "rem":
        a, b = s32(x), s32(y)
        if b == 0:
            return u32(a)
        if a == -(1 << 31) and b == -1:
            return 0
        r = abs(a) % abs(b)
        return u32(r if a >= 0 else -r)
    if name == "remu":
        return x if y == 0 else x % y
    if name == "bclri":
        return x & ~(1 << (y & 31)) & 0xFFFFFFFF
    if name == "bexti":
        return (x >> (y & 31)) & 1
    if name == "binvi":
        return x ^ (1 << (y & 31))
    if name == "bseti":
        return x | (1 << (y & 31))
    if name == "rori":
        k = y & 31
        return u32((x >> k) | (x << (32 - k))) if k else x
    raise KeyError(name)


# ---------------------------------------------------------------------------------------------------
# SSA snippets (canonicalization kernel).  Node = [id, rd, opc, a, b, imm]  (see c22.py OPC table)

BIN = {10: "add", 11: "sub", 12: "mul", 13: "div", 14: "and", 15: "or", 16: "xor", 17: "sll", 18: "srl",
       19: "sra", 20: "slt", 21: "sltu", 22: "divu", 23: "rem", 24: "remu"}
IMM = {30: "addi", 31: "andi", 32: "ori", 33: "xori", 34: "slti", 35: "sltiu"}
SHI = {40: "slli", 41: "srli", 42: "srai", 43: "bclri", 44: "bexti", 45: "binvi", 46: "bseti", 47: "rori"}
LOADS = {50: 4, 51: 4, 52: 8}
STORES = {60: 4, 61: 4, 62: 8}


class SsaError(Exception):
    pass


def run_ssa(nodes, roots, argvals, byte0):
    """argvals: id -> value of the free values; byte0: address -> initial byte of memory.
    Returns (values of roots, list of stores (size, address, value)).  Memory is byte-addressed, little-endian,
    addresses wrap at 2^32; a float load of 4 bytes is NaN-boxed."""
    env = {}
    mem = {}
    stores = []

    def load(addr, n):
        v = 0
        for k in range(n):
            a = u32(addr + k)
            v |= (mem[a] if a in mem else byte0(a) & 0xFF) << (8 * k)
        return v

    for nid, rd, opc, a, b, imm in nodes:
        if opc == 0:
            v = argvals[nid]
        elif opc == 1:
            v = 0
        elif opc == 2:
            v = u32(imm)
        elif opc == 3:
            v = env[a]
        elif opc in BIN:
            v = alu(BIN[opc], env[a], env[b])
        elif opc in IMM:
            if not -2048 <= imm < 2048:
                raise SsaError("immediate does not fit 12 bits")
            v = alu(IMM[opc], env[a], u32(imm))
        elif opc in SHI:
            if not 0 <= imm < 32:
                raise SsaError("shift amount")
            v = alu(SHI[opc], env[a], imm)
        elif opc in LOADS:
            if not -2048 <= imm < 2048:
                raise SsaError("offset does not fit 12 bits")
            v = load(u32(env[a] + imm), LOADS[opc])
            if opc == 51:
                v |= 0xFFFFFFFF << 32
        elif opc in STORES:
            if not -2048 <= imm < 2048:
                raise SsaError("offset does not fit 12 bits")
            n = STORES[opc]
            addr = u32(env[a] + imm)
            val = env[b] & ((1 << (8 * n)) - 1)
            stores.append((n, addr, val))
            for k in range(n):
                mem[u32(addr + k)] = (val >> (8 * k)) & 0xFF
            v = None
        else:
            raise SsaError(f"opcode {opc}")
        if rd == 0 and opc not in STORES:
            # a result typed !riscv.reg<zero> reads as 0 afterwards (x0 is hard-wired)
            v = 0
        env[nid] = v
    return [env[r] for r in roots], stores


# ---------------------------------------------------------------------------------------------------
# Assembly text (pipeline oracle and prologue/epilogue kernel)

XREG = {"zero": 0, "ra": 1, "sp": 2, "gp": 3, "tp": 4, "t0": 5, "t1": 6, "t2": 7, "s0": 8, "fp": 8, "s1": 9,
        **{f"a{i}": 10 + i for i in range(8)}, **{f"s{i}": 16 + i for i in range(2, 12)},
        "t3": 28, "t4": 29, "t5": 30, "t6": 31, **{f"x{i}": i for i in range(32)}}
FREG = {**{f"ft{i}": i for i in range(8)}, "fs0": 8, "fs1": 9, **{f"fa{i}": 10 + i for i in range(8)},
        **{f"fs{i}": 16 + i for i in range(2, 12)}, "ft8": 28, "ft9": 29, "ft10": 30, "ft11": 31,
        **{f"f{i}": i for i in range(32)}}
CALLEE_SAVED_X = [8, 9] + list(range(18, 28))
CALLEE_SAVED_F = [8, 9] + list(range(18, 28))


class AsmError(Exception):
    """The assembly uses something this reference machine does not implement (counted as skipped)."""


class AsmInvalid(Exception):
    """The assembly contains an instruction that no RV32 assembler could encode (immediate out of range)."""


class Machine:
    def __init__(self, x, f, mem):
        self.x = list(x)
        self.f = list(f)
        self.mem = dict(mem)      # byte address -> byte
        self.steps = 0
        self.trace = []           # stores (address, size)

    def setx(self, r, v):
        if r != 0:
            self.x[r] = u32(v)

    def load(self, addr, n):
        return sum(self.mem.get(u32(addr + k), 0) << (8 * k) for k in range(n))

    def store(self, addr, n, v):
        self.trace.append((u32(addr), n))
        for k in range(n):
            self.mem[u32(addr + k)] = (v >> (8 * k)) & 0xFF


# ---- floats: f registers hold 64-bit patterns; an f32 value is NaN-boxed (upper 32 bits all ones)
import struct as _struct

QNAN64 = 0x7FF8000000000000
QNAN32 = 0x7FC00000
BOX = 0xFFFFFFFF << 32


def d2bits(x: float) -> int:
    return _struct.unpack("<Q", _struct.pack("<d", x))[0]


def bits2d(b: int) -> float:
    return _struct.unpack("<d", _struct.pack("<Q", b & 0xFFFFFFFFFFFFFFFF))[0]


def bits2s(b: int) -> float:
    return _struct.unpack("<f", _struct.pack("<I", b & 0xFFFFFFFF))[0]


def round_s(x: float) -> int:
    """bits of the binary32 nearest (ties to even) to the double x; overflow -> infinity; NaN -> canonical"""
    if x != x:
        return QNAN32
    try:
        return _struct.unpack("<I", _struct.pack("<f", x))[0]
    except OverflowError:
        return 0x7F800000 if x > 0 else 0xFF800000


def unbox(b: int) -> int:
    return b & 0xFFFFFFFF if (b >> 32) == 0xFFFFFFFF else QNAN32


def fop_d(op: str, a: int, b: int) -> int:
    x, y = bits2d(a), bits2d(b)
    r = {"fadd.d": lambda: x + y, "fsub.d": lambda: x - y, "fmul.d": lambda: x * y}[op]()
    return QNAN64 if r != r else d2bits(r)


def fop_s(op: str, a: int, b: int) -> int:
    x, y = bits2s(unbox(a)), bits2s(unbox(b))
    # the double result of +,-,* on two binary32 values rounds correctly to binary32 (53 >= 2*24+2)
    r = {"fadd.s": lambda: x + y, "fsub.s": lambda: x - y, "fmul.s": lambda: x * y}[op]()
    return BOX | round_s(r)


def _imm(tok: str) -> int:
    try:
        return int(tok, 0)
    except ValueError:
        raise AsmError(f"immediate {tok!r}")


def parse_asm(text: str):
    """-> (instructions [(mnemonic, [operand tokens])], labels {name: index})"""
    ins, labels = [], {}
    for raw in text.split("\n"):
        line = raw.split("#", 1)[0].strip()
        if not line or line.startswith("."):
            continue
        if line.endswith(":"):
            labels[line[:-1].strip()] = len(ins)
            continue
        parts = line.split(None, 1)
        ops = [t.strip() for t in parts[1].split(",")] if len(parts) > 1 else []
        ins.append((parts[0], ops))
    return ins, labels


def _memop(tok: str):
    # "off(reg)"
    if not tok.endswith(")") or "(" not in tok:
        raise AsmError(f"memory operand {tok!r}")
    off, reg = tok[:-1].split("(", 1)
    o = _imm(off or "0")
    if not -2048 <= o < 2048:
        raise AsmInvalid(f"offset {o} does not fit 12 bits")
    return o, xr(reg)


def xr(tok):
    if tok not in XREG:
        raise AsmError(f"integer register {tok!r}")
    return XREG[tok]


def fr(tok):
    if tok not in FREG:
        raise AsmError(f"float register {tok!r}")
    return FREG[tok]


R3 = {"add", "sub", "mul", "mulh", "mulhu", "and", "or", "xor", "sll", "srl", "sra", "slt", "sltu", "div", "divu",
      "rem", "remu"}
I3 = {"addi", "andi", "ori", "xori", "slti", "sltiu"}
S3 = {"slli", "srli", "srai", "bclri", "bexti", "binvi", "bseti", "rori"}
BR = {"beq": lambda a, b: a == b, "bne": lambda a, b: a != b,
      "blt": lambda a, b: s32(a) < s32(b), "bge": lambda a, b: s32(a) >= s32(b),
      "bltu": lambda a, b: a < b, "bgeu": lambda a, b: a >= b}


def run_asm(text: str, entry: str, m: Machine, max_steps: int = 200000):
    """Run from label `entry` until `ret` (jump to ra).  Raises AsmError on anything unknown."""
    ins, labels = parse_asm(text)
    if entry not in labels:
        raise AsmError(f"no label {entry}")
    pc = labels[entry]
    while True:
        if pc >= len(ins):
            raise AsmError("fell off the end of the text")
        m.steps += 1
        if m.steps > max_steps:
            raise AsmInvalid("does not return within the step budget (the source program has < 100 loop iterations)")
        op, a = ins[pc]
        pc += 1
        if op == "ret":
            return m
        if op in R3:
            m.setx(xr(a[0]), alu(op, m.x[xr(a[1])], m.x[xr(a[2])]))
        elif op in I3:
            imm = _imm(a[2])
            if not -2048 <= imm < 2048:
                raise AsmInvalid(f"{op}: immediate {imm} does not fit 12 bits")
            m.setx(xr(a[0]), alu(op, m.x[xr(a[1])], u32(imm)))
        elif op in S3:
            k = _imm(a[2])
            if not 0 <= k < 32:
                raise AsmInvalid(f"{op}: shift amount {k}")
            m.setx(xr(a[0]), alu(op, m.x[xr(a[1])], k))
        elif op == "li":
            v = _imm(a[1])
            if not -(1 << 31) <= v < (1 << 32):
                raise AsmInvalid(f"li: {v} is not a 32-bit value")
            m.setx(xr(a[0]), v)
        elif op == "mv":
            m.setx(xr(a[0]), m.x[xr(a[1])])
        elif op == "seqz":
            m.setx(xr(a[0]), 1 if m.x[xr(a[1])] == 0 else 0)
        elif op == "snez":
            m.setx(xr(a[0]), 1 if m.x[xr(a[1])] != 0 else 0)
        elif op == "neg":
            m.setx(xr(a[0]), -m.x[xr(a[1])])
        elif op == "not":
            m.setx(xr(a[0]), ~m.x[xr(a[1])])
        elif op in ("fmv.s", "fmv.d"):
            m.f[fr(a[0])] = m.f[fr(a[1])]
        elif op == "fmv.w.x":
            m.f[fr(a[0])] = BOX | m.x[xr(a[1])]
        elif op == "fmv.x.w":
            m.setx(xr(a[0]), m.f[fr(a[1])] & 0xFFFFFFFF)
        elif op == "fcvt.d.w":
            m.f[fr(a[0])] = d2bits(float(s32(m.x[xr(a[1])])))       # every int32 is exact in binary64
        elif op == "fcvt.s.w":
            m.f[fr(a[0])] = BOX | round_s(float(s32(m.x[xr(a[1])])))
        elif op in ("fadd.d", "fsub.d", "fmul.d"):
            m.f[fr(a[0])] = fop_d(op, m.f[fr(a[1])], m.f[fr(a[2])])
        elif op in ("fadd.s", "fsub.s", "fmul.s"):
            m.f[fr(a[0])] = fop_s(op, m.f[fr(a[1])], m.f[fr(a[2])])
        elif op == "lw":
            off, base = _memop(a[1])
            m.setx(xr(a[0]), m.load(m.x[base] + off, 4))
        elif op == "sw":
            off, base = _memop(a[1])
            m.store(m.x[base] + off, 4, m.x[xr(a[0])])
        elif op == "fld":
            off, base = _memop(a[1])
            m.f[fr(a[0])] = m.load(m.x[base] + off, 8)
        elif op == "fsd":
            off, base = _memop(a[1])
            m.store(m.x[base] + off, 8, m.f[fr(a[0])])
        elif op == "flw":
            off, base = _memop(a[1])
            m.f[fr(a[0])] = m.load(m.x[base] + off, 4) | (0xFFFFFFFF << 32)   # NaN-boxed
        elif op == "fsw":
            off, base = _memop(a[1])
            m.store(m.x[base] + off, 4, m.f[fr(a[0])] & 0xFFFFFFFF)
        elif op in BR:
            if a[2] not in labels:
                raise AsmError(f"label {a[2]}")
            if BR[op](m.x[xr(a[0])], m.x[xr(a[1])]):
                pc = labels[a[2]]
        elif op == "j":
            if a[0] not in labels:
                raise AsmError(f"label {a[0]}")
            pc = labels[a[0]]
        elif op == "nop":
            pass
        else:
            raise AsmError(f"instruction {op}")
