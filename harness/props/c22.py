"""C22 -- RISC-V backend output computes the source results and keeps callee state; RISC-V canonicalization
alone never changes results.

Three parts (see META for what is proved and what is only tested):

 1. CANONICALIZATION KERNEL (proved).  coq/C22/Model.v transcribes 35 of the 37 pattern classes of
    xdsl/transforms/canonicalization_patterns/riscv.py (table at the top of Model.v) plus the greedy driver and
    region_dce on straight-line snippets.  Families `single-pattern` (ONE application of ONE pattern class through a
    bare PatternRewriter, no driver) and `canonicalize` (the REAL `canonicalize` pass) compare the rewritten op list
    -- or the exception class and the pattern class that raised -- with the model's.  Snippets: 1-2 free integer
    values (+ a float value), `rv32.li` constants at boundary values (0, +-1, 2047, +-2048, 2049, 4095, 5000, 46341,
    65536, 2^31-1, -2^31, 2^32-1 ...), an optional inner addi/xori/mv, 1-3 root ops of every op kind that has a
    pattern, register types unallocated / allocated / infinite.  Oracle: harness/props/c22_rv.py, an independent
    RV32 instruction-level interpreter, runs the snippet before and after on random register values and compares
    every observed value and the trace of stores; a pass that raises on a verified module is an oracle failure.
 2. PIPELINE ORACLE (tested only).  Generated func/arith/scf programs (i32) -> the documented pipeline
    -> `riscv-asm` text -> executed by the assembly interpreter of c22_rv.py on random arguments -> compared with an
    independent evaluation of the source; sp and s0-s11 must be restored.  Family `pipeline-float`: f32/f64
    arith.constant at boundary values (+-0, integral values around +-2^31, 2^32, 2^53, non-integral, denormal, +-inf,
    quiet NaNs with payload) returned as is, summed, or added to a float argument; the bit pattern in fa0 is compared.
 3. PROLOGUE/EPILOGUE KERNEL (proved).  Model of PrologueEpilogueInsertion: the inserted op list of the real pass on
    generated pre-allocated riscv_func functions is compared with the model's; the emitted assembly is also run.

Non-trivial: a case where a rewrite fired (result differs from the input) or the pass raised; distinct = distinct
(pattern or op kinds, outcome kind, boundary constants) key.
"""
from __future__ import annotations

import hashlib
import json
import random

from harness.common import (Ctx, DiffSpec, coq_Z, coq_bool, coq_list, differential, replay_findings)
from harness.props import c22_rv as rv
from harness.props.c22_snip import (ARG, BIN, GETZ, IMM, LI, LOAD, MV, PATTERNS, NOT_MODELLED, SHI, STORE,
                                    apply_pattern_case, canonicalize_case)

META = {
    "id": "C22",
    "title": "RISC-V backend output computes the source results and keeps callee state; canonicalization never changes results",
    "design_ref": "DESIGN.md section 8.C22",
    "technique": ("Coq proof of every modelled riscv canonicalization pattern (guard -> RV32 semantics preserved and "
                  "the rewritten op is encodable) and of the prologue/epilogue frame code on a byte-level stack "
                  "machine + model-vs-code correspondence on boundary-constant snippets + an independent RV32 "
                  "instruction-level interpreter as oracle for the whole lowering pipeline"),
    "level_text": (
        "PROVED (coq/Props/C22.v), pattern by pattern, for 35 of the 37 pattern classes of canonicalization_patterns/"
        "riscv.py and for ALL register values, memories and preceding definitions: whenever a pattern rewrites, the "
        "replacement defines the same 32-bit value / performs the same store at the same address, leaves memory equal, "
        "defines only fresh values and every op it builds is encodable (immediates in range) -- C22_canon_sound_partial, "
        "valid for ANY code version including the unchanged tree, excluding exactly the two value-changing rewrites "
        "named by `miscompiles`; for the tree with the five proposed repairs the FULL statement holds "
        "(C22_canon_sound_repaired: additionally no pattern raises, C22_canon_no_raise_repaired). The UNCHANGED tree "
        "refutes the full statement (C22_canon_sound_refuted and one theorem per defect class, each witness replayed on "
        "the real code every run): AddImmediates/SubImmediates build addi with an immediate outside si12 "
        "(C22_addi_range_refuted) and constant folds are not truncated to 32 bits (C22_li_fold_refuted) -- the op "
        "constructor raises VerifyException and `canonicalize` aborts on a valid module; ShiftbyZero rewrites "
        "bclri/bexti/binvi/bseti x,0 to mv x (C22_shift_by_zero_refuted, wrong value); the *WithKnownOffset patterns "
        "wrap a combined float-access offset in [2048,4096) to a negative one (wrong address) and raise outside "
        "(C22_mem_offset_refuted); BitwiseAndByZero/BitwiseXorByZero replace an erased op when both operands are zero "
        "(C22_double_replace_refuted, ValueError). PROVED for PrologueEpilogueInsertion on a byte-addressed stack machine "
        "with wrapping addresses: for every list of written registers, any slot widths, EVERY body (arbitrary state "
        "transformer) that hands back sp and the frame bytes and writes no callee-saved register the pass did not see: "
        "sp and all of s0-s11/fs0-fs11 have their entry values after prologue; body; epilogue (C22_sp_restored, "
        "C22_callee_saved); the saved set is duplicate-free and complete (C22_used_callee_saved_spec) and with xlen=4, "
        "flen=8 the frame is at most 144 bytes, so the sp adjustment is encodable (C22_frame_size_bound). TIE, every "
        "run: model-vs-code differential (one application of each real pattern class; the real `canonicalize` pass vs "
        "the modelled greedy driver + dce; the op list inserted by the real PrologueEpilogueInsertion) with an "
        "independent RV32 instruction-level interpreter as statement-level oracle. TESTED ONLY (no Coq model): the "
        "convert-arith-to-riscv op table and the whole func/arith/scf -> riscv-asm pipeline, executed on the same "
        "interpreter and compared with an independent evaluation of the source (results, sp, callee-saved registers)."),
    "level_note": (
        "Trusted: Coq kernel; the hand-written model (SSA value semantics, abstract memory; RV32 only) and its "
        "correspondence harness; the python RV32 interpreter used as oracle. Not covered by proof: FuseMultiplyAddD "
        "(float fmadd fusion), ScfgwOpUsingImmediate (snitch), the rv64 instantiations, label immediates, ops that "
        "write a non-zero value to x0; soundness of the modelled greedy driver / dce as a whole (it is only tied to "
        "the real pass by the differential; each step is a proved pattern application; explicit fuel, OutOfFuel "
        "never observed); arith/func/scf lowerings, riscv_scf->riscv_cf, register allocation (C19) and parallel-move "
        "lowering (C20: its width handling on cycles with free registers is decided by ./check C20, not here) -- "
        "exercised only by the pipeline oracle; i1 function results and arith.select are rejected by "
        "the pipeline itself (counted as skipped); memref/snitch lowerings not at all."),
}
COQ_TARGETS = ["C22/Enc.vo", "C22/ProofsArith.vo", "C22/Proofs.vo", "C22/ProofsPat.vo", "C22/ProofsMore.vo",
               "C22/ProofsFrame.vo", "Props/C22.vo"]
REQ = ["C22.Model", "C22.Enc"]
ASSUMPTIONS = [
    "SSA value semantics: a snippet op is judged by the value it defines (register allocation is C19's subject)",
    "immediates of the input ops are in the range their attribute type allows (the op verifier checks this)",
]
TRUSTED = ["independent RV32 interpreter harness/props/c22_rv.py (oracle only)"]

# Which of the proposed repairs build/proposed_fixes/C22-1..5.diff the tree under test contains
# (fix_addi, fix_li, fix_shz, fix_mem, fix_dbl).  Unchanged tree: all False.  ONE-LINE switch after the fixes land.
MODEL_VERSION = (True, True, True, True, True)   # /repo contains fix commits e30b172, 252b924, 5d86f10, 85b338c, 9f72f1d


def coq_ver():
    return "(mkver " + " ".join(coq_bool(b) for b in MODEL_VERSION) + ")"


# ---------------------------------------------------------------------------------------------------- generators
H31 = 1 << 31
BOUNDS = [0, 1, 2, 3, -1, -2, 5, 7, 100, 2047, 2048, -2048, -2049, 2049, 4095, 4096, 5000, -5000, 65535, 65536,
          46341, -46341, H31 - 1, -H31, (1 << 32) - 1, H31, 1 << 30, -(1 << 30), 0x7FFFF800, 0x55555555, 0xAAAAAAAA,
          -H31 + 1, 0x40000000, 3 << 30]
IMMS = [0, 1, -1, 2, 7, 2047, -2048, 1024, -1024, 2046, -2047, 4, 8, 0x555, -0x556, 1000, 1048]
SHAMT = [0, 1, 2, 5, 15, 16, 30, 31]


def norm32(c):
    return ((c + H31) % (1 << 32)) - H31


class Snip:
    def __init__(self, rng):
        self.rng = rng
        self.nodes = []
        self.next = 0
        self.ints, self.floats, self.consts = [], [], []
        self.used = set()

    def add(self, rd, opc, a=0, b=0, imm=0):
        self.nodes.append([self.next, rd, opc, a, b, imm])
        self.next += 1
        return self.next - 1

    def rdty(self):
        r = self.rng.random()
        if r < 0.75:
            return -1
        if r < 0.9:
            return self.rng.choice([5, 6, 10, 11, 28])
        return 100 + self.rng.randint(0, 2)

    def args(self, nint, nfloat):
        for _ in range(nint):
            self.ints.append(self.add(self.rdty(), ARG, 0))
        for _ in range(nfloat):
            self.floats.append(self.add(self.rng.choice([-1, -1, 10, 11]), ARG, 1))

    def const(self, c=None, through_mv=None):
        rng = self.rng
        if c is None:
            c = rng.choice(BOUNDS) if rng.random() < 0.8 else rng.randint(-H31, (1 << 32) - 1)
        c = norm32(c)
        if c == 0 and rng.random() < 0.3:
            v = self.add(0, GETZ)
        else:
            v = self.add(self.rdty() if c or rng.random() < 0.8 else 0, LI, imm=c)
        if through_mv if through_mv is not None else rng.random() < 0.15:
            v = self.add(self.rdty(), MV, v, 0)
        self.consts.append(v)
        return v

    def pick(self, want_const=None):
        rng = self.rng
        if want_const is True or (want_const is None and self.consts and rng.random() < 0.45):
            v = rng.choice(self.consts) if self.consts and rng.random() < 0.7 else self.const()
        else:
            v = rng.choice(self.ints)
        self.used.add(v)
        return v

    def case(self, obs, extra=None):
        rng = self.rng
        roots = [v for v in obs if v not in self.used or rng.random() < 0.3]
        for n in self.nodes:
            if n[2] != ARG and n[2] not in STORE and n[0] not in self.used and n[0] not in roots:
                roots.append(n[0])
        c = {"nodes": self.nodes, "roots": roots}
        if extra:
            c.update(extra)
        return c


def gen_random(rng):
    s = Snip(rng)
    s.args(rng.randint(1, 2), 1 if rng.random() < 0.4 else 0)
    for _ in range(rng.randint(0, 3)):
        s.const(0 if rng.random() < 0.15 else None)
    obs = []
    for _ in range(rng.randint(1, 3)):
        kind = rng.choices(["bin", "imm", "sh", "mv", "load", "store", "li"], [30, 22, 18, 6, 8, 8, 3])[0]
        if kind == "bin":
            opc = rng.choice([10, 10, 11, 11, 12, 12, 13, 14, 15, 16, 14, 15, 16, 17, 18, 19, 20, 21])
            a = s.pick()
            b = a if rng.random() < 0.2 else s.pick()
            v = s.add(s.rdty(), opc, a, b)
        elif kind == "imm":
            v = s.add(s.rdty(), rng.choice([30, 30, 31, 32, 33, 33, 33, 34, 35]), s.pick(), 0, rng.choice(IMMS))
        elif kind == "sh":
            opc = rng.choice(list(SHI))
            k = rng.choice(SHAMT)
            if k == 0 and opc in (43, 44, 45, 46) and rng.random() < 0.7:
                k = 3           # keep the known bit-manip/shift-by-zero miscompile to a small share of the cases
            v = s.add(s.rdty(), opc, s.pick(), 0, k)
        elif kind == "mv":
            if s.floats and rng.random() < 0.4:
                src = rng.choice(s.floats)
                s.used.add(src)
                v = s.add(s.nodes[src][1] if rng.random() < 0.5 else rng.choice([-1, 10, 12]), MV, src,
                          rng.choice([1, 2]))
                s.floats.append(v)
                obs.append(v)
                continue
            src = s.pick()
            v = s.add(s.nodes[src][1] if rng.random() < 0.5 else s.rdty(), MV, src, 0)
        elif kind == "load":
            opc = rng.choice([50, 51, 52])
            v = s.add(rng.choice([-1, -1, 10]), opc, s.pick(), 0, rng.choice(IMMS))
            if opc != 50:
                s.floats.append(v)
                obs.append(v)
                continue
        elif kind == "store":
            opc = rng.choice([60, 61, 62])
            if opc == 60:
                s.add(-1, opc, s.pick(), s.pick(), rng.choice(IMMS))
            elif s.floats:
                f = rng.choice(s.floats)
                s.used.add(f)
                s.add(-1, opc, s.pick(), f, rng.choice(IMMS))
            continue
        else:
            v = s.const()
            obs.append(v)
            continue
        s.ints.append(v)
        obs.append(v)
    return s.case(obs)


def gen_for_pattern(rng, pat):
    """A snippet whose last op is a candidate for pattern class `pat` (guard satisfied most of the time)."""
    name = PATTERNS[pat]
    s = Snip(rng)
    s.args(2, 1)
    x, y = s.ints[0], s.ints[1]
    f = s.floats[0]
    often = rng.random() < 0.85

    def inner(opc, imm=None):
        v = s.add(s.rdty(), opc, rng.choice([x, y]), 0, rng.choice(IMMS) if imm is None else imm)
        s.ints.append(v)
        return v

    def cst(c=None):
        v = s.const(c)
        s.used.add(v)
        return v

    extra_obs = []
    if name in ("RemoveRedundantMv", "RemoveRedundantFMv", "RemoveRedundantFMvD"):
        k = {"RemoveRedundantMv": 0, "RemoveRedundantFMv": 1, "RemoveRedundantFMvD": 2}[name]
        src = f if k else rng.choice([x, y, cst()])
        srd = s.nodes[src][1]
        rd = srd if often else rng.choice([-1, 10, 5, 101])
        v = s.add(rd, MV, src, k)
    elif name == "MultiplyImmediates":
        a = cst(rng.choice([0, 1, None, None])) if rng.random() < 0.6 else x
        b = cst(rng.choice([0, 1, None, None])) if rng.random() < 0.7 else y
        v = s.add(s.rdty(), 12, a, b)
    elif name == "DivideByOneIdentity":
        v = s.add(s.rdty(), 13, rng.choice([x, cst()]), cst(1 if often else None))
    elif name in ("AddImmediates", "SubImmediates"):
        a = cst() if rng.random() < 0.5 else x
        b = cst() if rng.random() < 0.75 else y
        v = s.add(s.rdty(), 10 if name == "AddImmediates" else 11, a, b)
    elif name == "AddImmediateZero":
        v = s.add(s.rdty(), 30, rng.choice([x, cst()]), 0, 0 if often else rng.choice(IMMS))
    elif name == "AddImmediateConstant":
        v = s.add(s.rdty(), 30, cst() if often else x, 0, rng.choice(IMMS))
    elif name in ("SubBySelf", "XorBySelf", "BitwiseAndBySelf", "BitwiseOrBySelf",
                  "AdditionOfSameVariablesToMultiplyByTwo"):
        opc = {"SubBySelf": 11, "XorBySelf": 16, "BitwiseAndBySelf": 14, "BitwiseOrBySelf": 15,
               "AdditionOfSameVariablesToMultiplyByTwo": 10}[name]
        a = rng.choice([x, x, cst()])
        v = s.add(s.rdty(), opc, a, a if often else y)
    elif name == "SubAddi":
        base = rng.choice([x, y])
        i = s.add(s.rdty(), 30, base, 0, rng.choice(IMMS))
        s.ints.append(i)
        if rng.random() < 0.3:
            extra_obs.append(i)
        v = s.add(s.rdty(), 11, i, base if often else rng.choice([x, y]))
    elif name in ("AndiImmediate", "OriImmediate", "XoriImmediate"):
        opc = {"AndiImmediate": 31, "OriImmediate": 32, "XoriImmediate": 33}[name]
        v = s.add(s.rdty(), opc, cst() if often else x, 0, rng.choice(IMMS))
    elif name in ("AndiZero", "OriImmediateZero", "XoriZero"):
        opc = {"AndiZero": 31, "OriImmediateZero": 32, "XoriZero": 33}[name]
        v = s.add(s.rdty(), opc, rng.choice([x, cst()]), 0, 0 if often else rng.choice(IMMS))
    elif name in ("XoriSelfInverse", "XoriOfXori"):
        j = rng.choice(IMMS)
        i = inner(33, j)
        if rng.random() < 0.3:
            extra_obs.append(i)
        v = s.add(s.rdty(), 33, i, 0, j if (name == "XoriSelfInverse") == often else rng.choice(IMMS))
    elif name == "ShiftbyZero":
        v = s.add(s.rdty(), rng.choice(list(SHI)), rng.choice([x, cst()]), 0, 0 if often else rng.choice(SHAMT))
    elif name == "ShiftConstantFolding":
        v = s.add(s.rdty(), rng.choice(list(SHI)), cst() if often else x, 0, rng.choice(SHAMT))
    elif name.endswith("WithKnownOffset"):
        opc = {"LoadWord": 50, "StoreWord": 60, "LoadFloatWord": 51, "StoreFloatWord": 61, "LoadDouble": 52,
               "StoreDouble": 62}[name[:-len("WithKnownOffset")]]
        i = inner(30) if often else x
        if rng.random() < 0.3:
            extra_obs.append(i)
        if opc in LOAD:
            v = s.add(rng.choice([-1, -1, 10]), opc, i, 0, rng.choice(IMMS))
        else:
            v = s.add(-1, opc, i, y if opc == 60 else f, rng.choice(IMMS))
    elif name in ("BitwiseAndByZero", "BitwiseOrByZero", "BitwiseXorByZero"):
        opc = {"BitwiseAndByZero": 14, "BitwiseOrByZero": 15, "BitwiseXorByZero": 16}[name]
        r = rng.random()
        a = cst(0) if r < 0.45 else x
        b = cst(0 if often else None) if 0.3 < r else y
        v = s.add(s.rdty(), opc, a, b)
    elif name == "LoadImmediate0":
        v = s.add(rng.choice([-1, -1, 0, 10, 100]), LI, imm=0 if often else norm32(rng.choice(BOUNDS)))
    else:
        raise KeyError(name)
    nargs = sum(1 for n in s.nodes if n[2] == ARG)
    at = len(s.nodes) - 1 - nargs
    obs = extra_obs + ([v] if s.nodes[-1][2] not in STORE else [])
    return s.case(obs, {"pat": pat, "at": at})


# ---------------------------------------------------------------------------------------------------- model side
def coq_nodes(case):
    return coq_list("N " + " ".join(coq_Z(v) for v in n) for n in case["nodes"])


def canon_expr(case):
    return f"c22_canon {coq_ver()} {coq_nodes(case)} {coq_list(coq_Z(r) for r in case['roots'])}"


def pat_expr(case):
    nargs = sum(1 for n in case["nodes"] if n[2] == ARG)
    return (f"c22_pat {coq_ver()} {coq_Z(case['pat'])} {coq_nodes(case)} "
            f"{coq_list(coq_Z(r) for r in case['roots'])} {coq_Z(nargs + case['at'])}")


# ---------------------------------------------------------------------------------------------------- oracle
def _case_rng(case):
    h = hashlib.sha1(json.dumps([case["nodes"], case["roots"]]).encode()).digest()
    return random.Random(int.from_bytes(h[:8], "big"))


EDGE = [0, 1, 2, 0xFFFFFFFF, 0x7FFFFFFF, 0x80000000, 0xFFFFF800, 0x7FF, 0x800, 0x55555555, 0xFFFFFFFE]


def semantics_equal(case, after_nodes, after_roots, trials=12):
    """Run before/after on random register values with the independent interpreter."""
    r = _case_rng(case)
    args = [n for n in case["nodes"] if n[2] == ARG]
    for t in range(trials):
        vals = {}
        for n in args:
            if n[3] == 1:
                vals[n[0]] = r.getrandbits(64)
            else:
                vals[n[0]] = r.choice(EDGE) if r.random() < 0.4 else r.getrandbits(32)
        salt = r.getrandbits(32)
        byte0 = lambda a, salt=salt: ((a * 2654435761 + salt) >> 7) & 0xFF
        try:
            v0, st0 = rv.run_ssa(case["nodes"], case["roots"], vals, byte0)
        except rv.SsaError as e:
            return False, f"the input snippet is not executable: {e}"
        try:
            v1, st1 = rv.run_ssa(after_nodes, after_roots, vals, byte0)
        except (rv.SsaError, KeyError) as e:
            return False, f"the rewritten snippet is not executable ({e!r})"
        if v0 != v1:
            k = next(i for i, (p, q) in enumerate(zip(v0, v1)) if p != q)
            return False, (f"observed value #{k} changes from {v0[k]:#x} to {v1[k]:#x} for register values "
                           f"{ {a: hex(v) for a, v in vals.items()} }")
        if st0 != st1:
            return False, f"stores change from {st0} to {st1} for register values {vals}"
    return True, ""


def holds(case, res):
    if res[0] == -2:
        return False, f"generator produced an invalid snippet (exception code {res[1]})"
    if res[0] == -1:
        who = PATTERNS[res[2]] if 0 <= res[2] < len(PATTERNS) else "?"
        return False, (f"the rewrite raises (exception code {res[1]}, inside pattern {who}) on a module that "
                       f"verifies: canonicalize aborts instead of preserving the results")
    if res[0] == 1:
        return True, ""
    return semantics_equal(case, res[1], res[2])


# ---- known-finding classes (ids must be listed unfixed in known_findings.d/C22.json to suppress anything)
P = {n: i for i, n in enumerate(PATTERNS)}
LI_FOLDERS = {P["MultiplyImmediates"], P["AddImmediates"], P["AddImmediateConstant"], P["SubImmediates"],
              P["ShiftConstantFolding"]}
MEM_PATS = {P[n] for n in PATTERNS if n.endswith("WithKnownOffset")}


def _py_const(nodes, a):
    """constant reaching value a through li / mv / get_register zero, else None (classification only)"""
    byid = {n[0]: n for n in nodes}
    for _ in range(len(nodes) + 1):
        n = byid.get(a)
        if n is None:
            return None
        if n[2] == LI:
            return n[5]
        if n[2] == GETZ:
            return 0
        if n[2] == MV and n[4] == 0:
            a = n[3]
            continue
        return None
    return None


def _addi_imm(nodes, a):
    """immediate j if value a is (or canonicalizes to) `addi x, j`: an addi, or add/sub with one constant operand"""
    byid = {n[0]: n for n in nodes}
    n = byid.get(a)
    if n is None:
        return None
    if n[2] == 30:
        return n[5]
    if n[2] == 10:
        ca, cb = _py_const(nodes, n[3]), _py_const(nodes, n[4])
        if (ca is None) != (cb is None):
            return ca if cb is None else cb
    if n[2] == 11:
        ca, cb = _py_const(nodes, n[3]), _py_const(nodes, n[4])
        if ca is None and cb is not None:
            return -cb
    return None


def known(case, res):
    nodes = case["nodes"]
    byid = {n[0]: n for n in nodes}
    if res[0] == -1:
        code, pat = res[1], res[2]
        if code == 2 and pat in (P["AddImmediates"], P["SubImmediates"]):
            # which constructor raised?  addi (one constant operand) -> kf-1, li (two constants) -> kf-2
            for n in nodes:
                if n[2] in (10, 11):
                    ca, cb = _py_const(nodes, n[3]), _py_const(nodes, n[4])
                    if (ca is None) != (cb is None):
                        c = ca if cb is None else cb
                        c = -c if n[2] == 11 else c
                        if not -2048 <= c < 2048 and not (n[2] == 11 and cb is None):
                            return "C22-kf-1"
            return "C22-kf-2"
        if code == 2 and pat in LI_FOLDERS:
            return "C22-kf-2"
        if code == 2 and pat in MEM_PATS:
            return "C22-kf-4"
        if code == 3 and pat in (P["BitwiseAndByZero"], P["BitwiseXorByZero"]):
            # a ValueError from inside these two patterns can only be the second rewriter.replace on the erased op
            # (both operands constant zero, possibly after earlier folds)
            if any(n[2] in (14, 16) for n in nodes):
                return "C22-kf-5"
        return None
    if res[0] == 0:
        for n in nodes:
            if n[2] in (43, 44, 45, 46) and n[5] == 0:
                return "C22-kf-3"
        for n in nodes:
            if n[2] in (51, 52, 61, 62):
                j = _addi_imm(nodes, n[3])
                if j is not None and 2048 <= j + n[5] < 4096:
                    return "C22-kf-4"
    return None


def nontrivial(case, res):
    kinds = tuple(sorted({n[2] for n in case["nodes"] if n[2] not in (ARG,)}))
    consts = tuple(sorted({n[5] for n in case["nodes"] if n[2] == LI and (abs(n[5]) >= 2047 or n[5] in (0, 1, -1))}))
    if res[0] == -1:
        return ("raise", case.get("pat"), res[1], res[2], kinds, consts)
    if res[0] == 0:
        before = [n[2:] for n in case["nodes"]]
        after = [n[2:] for n in res[1]]
        if before != after:
            return ("rewritten", case.get("pat"), kinds, consts, tuple(n[2] for n in res[1]))
    return None


# ---------------------------------------------------------------------------------------------------- frame family
def gen_frame(rng):
    blocks = []
    nb = rng.choice([1, 1, 2, 3])
    sregs = [8, 9] + list(range(18, 28))
    for bi in range(nb):
        ops = []
        for _ in range(rng.randint(0, 6)):
            kind = rng.choices([0, 1, 2, 3, 4], [8, 5, 2, 1, 3])[0]
            r = rng.random()
            if r < 0.6:
                code = rng.choice(sregs)
            elif r < 0.85:
                code = rng.choice([5, 6, 7, 10, 11, 12, 28, 1, 3])
            else:
                code = rng.choice([-1, 100, 101])
            if kind in (2, 3) and code < 0:
                code = rng.choice(sregs)
            ops.append([kind, code])
        blocks.append({"ops": ops, "ret": rng.random() < 0.7})
    blocks[rng.randrange(nb)]["ret"] = True
    if rng.random() < 0.75:
        xlen, flen = 4, 8
    else:
        xlen, flen = rng.choice([4, 8]), rng.choice([4, 8])
    return {"xlen": xlen, "flen": flen, "blocks": blocks}


def frame_expr(case):
    from harness.props import c22_frame
    w = c22_frame.written_regs(case)
    return (f"c22_frame {coq_Z(case['xlen'])} {coq_Z(case['flen'])} "
            f"{coq_list('(' + coq_Z(a) + ', ' + coq_Z(b) + ')' for a, b in w)}")


def frame_impl(case):
    from harness.props import c22_frame
    return c22_frame.impl(case)


def frame_holds(case, res, pass_cls=None):
    """statement-level: executing the emitted function restores sp and every callee-saved register"""
    from harness.props import c22_frame
    if res and res[0] == -1:
        return False, f"the pass raises (exception code {res[1]})"
    if (case["xlen"], case["flen"]) != (4, 8):
        return True, ""          # other widths: structure only (the RV32 reference machine has 4/8-byte slots)
    for seed in range(3):
        try:
            x0, f0, m, asm = c22_frame.run_function(case, seed, pass_cls)
        except rv.AsmError:
            return True, ""      # control falls off a non-returning last block: nothing to observe
        except rv.AsmInvalid as e:
            return False, f"emitted assembly is not encodable: {e}"
        if m.x[2] != x0[2]:
            return False, f"sp is {m.x[2]:#x} at the return, {x0[2]:#x} on entry"
        for i in rv.CALLEE_SAVED_X:
            if m.x[i] != x0[i]:
                return False, f"callee-saved x{i} is {m.x[i]:#x} at the return, {x0[i]:#x} on entry"
        for i in rv.CALLEE_SAVED_F:
            if m.f[i] != f0[i]:
                return False, f"callee-saved f{i} changed"
        for (addr, n) in m.trace:
            if not (m.x[2] - 2048 <= addr and addr + n <= m.x[2]):
                return False, f"store at {addr:#x} outside the frame below sp {m.x[2]:#x}"
    return True, ""


def frame_nontrivial(case, res):
    if isinstance(res, list) and len(res) == 2 and res[0] and res[0][0][0] == 0:
        return ("frame", case["xlen"], case["flen"], tuple(tuple(x) for x in res[0]), len(case["blocks"]))
    return None


# ---------------------------------------------------------------------------------------------------- arith lowering (oracle only)
ARITH_BIN = ["addi", "subi", "muli", "andi", "ori", "xori", "shli", "shrsi", "shrui", "divui", "remui", "divsi",
             "remsi"]


def lower_arith_op(case, pass_cls=None):
    """lower ONE arith op on two i32 values with convert-arith-to-riscv; -> [0, nodes, roots] | [-1, code] | [-4]"""
    from xdsl.backend.riscv.lowering.convert_arith_to_riscv import ConvertArithToRiscvPass
    from xdsl.context import Context
    from xdsl.dialects import arith, builtin, riscv, rv32, test
    from xdsl.parser import Parser
    from xdsl.transforms.reconcile_unrealized_casts import ReconcileUnrealizedCastsPass
    from harness.props.c22_snip import dump
    ctx = Context()
    for d in (builtin.Builtin, arith.Arith, riscv.RISCV, rv32.RV32, test.Test):
        ctx.load_dialect(d)
    if case["op"] == "cmpi":
        body = f"%r = arith.cmpi {case['pred']}, %xi, %yi : i32"
        rty = "i1"
    else:
        body = f"%r = arith.{case['op']} %xi, %yi : i32"
        rty = "i32"
    src = f"""builtin.module {{
  %x, %y = "test.op"() : () -> (!riscv.reg, !riscv.reg)
  %xi = builtin.unrealized_conversion_cast %x : !riscv.reg to i32
  %yi = builtin.unrealized_conversion_cast %y : !riscv.reg to i32
  {body}
  %rr = builtin.unrealized_conversion_cast %r : {rty} to !riscv.reg
  "test.op"(%rr) : (!riscv.reg) -> ()
}}"""
    module = Parser(ctx, src).parse_module()
    try:
        (pass_cls or ConvertArithToRiscvPass)().apply(ctx, module)
        ReconcileUnrealizedCastsPass().apply(ctx, module)
        module.verify()
    except NotImplementedError:
        return [-4]
    except BaseException as e:
        from harness.common import exc_code
        return [-1, exc_code(e)]
    nodes, roots = dump(module, [[0, -1, ARG, 0, 0, 0], [1, -1, ARG, 0, 0, 0]])
    return [0, nodes, roots]


ARITH_EDGE = [0, 1, 2, 3, 31, 0x7FFFFFFF, 0x80000000, 0xFFFFFFFF, 0xFFFFFFFE, 0x80000001, 5, 0x10000]


def arith_holds(case, res):
    from harness.props import c22_pipe
    if res[0] == -4:
        return True, "unsupported"
    if res[0] != 0:
        return False, f"convert-arith-to-riscv raises (exception code {res[1]})"
    r = _case_rng({"nodes": [case["op"], case.get("pred", "")], "roots": []})
    pairs = [(a, b) for a in ARITH_EDGE for b in ARITH_EDGE] + [(r.getrandbits(32), r.getrandbits(32)) for _ in range(40)]
    for x, y in pairs:
        op = case["op"]
        if op in ("shli", "shrsi", "shrui"):
            y &= 31
        if op in ("divui", "remui", "divsi", "remsi") and y == 0:
            continue
        if op in ("divsi", "remsi") and x == 0x80000000 and y == 0xFFFFFFFF:
            continue
        want = c22_pipe.eval_cmp(case["pred"], x, y) if op == "cmpi" else c22_pipe.eval_bin(op, x, y)
        got, _ = rv.run_ssa(res[1], res[2], {0: x, 1: y}, lambda a: 0)
        if got != [want]:
            what = f"cmpi {case['pred']}" if op == "cmpi" else op
            return False, (f"arith.{what}({x:#x}, {y:#x}) = {want:#x} but the lowered riscv ops compute {got[0]:#x} "
                           f"(ops {[n[2] for n in res[1] if n[2] != ARG]})")
    return True, ""


def arith_known(case, res):
    if case["op"] == "cmpi" and case["pred"] in ("sle", "sgt", "sge", "ult"):
        return "C22-kf-6"
    return None


# ---------------------------------------------------------------------------------------------------- pipeline (oracle only)
def loop_yield_classes(prog):
    """which loops yield their induction variable / a value defined outside their body (kf-7 class)"""
    out = set()

    def go(stmts):
        for s in stmts:
            if s[0] in ("for", "forv"):
                iv, acc, body, y = s[-4], s[-3], s[-2], s[-1]
                if y == iv:
                    out.add("iv")
                elif y == acc:
                    out.add("acc")
                elif y not in {t[1] for t in body}:
                    out.add("outer")
                go(body)
    go(prog["body"])
    return out


def pipe_impl(prog, passes=None):
    """-> ["ok"] | ["skip", why] | ["fail", why] | ["raise", code, pass, pattern index, message]"""
    from harness.props import c22_pipe
    r = c22_pipe.lower(prog, passes)
    if r[0] == "unsupported":
        return ["skip", "unsupported: " + r[1]]
    if r[0] == "raise":
        if r[2] == "riscv-allocate-registers" or "Unsupported bit width" in r[4]:
            return ["skip", f"{r[2]}: {r[4]}"[:90]]
        return list(r)
    try:
        ok, why = c22_pipe.check_program(prog, r[1], 5, len(r[1]))
    except rv.AsmError as e:
        return ["skip", f"reference machine: {e}"]
    except rv.AsmInvalid as e:
        return ["fail", f"emitted assembly is not encodable: {e}"]
    return ["ok"] if ok else ["fail", why]


def pipe_known(prog, res):
    if res[0] == "raise" and res[1] == 2 and res[2] == "canonicalize":
        if res[3] in (P["AddImmediates"], P["SubImmediates"]) and "si12" in res[4]:
            return "C22-kf-1"
        if res[3] in LI_FOLDERS and "i32" in res[4]:
            return "C22-kf-2"
    if res[0] == "fail" and loop_yield_classes(prog) & {"iv", "outer"}:
        return "C22-kf-7"
    return None


def float_known(case, res):
    # f64 -0.0 is an "integral" constant for the li + fcvt.d.w path, which yields +0.0
    if res[0] == "fail" and case["ty"] == "f64" and 0x8000000000000000 in case["consts"]:
        return "C22-kf-8"
    return None


def run_pipeline(ctx: Ctx):
    from harness.props import c22_pipe
    import time
    t = time.time()
    thorough = ctx.tier == "thorough"
    rng = ctx.rng
    active = ctx.active_known_ids()
    # known-finding witnesses of the oracle-only families
    for e in ctx.known_findings + ctx.fixed_findings:
        fam = e.get("family")
        if fam == "arith-lowering":
            r = lower_arith_op(e["witness"])
            ok, why = arith_holds(e["witness"], r)
        elif fam == "pipeline":
            r = pipe_impl(e["witness"])
            ok, why = (r[0] in ("ok", "skip")), (r[1] if len(r) > 1 else "")
        elif fam == "pipeline-float":
            r = c22_pipe.run_float_case(e["witness"])
            ok, why = (r[0] in ("ok", "skip")), (r[1] if len(r) > 1 else "")
        else:
            continue
        ctx.evaluations += 1
        if e.get("fixed"):
            if not ok:
                ctx.violation({"family": fam, "case": e["witness"], "impl_result": r, "oracle": why,
                               "regression_of_fixed_finding": e.get("id")})
        elif not ok:
            ctx.known(e["id"], e["what"])
        else:
            ctx.coverage.setdefault("known_findings_no_longer_failing", []).append(e["id"])
    # arith op table (exhaustive over the ops)
    cases = [{"op": o} for o in ARITH_BIN] + [{"op": "cmpi", "pred": p} for p in c22_pipe.PREDS]
    fails, hits, unsup = [], {}, 0
    for c in cases:
        r = lower_arith_op(c)
        ok, why = arith_holds(c, r)
        ctx.evaluations += 1
        if r[0] == -4:
            unsup += 1
        elif ok:
            ctx.nontrivial.add(("arith-lowering", c["op"], c.get("pred")))
        if not ok:
            kid = arith_known(c, r)
            if kid and kid in active:
                hits[kid] = hits.get(kid, 0) + 1
            else:
                fails.append((c, r, why))
    fam = {"cases": len(cases), "oracle_failures": len(fails), "known_finding_hits": hits, "unsupported": unsup,
           "exhaustive": True, "model": "none (oracle only)"}
    ctx.coverage.setdefault("families", {})["arith-lowering"] = fam
    if fails:
        c, r, why = fails[0]
        ctx.violation({"family": "arith-lowering", "case": c, "impl_result": r, "oracle": why,
                       "other_failing_cases": len(fails) - 1})
    # whole pipeline
    n = 900 if thorough else 110
    stats = {"ok": 0, "skip": 0, "fail": 0, "raise": 0}
    skips = {}
    fails, hits = [], {}
    for i in range(n):
        prog = c22_pipe.gen_program(rng, big=(i % 8 == 0), with_cmp=(i % 25 == 0))
        r = pipe_impl(prog)
        stats[r[0]] += 1
        ctx.evaluations += 1
        if i < 1:
            ctx.sample({"family": "pipeline", "case": prog, "impl": r})
        if r[0] == "ok":
            ctx.nontrivial.add(("pipeline", tuple(prog["kinds"]), tuple(sorted(loop_yield_classes(prog)))))
        elif r[0] == "skip":
            k = r[1][:60]
            skips[k] = skips.get(k, 0) + 1
        else:
            kid = pipe_known(prog, r)
            if kid and kid in active:
                hits[kid] = hits.get(kid, 0) + 1
            else:
                fails.append((prog, r, r[1] if r[0] == "fail" else r[4]))
    fam = {"cases": n, "executed_and_equal": stats["ok"], "skipped": stats["skip"], "skip_reasons": skips,
           "oracle_failures": len(fails), "known_finding_hits": hits, "exhaustive": False,
           "model": "none (oracle only)", "wall_s": round(time.time() - t, 2)}
    ctx.coverage["families"]["pipeline"] = fam
    if fails:
        fails.sort(key=lambda x: len(json.dumps(x[0])))
        c, r, why = fails[0]
        ctx.violation({"family": "pipeline", "case": c, "mlir": c22_pipe.to_mlir(c), "impl_result": r, "oracle": why,
                       "other_failing_cases": len(fails) - 1})
    # float constants through the same pipeline: every boundary value returned as is (exhaustive over the two
    # tables) + random constants, sums of two constants, constant + float argument; oracle = bit pattern in fa0
    t = time.time()
    fcases = [{"ty": "f64", "consts": [b], "arg": None} for b in c22_pipe.F64_BOUNDARY]
    fcases += [{"ty": "f32", "consts": [b], "arg": None} for b in c22_pipe.F32_BOUNDARY]
    fcases += [c22_pipe.gen_float_case(rng) for _ in range(1500 if thorough else 110)]
    stats = {"ok": 0, "skip": 0, "fail": 0, "raise": 0}
    fails, hits = [], {}
    for c in fcases:
        r = c22_pipe.run_float_case(c)
        stats[r[0]] += 1
        ctx.evaluations += 1
        if r[0] == "ok":
            ctx.nontrivial.add(("pipeline-float", c["ty"], tuple(c["consts"]), c["arg"] is not None))
        elif r[0] in ("fail", "raise"):
            kid = float_known(c, r)
            if kid and kid in active:
                hits[kid] = hits.get(kid, 0) + 1
            else:
                fails.append((c, r, r[1] if r[0] == "fail" else r[3]))
    ctx.sample({"family": "pipeline-float", "case": fcases[10], "impl": c22_pipe.run_float_case(fcases[10])})
    ctx.coverage["families"]["pipeline-float"] = {
        "cases": len(fcases), "executed_and_equal": stats["ok"], "skipped": stats["skip"],
        "oracle_failures": len(fails), "known_finding_hits": hits, "exhaustive": False,
        "model": "none (oracle only)", "wall_s": round(time.time() - t, 2)}
    if fails:
        fails.sort(key=lambda x: len(json.dumps(x[0])))
        c, r, why = fails[0]
        ctx.violation({"family": "pipeline-float", "case": c, "impl_result": r, "oracle": why,
                       "other_failing_cases": len(fails) - 1})


# ---------------------------------------------------------------------------------------------------- run
def multi_differential(ctx: Ctx, specs):
    """common.differential for several families with ONE round of coqc shards (the machine is shared)."""
    import time
    from harness.common import ModelUnavailable, _report, eval_cases
    t = time.time()
    evs = [eval_cases(sp.cases, sp.impl, sp.holds, sp.known, sp.nontrivial) for sp in specs]
    exprs = [sp.coq_expr(c) for sp in specs for c in sp.cases]
    shard = max(100, min(450, (len(exprs) + 5) // 6))
    model_err, model = None, None
    try:
        model = ctx.coq_eval(REQ, exprs, shard=shard)
    except ModelUnavailable as e:
        model_err = str(e)
    active = ctx.active_known_ids()
    k = 0
    for sp, ev in zip(specs, evs):
        fails, diverge, hits = [], [], {}
        for c, (r, ok, why, kid, nt) in zip(sp.cases, ev):
            if nt is not None:
                ctx.nontrivial.add((sp.name, nt))
            if not ok:
                if kid and kid in active:
                    hits[kid] = hits.get(kid, 0) + 1
                else:
                    fails.append((c, r, why))
            if model is not None and model[k] != r:
                diverge.append((c, r, model[k]))
            k += 1
        for c, e in list(zip(sp.cases, ev))[:1]:
            ctx.sample({"family": sp.name, "case": c, "impl": e[0]})
        ctx.evaluations += len(sp.cases)
        _report(ctx, sp.name, len(sp.cases), fails, diverge, hits, model_err, False, t)


def run_kernels(ctx: Ctx):
    thorough = ctx.tier == "thorough"
    rng = ctx.rng
    replay_findings(ctx, "single-pattern", apply_pattern_case, holds)
    replay_findings(ctx, "canonicalize", canonicalize_case, holds)
    per = 120 if thorough else 14
    pcases = [gen_for_pattern(rng, p) for p in range(len(PATTERNS)) for _ in range(per)]
    ccases = [gen_for_pattern(rng, p) for p in range(len(PATTERNS)) for _ in range(per // 2)]
    ccases += [gen_random(rng) for _ in range(5000 if thorough else 450)]
    fcases = [gen_frame(rng) for _ in range(1500 if thorough else 200)]
    multi_differential(ctx, [
        DiffSpec("single-pattern", REQ, pcases, apply_pattern_case, pat_expr, holds, known, nontrivial),
        DiffSpec("canonicalize", REQ, ccases, canonicalize_case, canon_expr, holds, known, nontrivial),
        DiffSpec("prologue-epilogue", REQ, fcases, frame_impl, frame_expr, frame_holds, None, frame_nontrivial),
    ])
    # which pattern classes actually rewrote / raised in the single-pattern family
    ctx.coverage["patterns"] = {"modelled": len(PATTERNS), "total_classes": len(PATTERNS) + len(NOT_MODELLED),
                                "not_modelled": NOT_MODELLED}
    ctx.coverage["modelled_code_version"] = dict(zip(
        ["fix_addi", "fix_li", "fix_shz", "fix_mem", "fix_dbl"], MODEL_VERSION))


def run(ctx: Ctx):
    run_kernels(ctx)
    run_pipeline(ctx)
    ctx.coverage["rule"] = __doc__.split("\n\n", 1)[1][:2400]
    ctx.coverage["proved_vs_tested"] = {
        "proved": ["canonicalization kernel (families single-pattern, canonicalize)",
                   "prologue/epilogue kernel (family prologue-epilogue)"],
        "oracle_only": ["arith-lowering (convert-arith-to-riscv op table)", "pipeline (func/arith/scf -> riscv-asm)",
                        "pipeline-float (f32/f64 arith.constant / addf -> riscv-asm, bit patterns)"],
        "not_covered": ["FuseMultiplyAddD (float fmadd fusion)", "riscv_snitch", "memref lowerings", "rv64",
                        "register allocation (C19)", "parallel-move lowering (C20)"]}
