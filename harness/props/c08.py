"""C08 -- Attribute equality and hashing form a consistent value semantics.

Tie: hand-written Coq model (coq/C08/Model.v) of the dataclass-generated __eq__/__hash__ of every
Data / ParametrizedAttribute class, of FloatData.__eq__/__hash__, of IntegerAttr normalisation and of
the CSE key OperationInfo, vs the real classes.  Attributes are built through the real constructors
(IntAttr, IntegerAttr, StringAttr, BytesAttr, FloatData, FloatAttr of 10 float types with +-0, NaNs of
several payloads, +-inf, subnormals, ArrayAttr, DictionaryAttr in several key orders, DenseArrayBase,
DenseIntOrFPElementsAttr, SymbolRefAttr, builtin types, enum / bit-enum attributes, ...) or parsed by the
real parser in two fresh Contexts (generated texts and attributes found in the .mlir corpus); the built
objects are then walked through their dataclass fields (the fields the generated methods use) into
the model's value tree, float payloads as binary64 bit patterns plus the identity of the float object.
Cases are TRIPLES (base, variant, variant) with variants: same parameters, one mutated leaf, zero-sign
flip, NaN payload change, dict reorder, str<->bytes, unrelated.  Compared with the model: the 3x3 matrix
of `==` and the three `hash(x) == hash(y)` (model: structural equality of symbolic hash keys with exact
CPython int/float hashes).  Oracle (independent of the model, class names + struct.pack bit patterns):
reflexive, symmetric, transitive, equal => equal hashes, same observable <=> equal, parsed twice => equal.
A further family builds SEQUENCES of attributes in one process through `Data.get` and the parameter
converters (ComplexNumberAttr, LLVMArrayType, TupleType, FusedLoc, X.get(payload)) with ==-equal but observably
different payloads in both orders (0.0/-0.0, 1/True, NaN payloads) and checks that each attribute carries its
constructor arguments and equals the attribute parsed from its own text; the OperationInfo family includes
attribute pairs at CPython hash-collision boundaries (-1/-2, 0/2^61-1, 1/2^61) and demands that equal keys mean
observably equal operations.
Non-trivial: the triple contains a float leaf, a container, or an off-diagonal equality; distinct =
distinct spec triple / text.
"""
from __future__ import annotations

import ast
import copy
import dataclasses
import enum
import json
import math
import struct

from harness.common import (REPO, Ctx, DiffSpec, coq_bool, coq_list, coq_Z, coq_Zs, differential, eval_cases,
                            exc_code, replay_findings, sweep_differential)

META = {
    "id": "C08",
    "title": "Attribute equality and hashing form a consistent value semantics",
    "design_ref": "DESIGN.md section 8.C08",
    "technique": "Coq characterisation of attribute == / hash on all attribute trees (nested induction) + model-vs-code correspondence on constructed, parsed and corpus attributes",
    "level_text": (
        "Theorems in coq/Props/C08.v, for EVERY attribute tree (any nesting of Data / ParametrizedAttribute, all "
        "integers, strings, bytes, binary64 bit patterns): the modelled `==` is exactly equality of the observable "
        "payload up to the sign of float zeros, the payload of NaNs and float object identity (hence reflexive, "
        "symmetric, transitive; same parameters => equal); equal attributes have equal hashes for ARBITRARY "
        "CPython hash functions whenever corresponding NaN leaves are the same float object. The FULL statements "
        "'observably different => unequal' and 'equal => equal hash' are REFUTED on the faithful model "
        "(C08_observable_refuted, C08_hash_consistent_refuted; known findings C08-kf-1..3) and proved for the model "
        "with the proposed repair C08-1 (C08_fix_*). 'Parsed from the same text in two Contexts => equal' fails for "
        "unregistered attributes (per-Context classes, C08-kf-4, C08_two_contexts_refuted, repair C08-2) and for "
        "dense_resource handles (process-global parser state, C08-kf-5). OperationInfo (CSE key) is consistent by construction "
        "(C08_opinfo_*); signless IntegerAttr values are equal iff same bit pattern. The model is tied to the code "
        "by differential testing of == / hash on triples of real attribute objects."),
    "level_note": (
        "Trusted: Coq kernel; hand-written model; CPython 3.12 facts used by the model and checked by the "
        "correspondence (see TRUSTED). Not covered: Data payload types other than int/str/bytes/float/enum/"
        "tuple/frozenset/immutabledict/attribute (AffineMap, AffineSet: oracle-only), bool-vs-int and "
        "StrEnum-vs-str cross-type equalities, user-defined __eq__/__hash__ other than FloatData (fail-closed "
        "runtime scan: none exists on the pinned tree), Region.is_structurally_equivalent (abstract in "
        "C08_opinfo_*, property C03)."),
}
COQ_TARGETS = ["C08/Enc.vo", "C08/Proofs.vo", "Props/C08.vo"]
REQ = ["C08.Model", "C08.Enc"]
ASSUMPTIONS = [
    "a Data payload has the Python type its class declares (no bool/float in IntAttr, no plain str where a StrEnum is declared)",
    "two simultaneously live float objects have different addresses (hash of a NaN is its address rotated)",
    "dict / frozenset payloads are compared and hashed independently of insertion order (CPython dict ==, immutabledict xor hash, frozenset hash)",
]
TRUSTED = [
    "CPython 3.12 dataclass(frozen=True): generated __eq__ = same class and field tuples ==; generated __hash__ = hash(field tuple); an explicit __eq__/__hash__ in the class body (FloatData) is kept",
    "CPython oracles left abstract in the theorems (Section variables, no hypothesis except injectivity of the identity hash in C08_hash_consistent_refuted): hash of a byte buffer (str/bytes, siphash13), hash of a tuple, hash of a frozenset, object identity hash",
    "CPython facts modelled exactly and checked by the correspondence: hash(int) (mod 2^61-1, -1 -> -2), hash(float) of non-NaN binary64, str and bytes with the same compact buffer hash alike, hash(\"\") = 0, Enum hashes its name / StrEnum its value, tuple == tries identity first (unobservable: modelled == is reflexive)",
    "binary64 `==` modelled on bit patterns (NaN != anything, +0 == -0, otherwise bit equality); math.isnan = exponent 2047 and mantissa != 0",
]

NEG_ZERO = 1 << 63
CANON_NAN = 0x7FF8000000000000


# ---------------------------------------------------------------------------- floats
def f_from_bits(b: int) -> float:
    return struct.unpack("<d", struct.pack("<Q", b))[0]


def bits_of(x) -> int:
    return struct.unpack("<Q", struct.pack("<d", x))[0]


FLOAT_BITS = [
    0, NEG_ZERO, bits_of(1.0), bits_of(-1.0), bits_of(0.5), bits_of(2.0 ** 61), bits_of(-2.0 ** 61),
    CANON_NAN, CANON_NAN + 1, 0xFFF8000000000000, 0x7FF4000000000000, 0x7FF8000020000000, 0x7FFC000000000000,
    0x7FF0000000000000, 0xFFF0000000000000, 1, NEG_ZERO + 1, 0x000FFFFFFFFFFFFF, bits_of(65504.0),
    bits_of(1e-40), bits_of(6e-8), bits_of(3.0e38), bits_of(1e300), bits_of(0.1), bits_of(-2.5),
]


def is_nan_bits(b):
    return (b >> 52) & 0x7FF == 0x7FF and b & ((1 << 52) - 1) != 0


def is_zero_bits(b):
    return b & ((1 << 63) - 1) == 0


# ---------------------------------------------------------------------------- building real attributes
def _float_types():
    from xdsl.dialects import builtin as b
    return {"f16": b.Float16Type, "bf16": b.BFloat16Type, "f32": b.Float32Type, "f64": b.Float64Type,
            "f80": b.Float80Type, "f128": b.Float128Type, "tf32": b.FloatTF32Type,
            "f8E5M2": b.Float8E5M2Type, "f8E4M3FN": b.Float8E4M3FNType, "f4E2M1FN": b.Float4E2M1FNType}


FLOAT_TYPE_NAMES = ["f16", "bf16", "f32", "f64", "f80", "f128", "tf32", "f8E5M2", "f8E4M3FN", "f4E2M1FN"]
FAST_FLAGS = ["reassoc", "nnan", "ninf", "nsz", "arcp", "contract", "afn"]


def s2str(cps):
    return "".join(map(chr, cps))


def build(s, env):
    """spec (JSON-able nested list) -> real attribute, through the real constructors.  `env` is the per-case
    table of shared objects (float objects requested to be shared, classes of unregistered attributes)."""
    from xdsl.dialects import builtin as b
    t = s[0]
    if t == "int":
        return b.IntAttr(s[1])
    if t == "str":
        return b.StringAttr(s2str(s[1]))
    if t == "bytes":
        return b.BytesAttr(bytes(s[1]))
    if t == "fdata":            # FloatData on a float object; s[2] not None: the object is shared within the case
        if s[2] is None:
            x = f_from_bits(s[1])
        else:
            x = env.setdefault(("f", s[2], s[1]), f_from_bits(s[1]))
        return b.FloatData(x)
    if t == "float":
        return b.FloatAttr(f_from_bits(s[1]), _float_types()[s[2]]())
    if t == "integer":
        return b.IntegerAttr(s[1], b.IntegerType(s[2], b.Signedness(s[3])))
    if t == "index":
        return b.IntegerAttr(s[1], b.IndexType())
    if t == "itype":
        return b.IntegerType(s[1], b.Signedness(s[2]))
    if t == "ftype":
        return _float_types()[s[1]]()
    if t == "simple":
        return {"unit": b.UnitAttr, "none": b.NoneAttr, "index": b.IndexType, "nonetype": b.NoneType,
                "unknownloc": b.UnknownLoc}[s[1]]()
    if t == "array":
        return b.ArrayAttr([build(x, env) for x in s[1]])
    if t == "dict":
        return b.DictionaryAttr({s2str(k): build(v, env) for k, v in s[1]})
    if t == "symref":
        return b.SymbolRefAttr(s2str(s[1]), [s2str(x) for x in s[2]])
    if t == "densearr":         # elt spec is an itype/ftype spec; ints or binary64 bit patterns
        et = build(s[1], env)
        vals = [f_from_bits(v) for v in s[2]] if s[1][0] == "ftype" else list(s[2])
        return b.DenseArrayBase.from_list(et, vals)
    if t == "dense":
        et = build(s[1], env)
        vals = [f_from_bits(v) for v in s[2]] if s[1][0] == "ftype" else list(s[2])
        return b.DenseIntOrFPElementsAttr.from_list(b.TensorType(et, [len(vals)]), vals)
    if t == "vector":
        return b.VectorType(build(s[2], env), s[1])
    if t == "tensor":
        return b.TensorType(build(s[2], env), s[1])
    if t == "memref":
        return b.MemRefType(build(s[2], env), s[1])
    if t == "tuple_t":
        return b.TupleType(tuple(build(x, env) for x in s[1]))
    if t == "func_t":
        return b.FunctionType.from_lists([build(x, env) for x in s[1]], [build(x, env) for x in s[2]])
    if t == "complex":
        return b.ComplexType(build(s[1], env))
    if t == "cnum":             # a dialect attribute holding FloatData parameters
        from xdsl.dialects import complex as cplx
        return cplx.ComplexNumberAttr(f_from_bits(s[1]), f_from_bits(s[2]), b.ComplexType(_float_types()[s[3]]()))
    if t == "fastmath":
        from xdsl.dialects import arith
        return arith.FastMathFlagsAttr([arith.FastMathFlag(f) for f in s[1]])
    if t == "signedness":
        return b.SignednessAttr(b.Signedness(s[1]))
    if t == "test_type":
        from xdsl.dialects import test
        return test.TestType(s2str(s[1]))
    if t == "loc":
        return b.FileLineColLoc(b.StringAttr(s2str(s[1])), b.IntAttr(s[2]), b.IntAttr(s[3]))
    if t == "unreg":            # one class per (name, is_type) per case, as a single Context would create
        name = s2str(s[1])
        cls = env.setdefault(("cls", name, bool(s[2])), b.UnregisteredAttr.with_name_and_type(name, bool(s[2])))
        return cls(name, bool(s[2]), False, s2str(s[3]))
    raise ValueError(f"unknown spec {s!r}")


# ---------------------------------------------------------------------------- walking real objects into the model
class Unsupported(Exception):
    pass


FIXED_CLS = {("xdsl.dialects.builtin", "IntAttr"): 1, ("xdsl.dialects.builtin", "IntegerAttr"): 2,
             ("xdsl.dialects.builtin", "IntegerType"): 3, ("xdsl.dialects.builtin", "SignednessAttr"): 4}


class Walker:
    """real attribute -> model value tree (tuples), reading the dataclass fields that the generated
    __eq__/__hash__ use.  Class ids: by class OBJECT (first appearance); float oids: by float OBJECT."""

    def __init__(self):
        self.cls = {}
        self.oid = {}
        self.keep = []
        self.size = 0

    def cls_id(self, c):
        k = FIXED_CLS.get((c.__module__, c.__qualname__))
        if k is not None:
            return k
        if c not in self.cls:
            self.cls[c] = 10 + len(self.cls)
        return self.cls[c]

    def attr(self, a):
        from xdsl.dialects.builtin import FloatData
        from xdsl.ir import Data, ParametrizedAttribute
        self.size += 1
        flds = [f for f in dataclasses.fields(a) if f.compare]
        if type(a) is FloatData:
            x = a.data
            if type(x) is not float:
                raise Unsupported("FloatData holding " + type(x).__name__)
            self.keep.append(x)
            oid = self.oid.setdefault(id(x), 1 + len(self.oid))
            return ("F", bits_of(x), oid)
        if isinstance(a, Data):
            if [f.name for f in flds] != ["data"]:
                raise Unsupported(f"Data class {type(a).__name__} with fields {[f.name for f in flds]}")
            return ("D", self.cls_id(type(a)), self.val(a.data))
        if isinstance(a, ParametrizedAttribute):
            vals = [getattr(a, f.name) for f in flds]
            if tuple(vals) != tuple(a.parameters) and not all(x is y for x, y in zip(vals, a.parameters)):
                raise Unsupported(f"dataclass fields of {type(a).__name__} are not its parameters")
            return ("P", self.cls_id(type(a)), [self.attr_or_val(v) for v in vals])
        raise Unsupported("attribute " + type(a).__name__)

    def attr_or_val(self, v):
        from xdsl.ir import Attribute
        return self.attr(v) if isinstance(v, Attribute) else self.val(v)

    def val(self, x):
        from xdsl.ir import Attribute
        self.size += 1
        if isinstance(x, Attribute):
            return self.attr(x)
        if isinstance(x, enum.Enum):
            if isinstance(x, str):
                return ("E", [ord(c) for c in str.__str__(x.value)])
            if isinstance(x, int) or not isinstance(x._name_, str):
                raise Unsupported("int/flag enum payload")
            return ("E", [ord(c) for c in x._name_])
        if type(x) is int or type(x) is bool:     # bool payloads (IntegerAttr.from_bool) behave as the ints 0 / 1
            return ("I", int(x))
        if type(x) is str:
            self.size += len(x)
            return ("S", [ord(c) for c in x])
        if type(x) is bytes:
            self.size += len(x)
            return ("B", list(x))
        if type(x) is tuple:
            return ("T", [self.val(y) for y in x])
        if type(x) is frozenset:
            return ("U", "UFrozenset", sorted((self.val(y) for y in x), key=repr))
        if type(x).__name__ == "immutabledict" and all(type(k) is str for k in x):
            items = sorted(x.items(), key=lambda kv: [ord(c) for c in kv[0]])
            return ("U", "UDict", [("T", [self.val(k), self.val(v)]) for k, v in items])
        raise Unsupported("payload " + type(x).__name__)


def coq_val(t) -> str:
    k = t[0]
    if k == "I":
        return f"VInt {coq_Z(t[1])}"
    if k == "S":
        return f"VStr {coq_Zs(t[1])}"
    if k == "B":
        return f"VBytes {coq_Zs(t[1])}"
    if k == "E":
        return f"VEnum {coq_Zs(t[1])}"
    if k == "T":
        return "VTuple " + coq_list(coq_val(x) for x in t[1])
    if k == "U":
        return f"VUnord {t[1]} " + coq_list(coq_val(x) for x in t[2])
    if k == "F":
        return f"VFloatData {coq_Z(t[1])} {coq_Z(t[2])}"
    if k == "D":
        return f"VData {coq_Z(t[1])} ({coq_val(t[2])})"
    if k == "P":
        return f"VParam {coq_Z(t[1])} " + coq_list(coq_val(x) for x in t[2])
    raise ValueError(k)


# ---------------------------------------------------------------------------- the independent observable (oracle)
def observe(a, mode="bits", erase_handles=False, strict_bool=False):
    """What can be observed of an attribute WITHOUT using == or hash: class (by module and qualified name),
    payloads, float payloads as packed binary64 bytes.  mode 'relax': zero signs and NaN payloads erased;
    'nozero' / 'nonan': only one of the two erased."""
    from xdsl.ir import Attribute, Data

    def fl(x):
        b = struct.pack("<d", x)
        if mode in ("relax", "nonan") and math.isnan(x):
            return "nan"
        if mode in ("relax", "nozero") and x == 0.0:
            return "zero"
        return b.hex()

    def go(x):
        if isinstance(x, Attribute):
            c = type(x).__module__ + "." + type(x).__qualname__
            if isinstance(x, Data):
                return ["data", c, go(x.data)]
            if erase_handles and type(x).__name__ == "DenseResourceAttr":
                return ["param", c, ["<resource handle>"] + [go(p) for p in x.parameters[1:]]]
            return ["param", c, [go(p) for p in x.parameters]]
        if isinstance(x, enum.Enum):
            return ["enum", type(x).__qualname__, x.name]
        if isinstance(x, float):
            return ["float", fl(x)]
        if strict_bool and isinstance(x, bool):
            return ["bool", int(x)]
        if isinstance(x, int):
            return ["int", x]
        if isinstance(x, str):
            return ["str", x]
        if isinstance(x, bytes):
            return ["bytes", x.hex()]
        if isinstance(x, tuple):
            return ["tuple", [go(y) for y in x]]
        if isinstance(x, frozenset):
            return ["fset", sorted(json.dumps(go(y), sort_keys=True) for y in x)]
        if hasattr(x, "items"):
            return ["dict", sorted([k, go(v)] for k, v in x.items())]
        return ["opaque", type(x).__qualname__, repr(x)]

    return json.dumps(go(a), sort_keys=True)


def nan_objects(a):
    """ids of the NaN float objects held by FloatData leaves, in traversal order"""
    from xdsl.dialects.builtin import FloatData
    from xdsl.ir import Attribute, Data
    out = []

    def go(x):
        if isinstance(x, FloatData):
            if isinstance(x.data, float) and math.isnan(x.data):
                out.append(id(x.data))
        elif isinstance(x, Data):
            go(x.data)
        elif isinstance(x, Attribute):
            for p in x.parameters:
                go(p)
        elif isinstance(x, (tuple, frozenset)):
            for y in x:
                go(y)
        elif hasattr(x, "items"):
            for k in sorted(x):
                go(x[k])

    go(a)
    return out


def unregistered_classes(a):
    from xdsl.dialects.builtin import UnregisteredAttr
    from xdsl.ir import Attribute, Data
    out = []

    def go(x):
        if isinstance(x, UnregisteredAttr):
            out.append(type(x))
        if isinstance(x, Data):
            go(x.data)
        elif isinstance(x, Attribute):
            for p in x.parameters:
                go(p)
        elif isinstance(x, (tuple, frozenset)):
            for y in x:
                go(y)
        elif hasattr(x, "items"):
            for k in sorted(x):
                go(x[k])

    go(a)
    return out


# ---------------------------------------------------------------------------- triples: implementation side
def matrices(objs):
    """3x3 `==` matrix (row-major) and hash equality of ab, ac, bc on real objects"""
    eqm = []
    for x in objs:
        for y in objs:
            try:
                eqm.append(1 if x == y else 0)
            except Exception as e:  # noqa: BLE001
                eqm.append(-exc_code(e))
    hs = []
    for i, j in ((0, 1), (0, 2), (1, 2)):
        try:
            hs.append(1 if hash(objs[i]) == hash(objs[j]) else 0)
        except Exception as e:  # noqa: BLE001
            hs.append(-exc_code(e))
    return [eqm, hs]


_PARSE_CACHE: dict = {}


def mkctx():
    from xdsl.context import Context
    from xdsl.dialects import get_all_dialects
    c = Context(allow_unregistered=True)
    for n, f in get_all_dialects().items():
        c.register_dialect(n, f)
    return c


def parse_attr(ctx, text):
    from xdsl.parser import Parser
    p = Parser(ctx, text)
    return p.parse_attribute()


def objects_of(case):
    """the three real attribute objects of a case (deterministic: same sharing structure on every call)"""
    if "specs" in case:
        env = {}
        return [build(s, env) for s in case["specs"]]
    text = case["text"]
    c1, c2 = mkctx(), mkctx()
    return [parse_attr(c1, text), parse_attr(c2, text), parse_attr(c1, text)]


def tr_impl(case):
    try:
        objs = objects_of(case)
    except BaseException as e:  # noqa: BLE001
        return [-1, exc_code(e)]
    return matrices(objs)


VARIANT = "cur"


def tr_coq(case):
    objs = objects_of(case)
    w = Walker()
    ts = [w.attr(o) for o in objs]
    fn = "c08_triple" if VARIANT == "cur" else "c08_triple_fix"
    return fn + " " + " ".join(f"({coq_val(t)})" for t in ts)


def tr_failures(case, res):
    """every clause of the property violated by this triple: list of (clause, i, j, known-finding id or None, text)"""
    if res[0] == -1:
        return [("constructible", 0, 0, None, f"construction raised exception code {res[1]}")]
    eqm, hs = res
    objs = objects_of(case)
    ob = [observe(o) for o in objs]
    orx = [observe(o, "relax") for o in objs]
    names = "abc"
    parsed = "text" in case
    fails = []
    E = lambda i, j: eqm[3 * i + j]  # noqa: E731
    H = {(0, 1): hs[0], (0, 2): hs[1], (1, 2): hs[2]}
    for i in range(3):
        if E(i, i) != 1:
            fails.append(("reflexive", i, i, None, f"{names[i]} == {names[i]} is {E(i, i)}"))
    for i in range(3):
        for j in range(i + 1, 3):
            if E(i, j) != E(j, i):
                fails.append(("symmetric", i, j, None, f"{names[i]}=={names[j]} is {E(i, j)} but {names[j]}=={names[i]} is {E(j, i)}"))
            same = ob[i] == ob[j]
            if (same or parsed) and E(i, j) != 1:
                kid = None
                ci, cj = unregistered_classes(objs[i]), unregistered_classes(objs[j])
                if parsed and same and ci and len(ci) == len(cj) and any(x is not y for x, y in zip(ci, cj)):
                    kid = "C08-kf-4"
                elif (parsed and not same and "DenseResourceAttr" in ob[i] and "DenseResourceAttr" in ob[j]
                      and observe(objs[i], erase_handles=True) == observe(objs[j], erase_handles=True)):
                    kid = "C08-kf-5"    # the two parses differ only in the (renamed) resource handle
                why = "parsed from the same text" if parsed else "built from the same parameters"
                fails.append(("same-params", i, j, kid, f"{names[i]} and {names[j]} are {why} but compare unequal"))
            if not same and E(i, j) == 1:
                kid = None
                if orx[i] == orx[j]:
                    # the two differ only in zero signs and/or NaN payloads
                    kid = "C08-kf-1" if _zero_sign_differs(objs[i], objs[j]) else "C08-kf-2"
                fails.append(("observable", i, j, kid, f"{names[i]} and {names[j]} differ observably ({ob[i][:120]} vs {ob[j][:120]}) but compare equal"))
            if E(i, j) == 1 and H[(i, j)] != 1:
                kid = None
                ni, nj = nan_objects(objs[i]), nan_objects(objs[j])
                if ni and len(ni) == len(nj) and ni != nj:
                    kid = "C08-kf-3"
                fails.append(("hash", i, j, kid, f"{names[i]} == {names[j]} but their hashes differ"))
    for i in range(3):
        for j in range(3):
            for k in range(3):
                if len({i, j, k}) == 3 and E(i, j) == 1 and E(j, k) == 1 and E(i, k) != 1:
                    fails.append(("transitive", i, k, None, f"{names[i]}=={names[j]} and {names[j]}=={names[k]} but not {names[i]}=={names[k]}"))
    return fails


def _zero_sign_differs(a, b):
    return observe(a, "nonan") != observe(b, "nonan")


def tr_holds(case, res):
    f = tr_failures(case, res)
    if not f:
        return True, ""
    return False, "; ".join(f"[{c}] {t}" for c, _, _, _, t in f[:3])


def tr_known(case, res):
    f = tr_failures(case, res)
    if f and all(k for _, _, _, k, _ in f):
        return f[0][3]
    return None


def _spec_has(s, pred):
    if pred(s):
        return True
    return any(_spec_has(x, pred) for x in s if isinstance(x, list) and x and (isinstance(x[0], (str, list))))


def tr_nontrivial(case, res):
    if res[0] == -1:
        return None
    eqm = res[0]
    offdiag = any(eqm[3 * i + j] == 1 for i in range(3) for j in range(3) if i != j)
    if "text" in case:
        return case["text"]
    interesting = offdiag or any(
        _spec_has(s, lambda x: x and x[0] in ("float", "fdata", "cnum", "array", "dict", "dense", "densearr")) for s in case["specs"])
    return json.dumps(case["specs"]) if interesting else None


# ---------------------------------------------------------------------------- generators
def rand_cps(rng, maxlen=4):
    n = rng.choice([0, 1, 1, 2, 3, maxlen])
    pool = [97, 98, 99, 65, 48, 95, 0xE9, 0xFF, 0x100, 0x3B1, 0xFFFF, 0x10000, 0x1F600, 0]
    return [rng.choice(pool[:6]) if rng.random() < 0.7 else rng.choice(pool) for _ in range(n)]


def rand_bits(rng):
    r = rng.random()
    if r < 0.7:
        return rng.choice(FLOAT_BITS)
    if r < 0.8:
        return bits_of(float(rng.randint(-1000, 1000)) * 2.0 ** rng.randint(-70, 70))
    if r < 0.9:  # NaN with random payload / sign
        return (rng.getrandbits(1) << 63) | (0x7FF << 52) | max(1, rng.getrandbits(52))
    return rng.getrandbits(64)


def rand_int(rng):
    P = (1 << 61) - 1
    return rng.choice([0, 1, -1, -2, 2, 255, -128, P, -P, P + 1, 1 << 64, -(1 << 64) - 1, rng.randint(-50, 50),
                       rng.randint(-10 ** 20, 10 ** 20)])


def rand_in_range(rng, w, sg):
    if w == 0:
        return 0
    lo, hi = {0: (-(1 << (w - 1)), 1 << w), 1: (-(1 << (w - 1)), 1 << (w - 1)), 2: (0, 1 << w)}[sg]
    return rng.choice([lo, hi - 1, 0, (hi - 1) // 2, (1 << (w - 1)) - 1, min(hi - 1, 1 << (w - 1)), rng.randrange(lo, hi)])


def rand_elt_type(rng):
    if rng.random() < 0.5:
        return ["itype", rng.choice([1, 8, 16, 32, 64]), 0]
    return ["ftype", rng.choice(["f16", "bf16", "f32", "f64"])]


def rand_type(rng, depth=0):
    r = rng.random()
    if r < 0.25:
        return ["itype", rng.choice([0, 1, 7, 8, 32, 64, 128]), rng.choice([0, 0, 1, 2])]
    if r < 0.5:
        return ["ftype", rng.choice(FLOAT_TYPE_NAMES)]
    if r < 0.6:
        return ["simple", rng.choice(["index", "nonetype"])]
    if depth >= 2:
        return ["test_type", rand_cps(rng)]
    if r < 0.7:
        return [rng.choice(["vector", "tensor", "memref"]), [rng.randint(1, 4) for _ in range(rng.randint(1, 2))],
                rand_elt_type(rng)]
    if r < 0.8:
        return ["tuple_t", [rand_type(rng, depth + 1) for _ in range(rng.randint(0, 3))]]
    if r < 0.9:
        return ["func_t", [rand_type(rng, depth + 1) for _ in range(rng.randint(0, 2))],
                [rand_type(rng, depth + 1) for _ in range(rng.randint(0, 2))]]
    return ["complex", rand_elt_type(rng)]


def rand_spec(rng, depth=0):
    r = rng.random()
    if r < 0.30:   # floats: the part of the property with known defects
        q = rng.random()
        if q < 0.55:
            return ["float", rand_bits(rng), rng.choice(FLOAT_TYPE_NAMES[:6] if rng.random() < 0.8 else FLOAT_TYPE_NAMES)]
        if q < 0.75:
            return ["fdata", rand_bits(rng), rng.choice([None, None, 1, 2])]
        if q < 0.82:
            return ["cnum", rand_bits(rng), rand_bits(rng), rng.choice(["f32", "f64"])]
        et = ["ftype", rng.choice(["f16", "bf16", "f32", "f64"])]
        return [rng.choice(["densearr", "dense"]), et, [rand_bits(rng) for _ in range(rng.randint(1, 3))]]
    if r < 0.42:
        w = rng.choice([1, 2, 8, 8, 16, 32, 64, 128, 0, 3])
        sg = rng.choice([0, 0, 0, 1, 2])
        return ["integer", rand_in_range(rng, w, sg), w, sg]
    if r < 0.47:
        return ["index", rand_int(rng)]
    if r < 0.53:
        return ["int", rand_int(rng)]
    if r < 0.60:
        return ["str", rand_cps(rng)]
    if r < 0.65:
        return ["bytes", [c % 256 for c in rand_cps(rng)]]
    if r < 0.70:
        return rand_type(rng, depth)
    if r < 0.73:
        return ["symref", rand_cps(rng) or [97], [rand_cps(rng) for _ in range(rng.randint(0, 2))]]
    if r < 0.76:
        return ["fastmath", sorted(rng.sample(FAST_FLAGS, rng.randint(0, 3)))]
    if r < 0.78:
        return ["signedness", rng.randint(0, 2)]
    if r < 0.80:
        return ["simple", rng.choice(["unit", "none", "unknownloc"])]
    if r < 0.82:
        return ["loc", rand_cps(rng), rng.randint(0, 3), rng.randint(0, 3)]
    if r < 0.84:
        w = rng.choice([8, 32, 64])
        return [rng.choice(["densearr", "dense"]), ["itype", w, 0], [rand_in_range(rng, w, 1) for _ in range(rng.randint(1, 3))]]
    if r < 0.86:
        return ["unreg", [102, 111, 111, 46] + (rand_cps(rng) or [98]), rng.randint(0, 1), rand_cps(rng)]
    if depth >= 3:
        return ["int", rand_int(rng)]
    if r < 0.93:
        return ["array", [rand_spec(rng, depth + 1) for _ in range(rng.randint(0, 3))]]
    keys = []
    for _ in range(rng.randint(0, 3)):
        k = rand_cps(rng) or [107]
        if k not in keys:
            keys.append(k)
    return ["dict", [[k, rand_spec(rng, depth + 1)] for k in keys]]


LEAF_KINDS = {"cnum", "int", "str", "bytes", "fdata", "float", "integer", "index", "itype", "ftype", "simple", "symref",
              "fastmath", "signedness", "test_type", "loc", "unreg", "densearr", "dense"}


def leaf_paths(s, path=()):
    out = []
    if s[0] in LEAF_KINDS:
        out.append(path)
        return out
    if s[0] == "array" or s[0] == "tuple_t":
        for i, x in enumerate(s[1]):
            out += leaf_paths(x, path + (1, i))
    elif s[0] == "dict":
        for i, (_, v) in enumerate(s[1]):
            out += leaf_paths(v, path + (1, i, 1))
    elif s[0] in ("vector", "tensor", "memref"):
        out += leaf_paths(s[2], path + (2,))
    elif s[0] == "func_t":
        for i, x in enumerate(s[1]):
            out += leaf_paths(x, path + (1, i))
        for i, x in enumerate(s[2]):
            out += leaf_paths(x, path + (2, i))
    elif s[0] == "complex":
        out += leaf_paths(s[1], path + (1,))
    return out


def get_at(s, path):
    for p in path:
        s = s[p]
    return s


def set_at(s, path, v):
    if not path:
        return v
    s = copy.deepcopy(s)
    t = s
    for p in path[:-1]:
        t = t[p]
    t[path[-1]] = v
    return s


def perturb_float_bits(rng, b, mode):
    if mode == "zero" and is_zero_bits(b):
        return b ^ NEG_ZERO
    if mode == "nan" and is_nan_bits(b):
        return rng.choice([b ^ 1, b ^ (1 << 29), b ^ NEG_ZERO, b ^ (1 << 50) if b & ((1 << 50) - 1) else b ^ 1])
    return rng.choice([b ^ NEG_ZERO, b ^ 1, rand_bits(rng)])


def perturb_leaf(rng, s, mode="leaf"):
    s = copy.deepcopy(s)
    t = s[0]
    if t == "int" or t == "index":
        P = (1 << 61) - 1
        s[1] = rng.choice([s[1] + 1, -s[1] - 1, s[1] + P, s[1] - P, -2 if s[1] == -1 else s[1] ^ 1])
    elif t == "str":
        q = rng.random()
        if q < 0.3 and all(c < 256 for c in s[1]):
            return ["bytes", list(s[1])]
        if q < 0.5:
            return ["test_type", s[1]]
        s[1] = s[1] + [rng.choice([97, 0x100, 0])] if q < 0.8 or not s[1] else s[1][:-1]
    elif t == "bytes":
        q = rng.random()
        if q < 0.4:
            return ["str", list(s[1])]
        s[1] = s[1] + [rng.choice([97, 0, 255])] if q < 0.8 or not s[1] else s[1][:-1]
    elif t == "fdata":
        q = rng.random()
        if mode == "leaf" and q < 0.3:
            s[2] = rng.choice([None, 1, 2])      # only the float object changes
        else:
            s[1] = perturb_float_bits(rng, s[1], mode)
    elif t == "cnum":
        i = rng.choice([1, 2])
        s[i] = perturb_float_bits(rng, s[i], mode)
    elif t == "float":
        if mode == "leaf" and rng.random() < 0.3:
            s[2] = rng.choice([x for x in FLOAT_TYPE_NAMES[:6] if x != s[2]])
        else:
            s[1] = perturb_float_bits(rng, s[1], mode)
    elif t in ("densearr", "dense"):
        i = rng.randrange(len(s[2]))
        if s[1][0] == "ftype":
            s[2][i] = perturb_float_bits(rng, s[2][i], mode)
        else:
            w = s[1][1]
            s[2][i] = rand_in_range(rng, w, 1)
        if mode == "leaf" and rng.random() < 0.2:
            s[0] = "dense" if t == "densearr" else "densearr"
    elif t == "integer":
        v, w, sg = s[1], s[2], s[3]
        q = rng.random()
        if q < 0.35 and sg == 0 and w > 0:       # same bit pattern, other representative
            alt = v + (1 << w) if v < 0 else v - (1 << w)
            if -(1 << (w - 1)) <= alt < (1 << w):
                s[1] = alt
            else:
                s[1] = rand_in_range(rng, w, sg)
        elif q < 0.6:
            s[1] = rand_in_range(rng, w, sg)
        elif q < 0.8:
            s[3] = (sg + 1) % 3
            s[1] = rand_in_range(rng, w, s[3])
        else:
            s[2] = w + 1
    elif t == "itype":
        s[rng.choice([1, 2])] = rng.choice([s[1] + 1, 0]) if rng.random() < 0.5 else s[1]
        s[2] = (s[2] + rng.randint(0, 1)) % 3
    elif t == "ftype":
        s[1] = rng.choice([x for x in FLOAT_TYPE_NAMES if x != s[1]])
    elif t == "simple":
        s[1] = rng.choice([x for x in ["unit", "none", "index", "nonetype", "unknownloc"] if x != s[1]])
    elif t == "symref":
        if rng.random() < 0.5:
            s[1] = s[1] + [98]
        else:
            s[2] = s[2] + [[99]] if rng.random() < 0.6 or not s[2] else s[2][:-1]
    elif t == "fastmath":
        f = rng.choice(FAST_FLAGS)
        s[1] = sorted(set(s[1]) ^ {f})
    elif t == "signedness":
        s[1] = (s[1] + 1) % 3
    elif t == "test_type":
        return ["str", s[1]] if rng.random() < 0.5 else ["test_type", s[1] + [120]]
    elif t == "loc":
        s[rng.choice([2, 3])] += 1
    elif t == "unreg":
        q = rng.random()
        if q < 0.4:
            s[3] = s[3] + [49]
        elif q < 0.7:
            s[2] = 1 - s[2]
        else:
            s[1] = s[1] + [122]
    return s


def variant(rng, base, kind):
    if kind == "same":
        return copy.deepcopy(base)
    if kind == "unrelated":
        return rand_spec(rng)
    if kind == "reorder":
        def rev(s):
            if s[0] == "dict":
                return ["dict", [[k, rev(v)] for k, v in reversed(s[1])]]
            if s[0] == "array":
                return ["array", [rev(x) for x in s[1]]]
            return copy.deepcopy(s)
        return rev(base)
    paths = leaf_paths(base)
    if not paths:
        return ["array", [copy.deepcopy(base)]]
    if kind in ("zero", "nan"):
        want = is_zero_bits if kind == "zero" else is_nan_bits

        def has(leaf):
            if leaf[0] in ("float", "fdata"):
                return want(leaf[1])
            if leaf[0] == "cnum":
                return want(leaf[1]) or want(leaf[2])
            if leaf[0] in ("dense", "densearr") and leaf[1][0] == "ftype":
                return any(want(b) for b in leaf[2])
            return False
        good = [p for p in paths if has(get_at(base, p))]
        if good:
            p = rng.choice(good)
            leaf = get_at(base, p)
            if leaf[0] in ("dense", "densearr"):
                leaf = copy.deepcopy(leaf)
                idx = [i for i, b in enumerate(leaf[2]) if want(b)]
                i = rng.choice(idx)
                leaf[2][i] = perturb_float_bits(rng, leaf[2][i], kind)
                return set_at(base, p, leaf)
            return set_at(base, p, perturb_leaf(rng, leaf, kind))
    p = rng.choice(paths)
    return set_at(base, p, perturb_leaf(rng, get_at(base, p)))


VARIANT_KINDS = ["same", "same", "leaf", "leaf", "leaf", "zero", "zero", "nan", "nan", "reorder", "unrelated"]

SEED_TRIPLES = [
    [["float", 0, "f64"], ["float", NEG_ZERO, "f64"], ["float", 0, "f32"]],
    [["float", CANON_NAN, "f64"], ["float", CANON_NAN + 1, "f64"], ["float", CANON_NAN, "f64"]],
    [["fdata", CANON_NAN, 1], ["fdata", CANON_NAN, 1], ["fdata", CANON_NAN, 2]],
    [["fdata", CANON_NAN, None], ["fdata", 0xFFF8000000000000, None], ["fdata", 0x7FF0000000000000, None]],
    [["integer", 255, 8, 0], ["integer", -1, 8, 0], ["integer", 255, 8, 2]],
    [["int", -1], ["int", -2], ["int", (1 << 61) - 2]],
    [["str", [97]], ["bytes", [97]], ["test_type", [97]]],
    [["str", []], ["int", 0], ["bytes", []]],
    [["str", []], ["dict", []], ["test_type", []]],
    [["array", []], ["dict", []], ["fastmath", []]],
    [["str", [0x100]], ["bytes", [0, 1]], ["str", [0x100]]],
    [["dict", [[[97], ["int", 1]], [[98], ["float", 0, "f32"]]]], ["dict", [[[98], ["float", NEG_ZERO, "f32"]], [[97], ["int", 1]]]],
     ["dict", [[[98], ["float", 0, "f32"]], [[97], ["int", 1]]]]],
    [["fdata", bits_of(1.0), None], ["fdata", bits_of(2.0 ** 61), None], ["int", 1]],
    [["array", []], ["simple", "unit"], ["tuple_t", []]],
    [["dense", ["ftype", "f32"], [0, NEG_ZERO]], ["dense", ["ftype", "f32"], [NEG_ZERO, 0]], ["densearr", ["ftype", "f32"], [0, NEG_ZERO]]],
    [["signedness", 0], ["str", [83, 73, 71, 78, 76, 69, 83, 83]], ["signedness", 0]],
    [["fastmath", ["nnan", "ninf"]], ["fastmath", ["ninf", "nnan"]], ["fastmath", ["nnan"]]],
    [["unreg", [102, 111, 111, 46, 98], 0, [49]], ["unreg", [102, 111, 111, 46, 98], 0, [49]], ["unreg", [102, 111, 111, 46, 98], 1, [49]]],
    [["float", 0x7FF8000020000000, "f32"], ["float", CANON_NAN, "f32"], ["float", 0x7FF8000020000000, "f16"]],
]


def gen_triples(rng, n):
    cases = [{"specs": t} for t in SEED_TRIPLES]
    while len(cases) < n:
        base = rand_spec(rng)
        v1 = variant(rng, base, rng.choice(VARIANT_KINDS))
        src = base if rng.random() < 0.6 else v1
        v2 = variant(rng, src, rng.choice(VARIANT_KINDS))
        cases.append({"specs": [base, v1, v2]})
    return cases


def usable(case, stats):
    """the case can be built and walked into the model (otherwise it is counted and dropped)"""
    try:
        objs = objects_of(case)
    except BaseException as e:  # noqa: BLE001
        stats["unbuildable:" + type(e).__name__] = stats.get("unbuildable:" + type(e).__name__, 0) + 1
        return False
    try:
        w = Walker()
        for o in objs:
            w.attr(o)
        if w.size > 400:
            stats["too-large"] = stats.get("too-large", 0) + 1
            return False
    except Unsupported as e:
        k = "unsupported:" + str(e)[:40]
        stats[k] = stats.get(k, 0) + 1
        return None
    return True


# ---------------------------------------------------------------------------- IntegerAttr construction
def int_impl(case):
    from xdsl.dialects.builtin import IntegerAttr, IntegerType, Signedness
    ty = IntegerType(case["w"], Signedness(case["k"]))
    out, objs = [], []
    for v in (case["v1"], case["v2"]):
        try:
            a = IntegerAttr(v, ty, truncate_bits=case["tr"])
            objs.append(a)
            out.append([a.value.data])
        except BaseException as e:  # noqa: BLE001
            if exc_code(e) != 2:
                return [[-1, exc_code(e)], [], -1, -1]
            out.append([])
    if len(objs) == 2:
        return out + [1 if objs[0] == objs[1] else 0, 1 if hash(objs[0]) == hash(objs[1]) else 0]
    return out + [-1, -1]


def int_holds(case, res):
    w, tr = case["w"], case["tr"]
    r1, r2, e, h = res
    if e == -1:
        return True, ""       # a construction was rejected: nothing to compare
    same_bits = (case["v1"] - case["v2"]) % (1 << w) == 0
    for v, r in ((case["v1"], r1), (case["v2"], r2)):
        if (r[0] - v) % (1 << w) != 0:
            return False, f"IntegerAttr({v}, width {w}) stores {r[0]}: a different {w}-bit pattern"
    if bool(e) != same_bits:
        return False, (f"IntegerAttr({case['v1']}) and IntegerAttr({case['v2']}) of width {w} have "
                       f"{'the same' if same_bits else 'different'} bit patterns but == is {bool(e)}")
    if e and not h:
        return False, "equal IntegerAttr with different hashes"
    return True, ""


def int_nontrivial(case, res):
    return (case["k"], case["w"], case["v1"], case["v2"], case["tr"]) if res[2] == 1 and case["v1"] != case["v2"] else None


# ---------------------------------------------------------------------------- OperationInfo (CSE key)
OP_NAMES = ["test.op", "foo.a", "foo.b"]


def build_ops(case):
    from xdsl.dialects import test
    from xdsl.dialects.builtin import UnregisteredOp, i32
    from xdsl.ir import Block, Region
    prov = test.TestOp(result_types=[i32] * 4)
    env = {}
    ops = []
    for o in case["ops"]:
        regions = [Region([Block([test.TestOp() for _ in range(k)])]) if k >= 0 else Region([]) for k in o["regions"]]
        kw = dict(operands=[prov.results[i] for i in o["operands"]],
                  result_types=[build(s, env) for s in o["results"]],
                  attributes={s2str(k): build(v, env) for k, v in o["attrs"]},
                  properties={s2str(k): build(v, env) for k, v in o["props"]},
                  regions=regions)
        if o["name"] == "test.op":
            ops.append(test.TestOp(**kw))
        else:
            ops.append(UnregisteredOp.with_name(o["name"]).create(**kw))
    return prov, ops


def oi_impl(case):
    from xdsl.transforms.common_subexpression_elimination import OperationInfo
    _prov, ops = build_ops(case)
    a, b = OperationInfo(ops[0]), OperationInfo(ops[1])
    out = []
    for x, y in ((a, b), (b, a)):
        try:
            out.append(1 if x == y else 0)
        except BaseException as e:  # noqa: BLE001
            out.append([-1, exc_code(e)])
    out.append(1 if hash(a) == hash(b) else 0)
    return out


def oi_coq(case):
    from xdsl.transforms.common_subexpression_elimination import OperationInfo
    prov, ops = build_ops(case)
    w = Walker()
    idx = {id(r): i for i, r in enumerate(prov.results)}
    terms = []
    for op, o in zip(ops, case["ops"]):
        def items(d):
            its = sorted(d.items(), key=lambda kv: [ord(c) for c in kv[0]])
            return coq_list(coq_val(("T", [("S", [ord(c) for c in k]), w.attr(v)])) for k, v in its)
        name = OperationInfo(op).name
        terms.append("(mk_oi %s %s %s %s %s %s)" % (
            coq_Zs([ord(c) for c in name]), items(op.attributes), items(op.properties),
            coq_list(coq_val(w.attr(t)) for t in op.result_types),
            coq_Zs([idx[id(v)] for v in op.operands]), coq_Zs(o["regions"])))
    return ("c08_opinfo " if VARIANT == "cur" else "c08_opinfo_fix ") + " ".join(terms)


def oi_holds(case, res):
    ab, ba, h = res
    if ab != ba:
        return False, f"OperationInfo == is not symmetric: {ab} vs {ba}"
    if ab == 1 and h != 1:
        return False, "equal OperationInfo keys with different hashes"
    if ab == 1:
        # independent of the model: what the two operations really carry
        _prov, ops = build_ops(case)
        mode = "relax" if VARIANT == "cur" else "bits"

        def desc(op):
            from xdsl.transforms.common_subexpression_elimination import OperationInfo
            return {"name": OperationInfo(op).name,
                    "attributes": sorted((k, observe(v, mode)) for k, v in op.attributes.items()),
                    "properties": sorted((k, observe(v, mode)) for k, v in op.properties.items()),
                    "result_types": [observe(t, mode) for t in op.result_types],
                    "operands": [id(v) for v in op.operands]}
        da, db = desc(ops[0]), desc(ops[1])
        for k in da:
            if da[k] != db[k]:
                return False, (f"equal OperationInfo keys (CSE would merge the operations) although their {k} differ: "
                               f"{json.dumps(da[k])[:200]} vs {json.dumps(db[k])[:200]}")
    if case["ops"][0] == case["ops"][1] and ab != 1:
        # same description: must be equal unless a NaN attribute makes the hashes differ (C08-kf-3 class)
        if not (h == 0 and "nan" in json.dumps([_spec_nan(case["ops"][0])])):
            return False, "two operations built from the same description have unequal CSE keys"
    return True, ""


def _spec_nan(o):
    def has(s):
        if isinstance(s, list):
            if s and s[0] in ("float", "fdata") and is_nan_bits(s[1]):
                return True
            if s and s[0] == "cnum" and (is_nan_bits(s[1]) or is_nan_bits(s[2])):
                return True
            if s and s[0] in ("dense", "densearr") and s[1][0] == "ftype" and any(is_nan_bits(b) for b in s[2]):
                return True
            return any(has(x) for x in s)
        return False
    return "nan" if has([o["attrs"], o["props"], o["results"]]) else "-"


def oi_nontrivial(case, res):
    return json.dumps(case["ops"]) if (res[0] == 1 or res[2] == 1 or isinstance(res[0], list)) else None


def gen_opinfo(rng, n):
    P = (1 << 61) - 1
    cases = []
    for x, y in ((-1, -2), (0, P), (1, 1 << 61)):
        for mk in (lambda v: ["integer", v, 64, 1], lambda v: ["int", v]):
            base = {"name": "test.op", "attrs": [[[118], mk(x)]], "props": [], "results": [["itype", 64, 1]],
                    "operands": [], "regions": []}
            other = copy.deepcopy(base)
            other["attrs"][0][1] = mk(y)
            cases.append({"ops": [base, other]})
    while len(cases) < n:
        def attrs(keys):
            ks = rng.sample(keys, rng.randint(0, len(keys)))
            return [[[ord(c) for c in k], rand_spec(rng, 2)] for k in ks]
        a = {"name": rng.choice(OP_NAMES), "attrs": attrs(["a", "b", "c"]), "props": [],
             "results": [rand_type(rng, 1) for _ in range(rng.randint(0, 2))],
             "operands": [rng.randrange(4) for _ in range(rng.randint(0, 3))],
             "regions": [rng.choice([-1, 0, 1, 2]) for _ in range(rng.choice([0, 0, 1, 2]))]}
        a["props"] = attrs(["prop1", "prop2", "prop3"]) if a["name"] == "test.op" else attrs(["p", "q"])
        b = copy.deepcopy(a)
        kind = rng.choice(["same", "same", "name", "attr", "attrdrop", "prop", "result", "operand", "region", "regioncount", "order",
                           "collide", "collide", "collide"])
        if kind == "collide":
            # payload pairs at CPython hash-collision boundaries: different attributes, equal hashes
            P = (1 << 61) - 1
            x, y = rng.choice([(-1, -2), (0, P), (1, 1 << 61), (-1, -P - 1), (2, P + 2), (0, -P)])
            if rng.random() < 0.5:
                x, y = y, x
            form = rng.choice(["int", "integer", "index", "fdata", "array"])
            mk = {"int": lambda v: ["int", v], "integer": lambda v: ["integer", v, 64, 1], "index": lambda v: ["index", v],
                  "fdata": lambda v: ["fdata", bits_of(float(v)), None],
                  "array": lambda v: ["array", [["int", v], ["str", [97]]]]}[form]
            where = "props" if a["props"] and rng.random() < 0.4 else "attrs"
            if not a[where]:
                a[where] = [[[ord("p")] + [ord(c) for c in "rop1"], None]] if where == "props" and a["name"] == "test.op" else [[[97], None]]
                b = copy.deepcopy(a)
            i = rng.randrange(len(a[where]))
            a[where][i][1] = mk(x)
            b[where][i][1] = mk(y)
        if kind == "name":
            b["name"] = rng.choice([x for x in OP_NAMES if x != a["name"]])
            if (b["name"] == "test.op") != (a["name"] == "test.op"):
                b["props"] = []
                a["props"] = []
        elif kind == "attr" and b["attrs"]:
            i = rng.randrange(len(b["attrs"]))
            b["attrs"][i][1] = variant(rng, b["attrs"][i][1], rng.choice(["leaf", "zero", "nan", "same"]))
        elif kind == "attrdrop" and b["attrs"]:
            b["attrs"].pop()
        elif kind == "prop" and b["props"]:
            i = rng.randrange(len(b["props"]))
            b["props"][i][1] = variant(rng, b["props"][i][1], "leaf")
        elif kind == "result":
            b["results"] = b["results"][:-1] if b["results"] and rng.random() < 0.5 else b["results"] + [rand_type(rng, 1)]
        elif kind == "operand":
            b["operands"] = b["operands"][:-1] if b["operands"] and rng.random() < 0.5 else b["operands"] + [rng.randrange(4)]
        elif kind == "region" and b["regions"]:
            b["regions"][rng.randrange(len(b["regions"]))] = rng.choice([-1, 0, 1, 2])
        elif kind == "regioncount":
            b["regions"] = b["regions"][:-1] if b["regions"] and rng.random() < 0.5 else b["regions"] + [rng.choice([0, 1])]
        elif kind == "order":
            b["attrs"] = list(reversed(b["attrs"]))
        cases.append({"ops": [a, b]})
    return cases


def oi_usable(case, stats):
    try:
        oi_coq(case)
        return True
    except Unsupported as e:
        stats["opinfo-unsupported:" + str(e)[:30]] = stats.get("opinfo-unsupported:" + str(e)[:30], 0) + 1
    except BaseException as e:  # noqa: BLE001
        stats["opinfo-unbuildable:" + type(e).__name__] = stats.get("opinfo-unbuildable:" + type(e).__name__, 0) + 1
    return False


# ---------------------------------------------------------------------------- texts: generated + corpus
FIXED_TEXTS = [
    "#foo.bar<1, 2>", '!foo.ty<"x">', "#foo.bar", '"str"', "1.0 : f32", "0x7FC00000 : f32", "-0.0 : f64",
    "0x7FF8000000000001 : f64", "dense<[1.0, -0.0]> : tensor<2xf32>", "{a = 1 : i8, b = [1, 2]}", "array<i32: 1, 2>",
    "@a::@b", "#arith.fastmath<fast>", 'loc("a":1:2)', 'opaque<"a", "b">', "#builtin.int<3>", "255 : i8", "-1 : i8",
    "i32", "tensor<2x?xf32>", "(i32, f32) -> index", "[#foo.a<1>, !foo.b]", "unit", "true",
    "affine_map<(d0) -> (d0)>", "affine_set<(d0) : (d0 >= 0)>", "dense<0x7FC00000> : tensor<1xf32>",
    "dense_resource<c08_blob> : tensor<1xf32>",
]


def corpus_texts(rng, nfiles, stats):
    from xdsl.parser import Parser
    files = sorted((REPO / "tests" / "filecheck").rglob("*.mlir"))
    stats["corpus_files_available"] = len(files)
    files = rng.sample(files, min(nfiles, len(files)))
    texts, seen = [], set()
    parsed = 0
    for f in files:
        try:
            src = f.read_text()
        except Exception:  # noqa: BLE001
            continue
        for chunk in src.split("// -----"):
            try:
                m = Parser(mkctx(), chunk).parse_module()
            except BaseException:  # noqa: BLE001
                continue
            parsed += 1
            for op in m.walk():
                vals = list(op.attributes.values()) + list(op.properties.values()) + list(op.result_types)
                for a in vals:
                    try:
                        t = str(a)
                    except BaseException:  # noqa: BLE001
                        continue
                    if len(t) <= 200 and t not in seen:
                        seen.add(t)
                        texts.append(t)
    stats["corpus_files_used"] = len(files)
    stats["corpus_chunks_parsed"] = parsed
    stats["corpus_distinct_attribute_texts"] = len(texts)
    return texts


# ---------------------------------------------------------------------------- sequences through Data.get / converters
# Constructors that take RAW python payloads and convert them with `Data.get` (param_def(converter=X.get)) and
# direct `X.get(payload)` calls, executed one after the other in ONE process with ==-equal but observably
# different payloads in both orders (0.0 / -0.0, 1 / True, NaN payload variants, equal tuples of them).
SEQ_FLOATS = [0, NEG_ZERO, bits_of(1.0), bits_of(-1.0), bits_of(0.5), bits_of(2.5), CANON_NAN, CANON_NAN + 1,
              0xFFF8000000000000, 0x7FF0000000000000, bits_of(2.0 ** 61)]


REPARSE_SAFE = {0, NEG_ZERO, bits_of(1.0), bits_of(-1.0), bits_of(0.5), bits_of(2.5)}   # printed exactly by print_float


def seq_build(step, env):
    """one step -> (built attribute, expected observable computed from the ARGUMENTS, printable-and-reparsable?)"""
    from xdsl.dialects import builtin as b
    k = step[0]

    def fd_obs(bits):
        return ["data", "xdsl.dialects.builtin.FloatData", ["float", struct.pack("<d", f_from_bits(bits)).hex()]]

    def obs(x):
        return json.loads(observe(x, strict_bool=True))

    if k == "get_float":
        return b.FloatData.get(f_from_bits(step[1])), fd_obs(step[1]), step[1] in REPARSE_SAFE
    if k == "get_int":
        v = bool(step[1]) if step[2] else step[1]
        return b.IntAttr.get(v), ["data", "xdsl.dialects.builtin.IntAttr", ["bool" if step[2] else "int", step[1]]], not step[2]
    if k == "get_str":
        return b.StringAttr.get(s2str(step[1])), ["data", "xdsl.dialects.builtin.StringAttr", ["str", s2str(step[1])]], False
    if k == "get_array":
        elems = tuple(build(x, env) for x in step[1])
        return (b.ArrayAttr.get(elems), ["data", "xdsl.dialects.builtin.ArrayAttr", ["tuple", [obs(e) for e in elems]]], False)
    if k == "cnum":
        from xdsl.dialects import complex as cplx
        ty = b.ComplexType(_float_types()[step[3]]())
        a = cplx.ComplexNumberAttr(f_from_bits(step[1]), f_from_bits(step[2]), ty)
        return (a, ["param", "xdsl.dialects.complex.ComplexNumberAttr", [fd_obs(step[1]), fd_obs(step[2]), obs(ty)]],
                all(x in REPARSE_SAFE for x in step[1:3]))
    if k == "llvm_array":
        from xdsl.dialects import llvm
        v = bool(step[1]) if step[2] else step[1]
        et = build(step[3], env)
        return (llvm.LLVMArrayType(v, et),
                ["param", "xdsl.dialects.llvm.LLVMArrayType",
                 [["data", "xdsl.dialects.builtin.IntAttr", ["bool" if step[2] else "int", step[1]]], obs(et)]], not step[2])
    if k == "tuple_t":
        ts = tuple(build(x, env) for x in step[1])
        return (b.TupleType(ts), ["param", "xdsl.dialects.builtin.TupleType",
                                  [["data", "xdsl.dialects.builtin.ArrayAttr", ["tuple", [obs(t) for t in ts]]]]], True)
    if k == "fusedloc":
        locs = tuple(build(x, env) for x in step[1])
        md = build(step[2], env)
        return (b.FusedLoc(locs, md), ["param", "xdsl.dialects.builtin.FusedLoc",
                                        [["data", "xdsl.dialects.builtin.ArrayAttr", ["tuple", [obs(x) for x in locs]]], obs(md)]], False)
    raise ValueError(step)


def seq_objects(case):
    env = {}
    return [seq_build(st, env) for st in case["steps"]]


def seq_impl(case):
    try:
        built = seq_objects(case)
    except BaseException as e:  # noqa: BLE001
        return [-1, exc_code(e)]
    objs = [x[0] for x in built]
    eqm, hm = [], []
    for x in objs:
        for y in objs:
            eqm.append(1 if x == y else 0)
            hm.append(1 if hash(x) == hash(y) else 0)
    return [eqm, hm]


def seq_coq(case):
    objs = [x[0] for x in seq_objects(case)]
    w = Walker()
    fn = "c08_seq" if VARIANT == "cur" else "c08_seq_fix"
    return fn + " " + coq_list(coq_val(w.attr(o)) for o in objs)


def seq_holds(case, res):
    if res[0] == -1:
        return False, f"construction through the converter raised exception code {res[1]}"
    eqm, hm = res
    built = seq_objects(case)
    n = len(built)
    exp = [json.dumps(e, sort_keys=True) for _, e, _ in built]
    for i, (o, _, reparse) in enumerate(built):
        got = observe(o, strict_bool=True)
        if got != exp[i]:
            return False, (f"step {i} {case['steps'][i]}: the constructed attribute carries {got[:160]} but the constructor "
                           f"arguments are {exp[i][:160]}")
        if reparse:
            try:
                p = parse_attr(mkctx(), str(o))
            except BaseException:  # noqa: BLE001
                continue          # printing / parsing defects belong to C06
            if not (p == o and o == p):
                return False, f"step {i}: attribute {o} is not equal to the attribute parsed from its own text"
    relaxed = VARIANT == "cur"
    # for == the bool payloads True/False ARE the ints 1/0 (CPython), so they are not "observably different" here
    key = [e.replace('["bool", ', '["int", ') for e in exp]
    if relaxed:
        key = [observe(o, "relax", strict_bool=True) for o, _, _ in built]
    for i in range(n):
        for j in range(n):
            e = eqm[n * i + j]
            if (key[i] == key[j]) != bool(e):
                return False, (f"steps {i} and {j} are built from "
                               f"{'the same' if key[i] == key[j] else 'observably different'} parameters but == is {bool(e)}")
            if e and not hm[n * i + j] and not nan_objects(built[i][0]):
                return False, f"steps {i} and {j} are equal but hash differently"
    return True, ""


def seq_nontrivial(case, res):
    if res[0] == -1:
        return None
    n = len(case["steps"])
    off = any(res[0][n * i + j] for i in range(n) for j in range(n) if i != j)
    return json.dumps(case["steps"]) if off or any(st[0] in ("cnum", "get_float", "get_array") for st in case["steps"]) else None


SEED_SEQS = [
    [["get_float", 0], ["get_float", NEG_ZERO], ["get_float", 0]],
    [["get_float", NEG_ZERO], ["get_float", 0], ["get_float", NEG_ZERO]],
    [["cnum", 0, bits_of(1.0), "f64"], ["cnum", NEG_ZERO, bits_of(1.0), "f64"], ["cnum", 0, bits_of(1.0), "f64"]],
    [["cnum", NEG_ZERO, bits_of(1.0), "f64"], ["cnum", 0, bits_of(1.0), "f64"]],
    [["cnum", bits_of(1.0), NEG_ZERO, "f32"], ["cnum", bits_of(1.0), 0, "f32"], ["cnum", bits_of(1.0), NEG_ZERO, "f32"]],
    [["get_int", 1, False], ["get_int", 1, True], ["get_int", 1, False]],
    [["get_int", 0, True], ["get_int", 0, False], ["get_float", 0]],
    [["llvm_array", 1, False, ["itype", 8, 0]], ["llvm_array", 1, True, ["itype", 8, 0]]],
    [["llvm_array", 1, True, ["ftype", "f32"]], ["llvm_array", 1, False, ["ftype", "f32"]]],
    [["get_float", CANON_NAN], ["get_float", CANON_NAN + 1], ["get_float", 0xFFF8000000000000], ["get_float", CANON_NAN]],
    [["get_array", [["fdata", 0, None]]], ["get_array", [["fdata", NEG_ZERO, None]]], ["get_array", [["fdata", 0, None]]]],
    [["get_array", [["float", NEG_ZERO, "f32"], ["int", 1]]], ["get_array", [["float", 0, "f32"], ["int", 1]]]],
    [["get_float", bits_of(1.0)], ["get_int", 1, False], ["get_int", 1, True], ["get_float", bits_of(1.0)]],
    [["fusedloc", [["loc", [97], 1, 2]], ["float", 0, "f64"]], ["fusedloc", [["loc", [97], 1, 2]], ["float", NEG_ZERO, "f64"]]],
    [["tuple_t", [["itype", 8, 0], ["ftype", "f32"]]], ["tuple_t", [["itype", 8, 0], ["ftype", "f32"]]], ["tuple_t", [["ftype", "f32"]]]],
    [["get_str", [97]], ["get_str", [97]], ["get_str", []]],
]


def gen_seqs(rng, n):
    cases = [{"steps": s} for s in SEED_SEQS]

    def twin(bits):        # an ==-equal (or NaN-equal) but observably different float, if there is one
        if is_zero_bits(bits):
            return bits ^ NEG_ZERO
        if is_nan_bits(bits):
            return rng.choice([bits ^ 1, bits ^ NEG_ZERO])
        return bits

    while len(cases) < n:
        kind = rng.choice(["get_float", "cnum", "cnum", "get_int", "llvm_array", "get_array", "fusedloc", "tuple_t"])
        steps = []
        if kind == "get_float":
            b0 = rng.choice(SEQ_FLOATS)
            steps = [["get_float", x] for x in rng.sample([b0, twin(b0), b0, rng.choice(SEQ_FLOATS)], 4)]
        elif kind == "cnum":
            re_, im_ = rng.choice(SEQ_FLOATS), rng.choice(SEQ_FLOATS)
            ty = rng.choice(["f32", "f64"])
            vs = [(re_, im_), (twin(re_), im_), (re_, twin(im_)), (re_, im_), (im_, re_)]
            steps = [["cnum", a, b_, ty] for a, b_ in rng.sample(vs, rng.randint(2, 4))]
        elif kind == "get_int":
            v = rng.choice([0, 1])
            vs = [["get_int", v, False], ["get_int", v, True], ["get_int", v, False], ["get_int", 1 - v, True],
                  ["get_float", bits_of(float(v))]]
            steps = rng.sample(vs, rng.randint(2, 4))
        elif kind == "llvm_array":
            v = rng.choice([0, 1])
            et = rand_elt_type(rng)
            vs = [["llvm_array", v, False, et], ["llvm_array", v, True, et], ["llvm_array", v, False, et],
                  ["llvm_array", rng.randint(2, 9), False, et]]
            steps = rng.sample(vs, rng.randint(2, 4))
        elif kind == "get_array":
            b0 = rng.choice(SEQ_FLOATS)
            ty = rng.choice(["f32", "f64"])
            mk = rng.choice([lambda x: ["fdata", x, None], lambda x: ["float", x, ty], lambda x: ["cnum", x, bits_of(1.0), ty]])
            extra = [["int", rng.choice([-1, -2, 0, 1])]] if rng.random() < 0.5 else []
            vs = [["get_array", [mk(b0)] + extra], ["get_array", [mk(twin(b0))] + extra], ["get_array", [mk(b0)] + extra],
                  ["get_array", extra]]
            steps = rng.sample(vs, rng.randint(2, 4))
        elif kind == "fusedloc":
            b0 = rng.choice(SEQ_FLOATS[:6])
            locs = [["loc", rand_cps(rng), rng.randint(0, 2), rng.randint(0, 2)] for _ in range(rng.randint(1, 2))]
            vs = [["fusedloc", locs, ["float", b0, "f64"]], ["fusedloc", locs, ["float", twin(b0), "f64"]],
                  ["fusedloc", locs, ["simple", "none"]], ["fusedloc", locs, ["float", b0, "f64"]]]
            steps = rng.sample(vs, rng.randint(2, 4))
        else:
            ts = [rand_type(rng, 1) for _ in range(rng.randint(0, 3))]
            vs = [["tuple_t", ts], ["tuple_t", ts], ["tuple_t", ts[:-1]], ["tuple_t", list(reversed(ts))]]
            steps = rng.sample(vs, rng.randint(2, 3))
        cases.append({"steps": steps})
    return cases


def seq_usable(case, stats):
    try:
        seq_coq(case)
        return True
    except Unsupported as e:
        stats["seq-unsupported:" + str(e)[:30]] = stats.get("seq-unsupported:" + str(e)[:30], 0) + 1
    except BaseException as e:  # noqa: BLE001
        stats["seq-unbuildable:" + type(e).__name__] = stats.get("seq-unbuildable:" + type(e).__name__, 0) + 1
    return False


# ---------------------------------------------------------------------------- scan for user-defined __eq__/__hash__
def scan_user_defined(ctx: Ctx):
    found = []
    for p in sorted((REPO / "xdsl" / "dialects").rglob("*.py")):
        try:
            tree = ast.parse(p.read_text())
        except SyntaxError:
            continue
        for n in ast.walk(tree):
            if isinstance(n, ast.ClassDef):
                ms = sorted(m.name for m in n.body if isinstance(m, (ast.FunctionDef, ast.Assign)) and (
                    getattr(m, "name", None) in ("__eq__", "__hash__", "__ne__") or (
                        isinstance(m, ast.Assign) and any(getattr(t, "id", None) in ("__eq__", "__hash__") for t in m.targets))))
                if ms:
                    found.append(f"{p.relative_to(REPO)}:{n.lineno} class {n.name}: {', '.join(ms)}")
    ctx.coverage["user_defined_eq_hash_in_xdsl_dialects_ast_scan"] = found
    # runtime, fail-closed: every registered attribute class must use the dataclass-generated methods
    from xdsl.dialects import get_all_dialects
    from xdsl.dialects.builtin import FloatData
    odd, n = [], 0
    for name, fac in sorted(get_all_dialects().items()):
        try:
            d = fac()
        except BaseException:  # noqa: BLE001
            continue
        for a in d.attributes:
            n += 1
            for meth in ("__eq__", "__hash__"):
                fn = getattr(a, meth, None)
                code = getattr(fn, "__code__", None)
                if a is FloatData:
                    continue
                if code is None or code.co_filename != "<string>":
                    odd.append(f"{a.__module__}.{a.__qualname__}.{meth}")
    ctx.coverage["attribute_classes_scanned"] = n
    ctx.coverage["attribute_classes_with_user_defined_eq_or_hash (not covered by the model)"] = odd
    if odd:
        ctx.broken.append({"model_does_not_cover": odd[:10],
                           "why": "attribute classes other than FloatData define their own __eq__/__hash__"})


def detect_variant():
    """which FloatData.__eq__ does the tree under test have: the unchanged one or repair C08-1"""
    # pinned to the repaired model since fix commit a97d45f (no behaviour sniffing: a tree that falls back to
    # the old FloatData.__eq__/__hash__ diverges from the model and fails the oracle on the fixed witnesses)
    return "fix"


# ---------------------------------------------------------------------------- run
def run(ctx: Ctx):
    global VARIANT
    thorough = ctx.tier == "thorough"
    rng = ctx.rng
    stats: dict = {}
    VARIANT = detect_variant()
    ctx.coverage["float_data_variant_detected"] = (
        "unchanged FloatData.__eq__/__hash__ (model eqb/hkey)" if VARIANT == "cur"
        else "repaired FloatData.__eq__/__hash__ (model eqb_fix/hkey_fix)")
    scan_user_defined(ctx)

    replay_findings(ctx, "attr-triples", tr_impl, tr_holds)
    replay_findings(ctx, "parse-two-contexts", tr_impl, tr_holds)

    # 1. triples of constructed attributes
    cases = [c for c in gen_triples(rng, 5000 if thorough else 650) if usable(c, stats)]
    differential(ctx, DiffSpec("attr-triples", REQ, cases, tr_impl, tr_coq, tr_holds, tr_known, tr_nontrivial,
                               shard=150))
    kinds: dict = {}
    for c in cases:
        for s in c["specs"]:
            kinds[s[0]] = kinds.get(s[0], 0) + 1
    ctx.coverage["attr_triples_top_level_kinds"] = kinds

    # 2. the same text parsed in two fresh Contexts (and twice in the first)
    texts = list(FIXED_TEXTS)
    env: dict = {}
    for _ in range(1000 if thorough else 150):
        try:
            texts.append(str(build(rand_spec(rng), env)))
        except BaseException:  # noqa: BLE001
            stats["unprintable-generated"] = stats.get("unprintable-generated", 0) + 1
    texts += corpus_texts(rng, 300 if thorough else 20, stats)
    texts = list(dict.fromkeys(t for t in texts if len(t) <= 200))
    modelled, oracle_only = [], []
    for t in texts:
        u = usable({"text": t}, stats)
        if u is True:
            modelled.append({"text": t})
        elif u is None:
            oracle_only.append({"text": t})
    differential(ctx, DiffSpec("parse-two-contexts", REQ, modelled, tr_impl, tr_coq, tr_holds, tr_known,
                               tr_nontrivial, shard=150))
    ev = eval_cases(oracle_only, tr_impl, tr_holds, tr_known, tr_nontrivial)
    ctx.evaluations += len(oracle_only)
    bad = 0
    for c, (r, ok, why, kid, nt) in zip(oracle_only, ev):
        if nt is not None:
            ctx.nontrivial.add(("parse-oracle-only", nt))
        if not ok and not kid:
            bad += 1
            if bad == 1:
                ctx.violation({"family": "parse-two-contexts (oracle only, payload not modelled)", "case": c,
                               "impl_result": r, "oracle": why})
    ctx.coverage.setdefault("families", {})["parse-two-contexts-oracle-only"] = {
        "cases": len(oracle_only), "oracle_failures": bad, "note": "payload types outside the model (AffineMap, ...)"}

    # 3. IntegerAttr construction and normalisation: exhaustive over small widths
    shards = []
    groups = [[0, 1, 2, 3, 4], [5]] if thorough else [[0, 1, 2, 3]]
    for tr in (False, True):
        for k in (0, 1, 2):
            for ws in groups:
                cs = []
                for w in ws:
                    lo, n = -(1 << w) - 2, 2 * (1 << w) + 5
                    vs = list(range(lo, lo + n))
                    cs += [{"k": k, "w": w, "v1": a, "v2": b, "tr": tr} for a in vs for b in vs]
                shards.append((f"c08_int_sweep_ws {coq_Z(k)} {coq_Zs(ws)} {coq_bool(tr)}", cs))
    sweep_differential(ctx, "integer-attr-all-pairs-small-widths", REQ, shards, int_impl,
                       int_holds, None, int_nontrivial)
    big = []
    for _ in range(2000 if thorough else 300):
        w = rng.choice([7, 8, 16, 31, 32, 63, 64, 65, 128])
        k = rng.choice([0, 0, 1, 2])
        v1 = rng.choice([rand_in_range(rng, w, k), rng.randint(-(1 << w) - 3, (1 << w) + 3)])
        v2 = rng.choice([v1, v1 + (1 << w), v1 - (1 << w), v1 + 1, rand_in_range(rng, w, k)])
        big.append({"k": k, "w": w, "v1": v1, "v2": v2, "tr": rng.random() < 0.3})
    differential(ctx, DiffSpec("integer-attr-large-widths", REQ, big, int_impl,
                               lambda c: f"c08_int {coq_Z(c['k'])} {coq_Z(c['w'])} {coq_Z(c['v1'])} {coq_Z(c['v2'])} {coq_bool(c['tr'])}",
                               int_holds, None, int_nontrivial))

    # 4. the CSE key
    ocases = [c for c in gen_opinfo(rng, 1500 if thorough else 200) if oi_usable(c, stats)]
    differential(ctx, DiffSpec("operation-info-cse-key", REQ, ocases, oi_impl, oi_coq, oi_holds, None, oi_nontrivial,
                               shard=150))

    # 5. sequences through Data.get / parameter converters in one process
    scases = [c for c in gen_seqs(rng, 1200 if thorough else 250) if seq_usable(c, stats)]
    differential(ctx, DiffSpec("converter-get-sequences", REQ, scases, seq_impl, seq_coq, seq_holds, None,
                               seq_nontrivial, shard=150))

    ctx.coverage["dropped_or_unsupported_cases"] = stats
    ctx.coverage["observations_outside_the_property"] = [
        "TupleType([t1, t2]) / FusedLoc([...]) called with a list (against the type hints) store the list unconverted "
        "(converter ArrayAttr.get -> Data.new bypasses ArrayAttr.__init__): the attribute is unhashable and unequal to "
        "the one built from a tuple; the generators pass tuples",
        "IntegerAttr.from_bool(False) stores IntAttr(False) (a bool payload, printed `False` by IntAttr.print_parameter); "
        "bool payloads are modelled as the ints 0/1, with which they compare and hash equal",
        "FloatAttr(x, f16/f32) raises OverflowError from struct.pack for finite x beyond the format's range (cases dropped)",
    ]
    ctx.coverage["rule"] = __doc__.split("\n\n", 1)[1][:1900]
    ctx.coverage["exhaustive"] = False
    ctx.coverage["explanation"] = ("integer-attr-all-pairs is exhaustive over all value pairs in [-2^w-2, 2^w+2] for widths 0..3 (quick) / 0..5 "
                                   "(thorough), three signednesses, with and without truncation; all other families are seeded random + hand-picked seeds")
