"""C02 -- Cloning yields an independent equivalent copy and leaves other IR untouched.

Tie: hand-written Coq model (coq/C02/Model.v) of Operation.clone_without_regions / Operation.clone /
Region.clone / Region.clone_into (two phases incl. the `zip(self.walk(), dest.walk())` operand remap and
Region.insert_block's index semantics) vs the real methods on real IR built with the xDSL API
(test.op / test.termop / test.pureop with operands, results, name hints, attributes, properties,
successors, nested multi-block regions, block arguments, forward and self references, values and blocks
of enclosing / unrelated IR).  A case = a WORLD (list of detached top-level operations / regions /
blocks) + one call.  Object identities are the registration numbers of harness/irdump.Registry (one
counter per class, in creation order), so the model must also allocate the copy's objects in the same
order as the code.  Compared: the dump of the WHOLE world after the call (every item, the three
counters, the use list of every value and every block as a sorted set of (op, index) slots), the id of
the returned op, and both mapper dicts.  Families: `clone` (every entry point), `edits` (op.clone()
followed by edits of the copy: operand set, in-place attribute/property change, erase, insert), and
`apply_to_clone` (oracle only: every listed module shape -- empty body with/without attributes and sym_name, nested, single-op bodies -- x ad-hoc passes that add an op / add a module attribute / rename / erase everything / do nothing, plus registered passes on arith/func/scf modules; the result must be a different object sharing nothing with the original, whose text and identity dump stay unchanged after the pass and after later edits of the result).
Oracle (independent of the model; works on the before/after dumps): every pre-existing item is
unchanged (for clone_into: the destination's old blocks are unchanged, in order, and the new blocks sit
contiguously at the requested index); the copy is isomorphic to the source with inside references mapped
by the returned mappers to fresh, pairwise distinct objects and outside references identical (or as given
by the caller's pre-seeded mapper); the use list of every old value/block is its old use list plus exactly
the slots of the copy that hold it; after edits of the copy every old item still dumps the same.
Non-trivial: the source has >= 2 operations or the destination is non-empty; distinct = (call, dumps).
"""
from __future__ import annotations

import json

from harness.common import Ctx, DiffSpec, differential, replay_findings, exc_code

META = {
    "id": "C02",
    "title": "Cloning yields an independent equivalent copy and leaves other IR untouched",
    "design_ref": "DESIGN.md section 8.C02",
    "technique": "Coq proof (mutual induction over IR trees) about a statement-by-statement model of the two-phase clone "
                 "+ model-vs-code correspondence on generated worlds x every clone entry point",
    "level_text": "",      # filled below (kept next to the theorem list)
    "level_note": "",
}
COQ_TARGETS = ["C02/Enc.vo", "C02/ProofsCor.vo", "C02/ProofsRefute.vo", "C02/ProofsClobber.vo", "Props/C02.vo"]
REQ = ["C02.Model", "C02.Enc"]
ASSUMPTIONS = ["each value / block / operation of the source is defined once (tree well-formedness, C01)",
               "the destination region of clone_into is not nested inside the source region"]
TRUSTED: list[str] = []
MODEL_CFG = "cfg_repo"

NTY, NHINT, NATTR = 4, 3, 5


# ------------------------------------------------------------------------------------------------
# pools

def _pools():
    from xdsl.dialects.builtin import StringAttr, f32, i1, i32, i64
    types = [i32, i64, f32, i1]
    hints = [None, "a", "b"]
    attrs = [({}, {}), ({"x": StringAttr("a")}, {}), ({"x": StringAttr("b")}, {"prop1": StringAttr("a")}),
             ({}, {"prop2": StringAttr("b")}), ({"x": StringAttr("a"), "y": StringAttr("a")}, {"prop1": StringAttr("b")})]
    return types, hints, attrs


def _vpayload(v):
    types, hints, _ = _pools()
    try:
        return types.index(v.type) * NHINT + hints.index(v.name_hint)
    except ValueError:
        return -1


def _apayload(op):
    _, _, attrs = _pools()
    for i, (a, p) in enumerate(attrs):
        if dict(op.attributes) == a and dict(op.properties) == p:
            return i
    return -1


_NAMES = {"test.op": 1, "test.termop": 2, "test.pureop": 3}


# ------------------------------------------------------------------------------------------------
# building the real world from a case

class World:
    def __init__(self):
        self.v, self.b, self.o = {}, {}, {}      # symbol -> object
        self.items = []                          # python objects (Operation / Region / Block), world order
        self.specs = []                          # (op object, op spec) for the patches
        self.reg = None


def _mk_op(spec, w):
    from xdsl.dialects import test
    from xdsl.ir import Region
    types, hints, attrs = _pools()
    regions = [Region([_mk_block(bs, w) for bs in r]) for r in spec["g"]]
    a, p = attrs[spec["a"]]
    kw = dict(operands=[], result_types=[types[t // NHINT] for _, t in spec["r"]], attributes=dict(a),
              properties=dict(p), regions=regions)
    cls = (test.TestOp, test.TestTermOp, test.TestPureOp)[spec["k"]]
    op = cls(**kw)
    for (name, t), res in zip(spec["r"], op.results):
        res.name_hint = hints[t % NHINT]
        w.v[name] = res
    w.o[spec["n"]] = op
    w.specs.append((op, spec))
    return op


def _mk_block(bs, w):
    from xdsl.ir import Block
    types, hints, _ = _pools()
    blk = Block(arg_types=[types[t // NHINT] for _, t in bs["args"]])
    w.b[bs["b"]] = blk
    for (name, t), arg in zip(bs["args"], blk.args):
        arg.name_hint = hints[t % NHINT]
        w.v[name] = arg
    for o in bs["ops"]:
        blk.add_op(_mk_op(o, w))
    return blk


def build(case, reg) -> World:
    """build every item of the world (inside the irdump Registry `reg`), then wire operands/successors"""
    from xdsl.ir import Region
    w = World()
    w.reg = reg
    for it in case["items"]:
        if it["t"] == "op":
            w.items.append(_mk_op(it["x"], w))
        elif it["t"] == "reg":
            w.items.append(Region([_mk_block(bs, w) for bs in it["x"]]))
        else:
            w.items.append(_mk_block(it["x"], w))
    for op, spec in w.specs:
        if spec["o"]:
            op.operands = [w.v[s] for s in spec["o"]]
        if spec["s"]:
            op.successors = [w.b[s] for s in spec["s"]]
    return w


# ------------------------------------------------------------------------------------------------
# dumps (ids = registration numbers)

def d_op(op, reg):
    i = reg.id_of
    return [i(op, "op"), _NAMES.get(op.name, 9), [i(v, "value") for v in op._operands],
            [[i(r, "value"), _vpayload(r)] for r in op.results], _apayload(op),
            [i(s, "block") for s in op._successors], [d_region(r, reg) for r in op.regions]]


def d_block(b, reg):
    i = reg.id_of
    return [i(b, "block"), [[i(a, "value"), _vpayload(a)] for a in b.args], [d_op(o, reg) for o in b.ops]]


def d_region(r, reg):
    return [d_block(b, reg) for b in r.blocks]


def d_item(x, reg):
    from xdsl.ir import Block, Operation
    if isinstance(x, Operation):
        return [0, d_op(x, reg)]
    if isinstance(x, Block):
        return [2, d_block(x, reg)]
    return [1, d_region(x, reg)]


def d_uses(objs, reg):
    out = []
    for v in objs:
        out.append(sorted([reg.id_of(u.operation, "op"), u.index] for u in v.uses))
    return out


def d_world(items, reg):
    vals = [v for v in reg.objs["value"]]
    blks = [b for b in reg.objs["block"]]
    return [[d_item(x, reg) for x in items], len(reg.objs["op"]) + 1, len(vals) + 1, len(blks) + 1,
            d_uses(vals, reg), d_uses(blks, reg)]


def d_dict(m, reg, kind):
    return sorted([reg.id_of(k, kind), reg.id_of(v, kind)] for k, v in m.items())


# ------------------------------------------------------------------------------------------------
# object identities = creation order per class (harness/irdump.Registry; a minimal stand-in with the same
# three members if that module is unavailable)

class _MiniRegistry:
    _current = None
    _installed = False

    def __init__(self):
        self.objs = {k: [] for k in ("op", "block", "region", "value", "use")}
        self.ids = {}

    def register(self, kind, obj):
        if id(obj) not in self.ids:
            self.objs[kind].append(obj)
            self.ids[id(obj)] = (kind, len(self.objs[kind]))

    def id_of(self, obj, kind=None):
        if obj is None:
            return 0
        e = self.ids.get(id(obj))
        return -1 if e is None or (kind is not None and e[0] != kind) else e[1]

    def __enter__(self):
        cls = _MiniRegistry
        if not cls._installed:
            cls._installed = True
            from xdsl.ir import core
            for c, kind in ((core.OpResult, "value"), (core.BlockArgument, "value"), (core.ErasedSSAValue, "value"),
                            (core.Block, "block"), (core.Region, "region"), (core.Operation, "op")):
                def wrap(c=c, kind=kind):
                    orig = c.__init__

                    def init(self, *a, **k):
                        if cls._current is not None:
                            cls._current.register(kind, self)
                        return orig(self, *a, **k)
                    c.__init__ = init
                wrap()
        self._prev, cls._current = cls._current, self
        return self

    def __exit__(self, *a):
        _MiniRegistry._current = self._prev


def new_registry():
    try:
        from harness import irdump
        reg = irdump.Registry()
        if all(hasattr(reg, a) for a in ("objs", "id_of", "__enter__")):
            return reg
    except Exception:       # noqa: BLE001
        pass
    return _MiniRegistry()


# ------------------------------------------------------------------------------------------------
# running a call on the real code

def _src_region(w, call):
    if call["src"] == 0:
        return w.items[call["k"]]
    return w.o[call["src"]].regions[call["k"]]


def _seed(w, pairs, table):
    return {table[a]: table[b] for a, b in pairs}


def observe(case):
    """run the call on the real code -> the complete observation:
    {"before": world dump, "vid"/"bid"/"oid": symbol -> id, then either "exc": code or
     "after": world dump, "new": id of the returned op (0 if none), "vm"/"bm": the mappers as sorted pairs}"""
    call = case["call"]
    with new_registry() as reg:
        w = build(case, reg)
        out = {"before": d_world(w.items, reg),
               "vid": {s: reg.id_of(x, "value") for s, x in w.v.items()},
               "bid": {s: reg.id_of(x, "block") for s, x in w.b.items()},
               "oid": {s: reg.id_of(x, "op") for s, x in w.o.items()}}
        items = list(w.items)
        new_op, vm, bm = None, {}, {}
        kind = call["f"]
        try:
            if kind in ("cwr", "clone"):
                vm = _seed(w, call.get("vm0", []), w.v)
                bm = _seed(w, call.get("bm0", []), w.b)
                src = w.o[call["src"]]
                f = src.clone_without_regions if kind == "cwr" else src.clone
                new_op = f(vm, bm, clone_operands=bool(call.get("co", 1)))
                items.append(new_op)
            elif kind == "rclone":
                items.append(_src_region(w, call).clone())        # returns no mappers
            elif kind == "into":
                vm = _seed(w, call.get("vm0", []), w.v)
                bm = _seed(w, call.get("bm0", []), w.b)
                src = _src_region(w, call)
                src.clone_into(w.items[call["j"]], call["idx"], vm, bm, clone_operands=bool(call.get("co", 1)))
                items += [bm[b] for b in src.blocks if bm[b].parent is None]     # new blocks left detached
            else:
                items = run_edits(case, w, reg)
        except Exception as e:       # noqa: BLE001 -- the code under test raising is a result
            out["exc"] = exc_code(e)
            return out
        out["after"] = _live_world(items, reg)
        out["new"] = reg.id_of(new_op, "op") if new_op is not None else 0
        out["vm"] = d_dict(vm, reg, "value")
        out["bm"] = d_dict(bm, reg, "block")
        return out


def delta(before, after):
    """what is compared with the model: the world after the call as a delta against the items before
    (an unchanged item prints as 1) and the counters; use lists are checked by the oracle (_uses_consistent)"""
    old = before[0]
    its = [1 if k < len(old) and old[k] == x else x for k, x in enumerate(after[0])]
    return [its, after[1], after[2], after[3]]


_OBS: dict = {}        # id(case) -> (case, observation): impl / holds / coq_expr run the code once per case


def obs(case):
    e = _OBS.get(id(case))
    if e is None or e[0] is not case:
        if len(_OBS) > 50000:
            _OBS.clear()
        e = _OBS[id(case)] = (case, observe(case))
    return e[1]


def impl(case):
    o = obs(case)
    if "exc" in o:
        return [-1, o["exc"]]
    if case["call"]["f"] == "edits":
        return delta(o["before"], o["after"])
    return [delta(o["before"], o["after"]), o["new"], o["vm"], o["bm"]]


# ------------------------------------------------------------------------------------------------
# Coq literals

def _Z(n):
    return f"({n})" if n < 0 else str(n)


def _zs(l):
    return "[" + "; ".join(_Z(x) for x in l) + "]"


def _pairs(l):
    return "[" + "; ".join(f"({_Z(a)}, {_Z(b)})" for a, b in l) + "]"


def _lst(items):
    out = "nil"
    for s in reversed(items):
        out = f"(cons {s} {out})"
    return out


def q_op(d):
    regs = _lst([_lst([q_block(b) for b in r]) for r in d[6]])
    return f"(mk {_Z(d[0])} {_Z(d[1])} {_zs(d[2])} {_pairs(d[3])} {_Z(d[4])} {_zs(d[5])} {regs})"


def q_block(d):
    return f"(bk {_Z(d[0])} {_pairs(d[1])} {_lst([q_op(o) for o in d[2]])})"


def q_item(d):
    if d[0] == 0:
        return f"(io {q_op(d[1])})"
    if d[0] == 1:
        return f"(ir {_lst([q_block(b) for b in d[1]])})"
    return f"(ib {q_block(d[1])})"


def _world_before(case):
    o = obs(case)
    return o["before"], o["vid"], o["bid"], o["oid"]


def coq_expr(case):
    dump, vid, bid, oid = _world_before(case)
    call = case["call"]
    vm0 = _pairs([(vid[a], vid[b]) for a, b in call.get("vm0", [])][::-1])     # assoc list: newest first
    bm0 = _pairs([(bid[a], bid[b]) for a, b in call.get("bm0", [])][::-1])
    co = "true" if call.get("co", 1) else "false"
    src = 0 if call.get("src", 0) == 0 else oid[call["src"]]
    f = call["f"]
    if f == "cwr":
        cl = f"(CCwr {src} {vm0} {bm0} {co})"
    elif f == "clone":
        cl = f"(CClone {src} {vm0} {bm0} {co})"
    elif f == "rclone":
        cl = f"(CRegionClone {src} {call['k']})"
    else:
        idx = "None" if call["idx"] is None else f"(Some {_Z(call['idx'])})"
        cl = f"(CInto {src} {call['k']} {call['j']} {idx} {vm0} {bm0} {co})"
    its = _lst([q_item(d) for d in dump[0]])
    return f"c02_case {MODEL_CFG} {its} {dump[1]} {dump[2]} {dump[3]} {cl}"


# ------------------------------------------------------------------------------------------------
# spec-level helpers (independent of the model): walking the abstract case

def s_walk_ops(x):
    """ops of an op spec in pre-order"""
    yield x
    for r in x["g"]:
        for b in r:
            for o in b["ops"]:
                yield from s_walk_ops(o)


def s_region_ops(r):
    for b in r:
        for o in b["ops"]:
            yield from s_walk_ops(o)


def s_item_ops(it):
    if it["t"] == "op":
        yield from s_walk_ops(it["x"])
    elif it["t"] == "reg":
        yield from s_region_ops(it["x"])
    else:
        yield from s_region_ops([it["x"]])


def s_find_op(case, n):
    for it in case["items"]:
        for o in s_item_ops(it):
            if o["n"] == n:
                return o
    raise KeyError(n)


def s_src_region(case, call):
    if call["src"] == 0:
        return case["items"][call["k"]]["x"]
    return s_find_op(case, call["src"])["g"][call["k"]]


def s_region_blocks_all(r):
    """every block symbol defined in a region spec (nested included)"""
    for b in r:
        yield b["b"]
        for o in b["ops"]:
            for rr in o["g"]:
                yield from s_region_blocks_all(rr)


def s_unscoped_succ(root_regions, own_succs=()):
    """True iff some op inside `root_regions` (list of region specs being cloned) has a successor that is
    a block defined inside the cloned part but not a block of a region enclosing that op (such IR is
    rejected by Operation.verify: `branching to a block of a different region`)."""
    inside = set()
    for r in root_regions:
        inside.update(s_region_blocks_all(r))

    def go_region(r, env):
        env2 = env | {b["b"] for b in r}
        for b in r:
            for o in b["ops"]:
                if any(s in inside and s not in env2 for s in o["s"]):
                    return True
                for rr in o["g"]:
                    if go_region(rr, env2):
                        return True
        return False

    if any(s in inside for s in own_succs):
        return True
    return any(go_region(r, frozenset()) for r in root_regions)


# ------------------------------------------------------------------------------------------------
# the statement-level oracle (on dumps)

def _find_op_dump(items, oid):
    def go_op(d):
        if d[0] == oid:
            return d
        for r in d[6]:
            for b in r:
                for o in b[2]:
                    x = go_op(o)
                    if x is not None:
                        return x
        return None
    for it in items:
        if it[0] == 0:
            x = go_op(it[1])
        elif it[0] == 1:
            x = next((y for b in it[1] for o in b[2] if (y := go_op(o)) is not None), None)
        else:
            x = next((y for o in it[1][2] if (y := go_op(o)) is not None), None)
        if x is not None:
            return x
    return None


class Iso:
    """parallel walk of source and copy dumps: collects the def correspondence, checks the shape"""

    def __init__(self):
        self.v, self.b, self.o = [], [], []        # (source id, copy id) in walk order
        self.pairs = []                            # (source op dump, copy op dump)
        self.err = None

    def fail(self, why):
        if self.err is None:
            self.err = why
        return False

    def op(self, s, c, with_regions=True):
        if s[1] != c[1] or s[4] != c[4]:
            return self.fail(f"name/attrs of op {s[0]} vs copy {c[0]}")
        if len(s[3]) != len(c[3]) or [t for _, t in s[3]] != [t for _, t in c[3]]:
            return self.fail(f"result types/hints of op {s[0]}")
        if len(s[6]) != len(c[6]):
            return self.fail(f"region count of op {s[0]}")
        self.o.append((s[0], c[0]))
        self.pairs.append((s, c))
        self.v += [(a[0], b[0]) for a, b in zip(s[3], c[3])]
        if not with_regions:
            if any(len(r) for r in c[6]):
                return self.fail("clone_without_regions produced a non-empty region")
            return True
        return all(self.region(rs, rc) for rs, rc in zip(s[6], c[6]))

    def region(self, rs, rc):
        if len(rs) != len(rc):
            return self.fail("block count")
        return all(self.block(bs, bc) for bs, bc in zip(rs, rc))

    def block(self, bs, bc):
        if [t for _, t in bs[1]] != [t for _, t in bc[1]] or len(bs[2]) != len(bc[2]):
            return self.fail(f"args/op count of block {bs[0]}")
        self.b.append((bs[0], bc[0]))
        self.v += [(a[0], b[0]) for a, b in zip(bs[1], bc[1])]
        return all(self.op(os_, oc) for os_, oc in zip(bs[2], bc[2]))

    def refs_ok(self, vm0, bm0, co, fresh):
        """inside references mapped to the copy, outside ones as given by the caller's mapper / identical;
        copy objects fresh and pairwise distinct"""
        nop, nval, nblk = fresh
        for tab, lo, what in ((self.v, nval, "value"), (self.b, nblk, "block"), (self.o, nop, "op")):
            cs = [c for _, c in tab]
            if len(set(cs)) != len(cs):
                return self.fail(f"copy {what}s not pairwise distinct")
            if any(c < lo for c in cs):
                return self.fail(f"a copy {what} is not a fresh object")
        vmap, bmap = dict(self.v), dict(self.b)
        for s, c in self.pairs:
            want = [vmap[v] if v in vmap else vm0.get(v, v) for v in s[2]] if co else []
            if c[2] != want:
                return self.fail(f"operands of copy op {c[0]}: {c[2]} expected {want}")
            wants = [bmap[x] if x in bmap else bm0.get(x, x) for x in s[5]]
            if c[5] != wants:
                return self.fail(f"successors of copy op {c[0]}: {c[5]} expected {wants}")
        return True

    def mappers_ok(self, vm, bm, vm0, bm0):
        for got, tab, seed, what in ((vm, self.v, vm0, "value"), (bm, self.b, bm0, "block")):
            want = dict(seed)
            want.update(dict(tab))
            if dict(map(tuple, got)) != want:
                return self.fail(f"returned {what}_mapper {got} expected {sorted(want.items())}")
        return True


def _slots(items, sel):
    """id -> sorted (op, index) slots of the dumped world holding it (sel 2: operands, 5: successors)"""
    out = {}

    def go_op(d):
        for i, v in enumerate(d[sel]):
            out.setdefault(v, []).append([d[0], i])
        for r in d[6]:
            for b in r:
                for o in b[2]:
                    go_op(o)
    for it in items:
        if it[0] == 0:
            go_op(it[1])
        elif it[0] == 1:
            for b in it[1]:
                for o in b[2]:
                    go_op(o)
        else:
            for o in it[1][2]:
                go_op(o)
    return {k: sorted(v) for k, v in out.items()}


def _uses_consistent(world):
    """the use list of every value / block is exactly the set of slots of the world that hold it"""
    for sel, lst, what in ((2, world[4], "value"), (5, world[5], "block")):
        sl = _slots(world[0], sel)
        for n, us in enumerate(lst, 1):
            if us != sl.get(n, []):
                return False, f"use list of {what} {n} is {us} but the world's slots holding it are {sl.get(n, [])}"
    return True, ""


def holds(case, r):
    """statement-level oracle: judges the complete observation of the real code (r is its delta form)"""
    if case["call"]["f"] == "edits":
        return holds_edits(case, r)
    return judge(case, obs(case))


def judge(case, o):
    """the property's statement evaluated on an observation {before, vid, bid, oid, after|exc, new, vm, bm}"""
    call = case["call"]
    before, vid, bid, oid = o["before"], o["vid"], o["bid"], o["oid"]
    f = call["f"]
    vm0 = {vid[a]: vid[b] for a, b in call.get("vm0", [])}
    bm0 = {bid[a]: bid[b] for a, b in call.get("bm0", [])}
    co = bool(call.get("co", 1))
    items_b = before[0]
    if "exc" in o:
        if f == "into" and call["idx"] is not None:
            nd = len(items_b[call["j"]][1])
            if not 0 <= call["idx"] <= nd:
                return True, "out-of-range index rejected with an exception"
        return False, f"clone raised (exception code {o['exc']})"
    after = o["after"]
    r = [after, o["new"], o["vm"], o["bm"]]
    items_a = after[0]
    fresh = (before[1], before[2], before[3])
    ok, why = _uses_consistent(after)
    if not ok:
        return False, why
    # old use lists only grow by slots of new operations
    for lst_b, lst_a, what in ((before[4], after[4], "value"), (before[5], after[5], "block")):
        for n, (ub, ua) in enumerate(zip(lst_b, lst_a), 1):
            if [u for u in ua if u[0] < before[1]] != ub:
                return False, f"uses of pre-existing {what} {n} by pre-existing operations changed: {ub} -> {ua}"
    iso = Iso()
    if f in ("clone", "cwr", "rclone"):
        if items_a[:len(items_b)] != items_b:
            k = next(i for i, (x, y) in enumerate(zip(items_b, items_a)) if x != y)
            return False, f"pre-existing item {k} changed"
        if len(items_a) != len(items_b) + 1:
            return False, "expected exactly one new top-level item"
        new = items_a[-1]
        if f == "rclone":
            src = items_b[call["k"]][1] if call["src"] == 0 else _find_op_dump(items_b, oid[call["src"]])[6][call["k"]]
            if new[0] != 1 or not iso.region(src, new[1]) or not iso.refs_ok({}, {}, True, fresh):
                return False, iso.err or "Region.clone did not return a region"
            return True, ""
        src = _find_op_dump(items_b, oid[call["src"]])
        if new[0] != 0 or new[1][0] != r[1]:
            return False, "returned op is not the new item"
        if not iso.op(src, new[1], with_regions=(f == "clone")) or not iso.refs_ok(vm0, bm0, co, fresh) \
                or not iso.mappers_ok(r[2], r[3], vm0, bm0):
            return False, iso.err
        return True, ""
    # clone_into
    j = call["j"]
    src = items_b[call["k"]][1] if call["src"] == 0 else _find_op_dump(items_b, oid[call["src"]])[6][call["k"]]
    dest_b = items_b[j][1]
    idx = len(dest_b) if call["idx"] is None else call["idx"]
    if not 0 <= idx <= len(dest_b):
        return False, (f"insert_index {idx} is out of range for a destination with {len(dest_b)} block(s): no exception, "
                       f"the clone is not in the destination ({len(items_a) - len(items_b)} detached block(s) left over)")
    if len(items_a) != len(items_b):
        return False, "new top-level items appeared"
    for k, (x, y) in enumerate(zip(items_b, items_a)):
        if k != j and x != y:
            return False, f"pre-existing item {k} changed"
    dest_a = items_a[j][1]
    n = len(src)
    if len(dest_a) != len(dest_b) + n:
        return False, f"destination has {len(dest_a)} blocks, expected {len(dest_b) + n}"
    if dest_a[:idx] != dest_b[:idx] or dest_a[idx + n:] != dest_b[idx:]:
        return False, "a pre-existing block of the destination changed"
    if not iso.region(src, dest_a[idx:idx + n]) or not iso.refs_ok(vm0, bm0, co, fresh) \
            or not iso.mappers_ok(r[2], r[3], vm0, bm0):
        return False, iso.err
    return True, ""


def _walk_len(blocks_dump):
    n = 0
    for b in blocks_dump:
        for o in b[2]:
            n += 1 + sum(_walk_len(r) for r in o[6])
    return n


def known(case, r):
    """the CLASS of a failing case (never `any failure`); a failure whose symptom is a wrong SUCCESSOR belongs
    to the unscoped-successor class only (so that it stays attributed correctly once C02-kf-1 is repaired)"""
    call = case["call"]
    f = call["f"]
    why = judge(case, obs(case))[1] if r is not None else ""
    if why.startswith("successors of copy op"):
        if f in ("into", "rclone"):
            return "C02-kf-4" if s_unscoped_succ([s_src_region(case, call)]) else None
        if f == "clone":
            x = s_find_op(case, call["src"])
            return "C02-kf-4" if s_unscoped_succ(x["g"], x["s"]) else None
        return None
    if f == "into":
        dest = case["items"][call["j"]]["x"]
        src = s_src_region(case, call)
        idx = len(dest) if call["idx"] is None else call["idx"]
        if not 0 <= idx <= len(dest):
            return "C02-kf-2"
        if call.get("co", 1) and any(True for _ in s_region_ops(dest[:idx])) and any(True for _ in s_region_ops(src)):
            return "C02-kf-1"
        return None
    if f == "cwr":
        x = s_find_op(case, call["src"])
        if call.get("co", 1) and any(v in {n for n, _ in x["r"]} for v in x["o"]):
            return "C02-kf-3"
    return None


def nontrivial(case, r):
    call = case["call"]
    if r and r[0] == -1:
        return None
    n_src = 0
    if call["f"] in ("clone", "cwr"):
        n_src = sum(1 for _ in s_walk_ops(s_find_op(case, call["src"])))
    else:
        n_src = sum(1 for _ in s_region_ops(s_src_region(case, call)))
    dest_nonempty = call["f"] == "into" and len(case["items"][call["j"]]["x"]) > 0
    if n_src >= 2 or dest_nonempty:
        return json.dumps([call, obs(case)["before"][0]], sort_keys=True)
    return None


# ------------------------------------------------------------------------------------------------
# generators (every case a pure function of the rng)

class Gen:
    def __init__(self, rng):
        self.rng = rng
        self.nv = self.nb = self.no = 0
        self.budget = 0

    def val(self):
        self.nv += 1
        return self.nv

    def vals(self, hi):
        r = self.rng
        return [[self.val(), r.randrange(NTY * NHINT)] for _ in range(r.choice([0, 1, 1, 2][:hi + 2]))]

    def op(self, depth):
        r = self.rng
        self.no += 1
        n = self.no
        self.budget -= 1
        regs = []
        if depth > 0 and self.budget > 0 and r.random() < 0.45:
            for _ in range(r.choice([1, 1, 1, 2])):
                regs.append(self.region(depth - 1, r.choice([0, 1, 1, 1, 2, 2, 3])))
        return {"k": r.choice([0, 0, 0, 1, 2]), "n": n, "o": [], "r": self.vals(2), "a": r.randrange(NATTR),
                "s": [], "g": regs}

    def block(self, depth, max_ops=3):
        r = self.rng
        self.nb += 1
        b = self.nb
        args = self.vals(2)
        ops = []
        for _ in range(r.randint(0, max_ops)):
            if self.budget <= 0:
                break
            ops.append(self.op(depth))
        return {"b": b, "args": args, "ops": ops}

    def region(self, depth, nblocks):
        return [self.block(depth) for _ in range(nblocks)]


def _index_world(items):
    """all value symbols, all block symbols, and for every op the list of enclosing-region block sets"""
    vals, blks, ops = [], [], []

    def go_op(o, encl):
        ops.append((o, encl))
        vals.extend(n for n, _ in o["r"])
        for r in o["g"]:
            go_region(r, encl)

    def go_region(r, encl):
        mine = [b["b"] for b in r]
        blks.extend(mine)
        for b in r:
            vals.extend(n for n, _ in b["args"])
            for o in b["ops"]:
                go_op(o, [mine] + encl)

    for it in items:
        if it["t"] == "op":
            go_op(it["x"], [])
        elif it["t"] == "reg":
            go_region(it["x"], [])
        else:
            go_region([it["x"]], [])
    return vals, blks, ops


def gen_world(rng, want_dest=False, unscoped=0.04, selfref=0.03):
    g = Gen(rng)
    g.budget = rng.choice([4, 8, 12, 18])
    items = []
    kinds = [rng.choice(["op", "op", "op", "reg", "blk"]) for _ in range(rng.randint(1, 3))]
    if want_dest:
        kinds.insert(rng.randrange(len(kinds) + 1), "dest")
    if "op" not in kinds:
        kinds.insert(0, "op")
    for k in kinds:
        if k == "op":
            items.append({"t": "op", "x": g.op(rng.choice([1, 2, 2, 3]))})
        elif k == "reg":
            items.append({"t": "reg", "x": g.region(rng.choice([0, 1, 2]), rng.choice([0, 1, 2, 3]))})
        elif k == "dest":
            g.budget = max(g.budget, 3)
            items.append({"t": "reg", "x": [g.block(rng.choice([0, 0, 1]), 2) for _ in range(rng.choice([0, 1, 1, 2, 2, 3, 3]))]})
        else:
            items.append({"t": "blk", "x": g.block(1)})
    vals, blks, ops = _index_world(items)
    for o, encl in ops:
        if vals:
            for _ in range(rng.choice([0, 0, 1, 1, 2, 3])):
                if o["r"] and rng.random() < selfref:
                    o["o"].append(rng.choice(o["r"])[0])
                else:
                    o["o"].append(rng.choice(vals))
        if o["k"] != 0 and blks:
            for _ in range(rng.choice([0, 1, 1, 2])):
                if encl and rng.random() >= unscoped:
                    lvl = encl[0] if rng.random() < 0.85 else rng.choice(encl)
                    o["s"].append(rng.choice(lvl))
                elif rng.random() < 0.5 or not encl:
                    o["s"].append(rng.choice(blks))      # any block of the world (outside / unscoped / nested)
    return items, vals, blks, ops


def _seed_pairs(rng, pool, p):
    if not pool or rng.random() >= p:
        return []
    return [[rng.choice(pool), rng.choice(pool)] for _ in range(rng.choice([1, 1, 2]))]


def _regions_of(items, ops):
    out = [(0, k) for k, it in enumerate(items) if it["t"] == "reg"]
    out += [(o["n"], k) for o, _ in ops for k in range(len(o["g"]))]
    return out


def _region_at(items, ops, x):
    return items[x[1]]["x"] if x[0] == 0 else next(o for o, _ in ops if o["n"] == x[0])["g"][x[1]]


def gen_case(rng, f=None):
    f = f or rng.choice(["clone"] * 3 + ["cwr"] + ["rclone"] + ["into"] * 5)
    items, vals, blks, ops = gen_world(rng, want_dest=(f == "into"))
    call = {"f": f}
    if f in ("clone", "cwr"):
        big = [o for o, _ in ops if sum(1 for _ in s_walk_ops(o)) >= 2]
        src = rng.choice(big) if big and rng.random() < (0.85 if f == "clone" else 0.3) else rng.choice(ops)[0]
        call.update(src=src["n"], co=int(rng.random() < 0.85), vm0=_seed_pairs(rng, vals, 0.25),
                    bm0=_seed_pairs(rng, blks, 0.15))
    elif f == "rclone":
        regs = _regions_of(items, ops)
        if not regs:
            return gen_case(rng, "clone")
        rich = [x for x in regs if sum(1 for _ in s_region_ops(_region_at(items, ops, x))) >= 2]
        s, k = rng.choice(rich) if rich and rng.random() < 0.8 else rng.choice(regs)
        call.update(src=s, k=k)
    else:
        dests = [k for k, it in enumerate(items) if it["t"] == "reg"]
        j = rng.choice(dests)
        regs = [x for x in _regions_of(items, ops) if x != (0, j)]
        if not regs:
            return gen_case(rng, "into")
        nonempty = [x for x in regs if _region_at(items, ops, x)]
        rich = [x for x in regs if sum(1 for _ in s_region_ops(_region_at(items, ops, x))) >= 2]
        r = rng.random()
        s, k = rng.choice(rich) if rich and r < 0.6 else rng.choice(nonempty) if nonempty and r < 0.9 else rng.choice(regs)
        nd = len(items[j]["x"])
        mid = rng.randint(1, nd - 1) if nd >= 2 else rng.randint(0, nd)
        idx = rng.choice([None, None, None, 0, 0, 0, nd, nd, nd, mid, mid, mid, mid, nd + 1, nd + 2, -1])
        call.update(src=s, k=k, j=j, idx=idx, co=int(rng.random() < 0.85), vm0=_seed_pairs(rng, vals, 0.2),
                    bm0=_seed_pairs(rng, blks, 0.15))
    return {"items": items, "call": call}


# ------------------------------------------------------------------------------------------------
# family `edits`: op.clone() followed by edits of the copy

def gen_edit_case(rng):
    items, vals, blks, ops = gen_world(rng, unscoped=0.0, selfref=0.0)
    big = [o for o, _ in ops if o["g"]]
    src = rng.choice(big) if big and rng.random() < 0.8 else rng.choice(ops)[0]
    sops = list(s_walk_ops(src))
    sblocks = [b for r in src["g"] for b in _spec_blocks(r)]
    svals = _spec_defs(src)
    edits, pinned = [], set()
    for _ in range(rng.randint(1, 5)):
        kind = rng.choice(["set", "set", "attr", "ins"])
        k = rng.randrange(len(sops))
        if kind == "set":
            nopnd = len(sops[k]["o"])
            i = rng.randrange(nopnd) if nopnd and rng.random() < 0.9 else rng.choice([-1, nopnd, nopnd + 1])
            if svals and rng.random() < 0.5:
                n = rng.randrange(len(svals))
                pinned.add(svals[n])
                edits.append(["set", k, i, ["c", n]])
            elif vals:
                edits.append(["set", k, i, ["o", rng.choice(vals)]])
        elif kind == "attr":
            edits.append(["attr", k, rng.randrange(NATTR)])
        elif sblocks:
            edits.append(["ins", rng.randrange(len(sblocks)), rng.choice([-1, 0, 0, 1, 2, 5]), rng.choice([0, 1, 2]),
                          rng.randrange(NTY * NHINT)])
    # erasures come last (Operation.erase allocates ErasedSSAValue objects): an op of the copy other than
    # the root whose own results are used only inside its own sub-tree
    for _ in range(rng.choice([0, 1, 1, 2])):
        cands = []
        for k, o in enumerate(sops[1:], 1):
            own = {n for n, _ in o["r"]}
            inner = {id(x) for x in s_walk_ops(o)}
            if own & pinned:
                continue
            if all(not (own & set(u["o"])) or id(u) in inner for u in sops):
                cands.append(k)
        if cands:
            edits.append(["erase", rng.choice(cands)])
    return {"items": items, "call": {"f": "edits", "src": src["n"], "edits": edits}}


def _spec_blocks(r):
    for b in r:
        yield b
        for o in b["ops"]:
            for rr in o["g"]:
                yield from _spec_blocks(rr)


def _spec_defs(o):
    out = [n for n, _ in o["r"]]
    for r in o["g"]:
        for b in r:
            out += [n for n, _ in b["args"]]
            for x in b["ops"]:
                out += _spec_defs(x)
    return out


def _live_world(items, reg):
    """d_world without the ErasedSSAValue objects allocated by Operation.erase (always registered last)"""
    from xdsl.ir.core import ErasedSSAValue
    vals = [v for v in reg.objs["value"] if not isinstance(v, ErasedSSAValue)]
    assert vals == reg.objs["value"][:len(vals)]
    return [[d_item(x, reg) for x in items], len(reg.objs["op"]) + 1, len(vals) + 1, len(reg.objs["block"]) + 1,
            d_uses(vals, reg), d_uses(reg.objs["block"], reg)]


def run_edits(case, w, reg):
    """clone the source op, then edit the copy; -> items of the world afterwards"""
    from xdsl.dialects import test
    types, hints, attrs = _pools()
    call = case["call"]
    src = w.o[call["src"]]
    cp = src.clone()
    items = list(w.items) + [cp]
    cops = list(cp.walk())
    cblocks = list(cp.walk_blocks())
    cvals = []

    def defs(o):
        cvals.extend(o.results)
        for r in o.regions:
            for b in r.blocks:
                cvals.extend(b.args)
                for x in b.ops:
                    defs(x)
    defs(cp)
    dead = set()
    for e in call["edits"]:
        if e[0] == "set":
            _, k, i, (t, n) = e
            o = cops[k]
            if id(o) in dead or not 0 <= i < len(o.operands):
                continue
            o.operands[i] = cvals[n] if t == "c" else w.v[n]
        elif e[0] == "attr":
            o = cops[e[1]]
            if id(o) in dead:
                continue
            a, p = attrs[e[2]]
            o.attributes.clear()           # in place: an attribute dict shared with the source would show
            o.attributes.update(a)
            o.properties.clear()
            o.properties.update(p)
        elif e[0] == "ins":
            _, k, i, n, t = e
            blk = cblocks[k]
            new = test.TestOp(result_types=[types[t // NHINT]] * n)
            for res in new.results:
                res.name_hint = hints[t % NHINT]
            cur = list(blk.ops)
            if i >= len(cur) or not cur:
                blk.add_op(new)
            else:
                blk.insert_op_before(new, cur[max(i, 0)])
        else:
            o = cops[e[1]]
            if id(o) in dead:
                continue
            dead.update(id(x) for x in o.walk())
            o.detach()
            o.erase()
    return items


def coq_expr_edits(case):
    dump, vid, bid, oid = _world_before(case)
    ps = []
    for e in case["call"]["edits"]:
        if e[0] == "set":
            v = -(e[3][1] + 1) if e[3][0] == "c" else vid[e[3][1]]
            ps.append(f"(PSet {e[1]} {_Z(e[2])} {_Z(v)})")
        elif e[0] == "attr":
            ps.append(f"(PAttr {e[1]} {e[2]})")
        elif e[0] == "ins":
            ps.append(f"(PIns {e[1]} {_Z(e[2])} {e[3]} {e[4]})")
        else:
            ps.append(f"(PErase {e[1]})")
    its = _lst([q_item(d) for d in dump[0]])
    return f"c02_edits {its} {dump[1]} {dump[2]} {dump[3]} {oid[case['call']['src']]} {_lst(ps)}"


def holds_edits(case, r):
    """later edits of the copy are not visible in any pre-existing IR"""
    o = obs(case)
    if "exc" in o:
        return False, f"an edit of the copy raised (exception code {o['exc']})"
    before, after = o["before"], o["after"]
    n = len(before[0])
    if after[0][:n] != before[0]:
        k = next(i for i, (x, y) in enumerate(zip(before[0], after[0])) if x != y)
        return False, f"pre-existing item {k} changed after edits of the copy"
    ok, why = _uses_consistent(after)
    if not ok:
        return False, why
    for lst_b, lst_a, what in ((before[4], after[4], "value"), (before[5], after[5], "block")):
        for m, (ub, ua) in enumerate(zip(lst_b, lst_a), 1):
            if [u for u in ua if u[0] < before[1]] != ub:
                return False, f"uses of pre-existing {what} {m} by pre-existing operations changed: {ub} -> {ua}"
    return True, ""


def nontrivial_edits(case, r):
    if r and r[0] == -1:
        return None
    return json.dumps([case["call"]["edits"], obs(case)["before"][0]], sort_keys=True)


# ------------------------------------------------------------------------------------------------
# family `apply_to_clone` (oracle only): a mutating pass applied to a clone leaves the module unchanged

_MODULES = [
    """builtin.module {
  func.func @f(%x : i32) -> i32 {
    %c0 = arith.constant 0 : i32
    %c1 = arith.constant K1 : i32
    %a = arith.addi %x, %c0 : i32
    %b = arith.muli %a, %c1 : i32
    %dead = arith.addi %c1, %c1 : i32
    func.return %b : i32
  }
}""",
    """builtin.module {
  %c = arith.constant K1 : i64
  %d = arith.constant K2 : i64
  %e = arith.addi %c, %d : i64
  %f = arith.addi %c, %d : i64
  %g = arith.muli %e, %f : i64
  "test.op"(%g) : (i64) -> ()
}""",
    """builtin.module {
  func.func @g(%p : i1, %x : i32) -> i32 {
    %r = scf.if %p -> (i32) {
      %c = arith.constant K1 : i32
      %s = arith.addi %x, %c : i32
      scf.yield %s : i32
    } else {
      %z = arith.constant 0 : i32
      %t = arith.addi %x, %z : i32
      scf.yield %t : i32
    }
    %unused = arith.constant K2 : i32
    func.return %r : i32
  }
}""",
    """builtin.module {
  "test.op"(%late) : (i32) -> ()
  %late = arith.constant K1 : i32
  %u = arith.addi %late, %late : i32
}""",
]
_PASSES = ["canonicalize", "dce", "cse", "constant-fold-interp"]


def _ident_dump(op):
    """canonical structure of an IR by PYTHON identity: changes iff any object is added/removed/rewired,
    or any attribute / property (module attributes and sym_name included) changes"""
    out = []
    for o in op.walk():
        out.append((id(o), o.name, tuple(id(v) for v in o._operands), tuple(id(r) for r in o.results),
                    tuple(sorted((k, str(v)) for k, v in o.attributes.items())),
                    tuple(sorted((k, str(v)) for k, v in o.properties.items())),
                    tuple(id(s) for s in o._successors), id(o.parent),
                    tuple((id(r), tuple((id(b), tuple(id(a) for a in b.args), tuple(id(x) for x in b.ops)) for b in r.blocks))
                          for r in o.regions),
                    tuple(tuple(sorted((id(u.operation), u.index) for u in r.uses)) for r in o.results)))
    return out


def _objects(op):
    """python identities of every operation, region and block of an IR"""
    out = set()
    for o in op.walk():
        out.add(id(o))
        for r in o.regions:
            out.add(id(r))
            out.update(id(b) for b in r.blocks)
    return out


# module shapes named in the property text and around it: (name, text, path of the module handed to
# apply_to_clone inside the parsed top-level module: () = the top-level module itself)
_SHAPES = [
    ("empty", "builtin.module {}", ()),
    ("empty+attrs", "builtin.module attributes {a = 1 : i32, b = \"x\"} {}", ()),
    ("empty+sym_name", "builtin.module @m {}", ()),
    ("empty+sym_name+attrs", "builtin.module @m attributes {a = 1 : i32} {}", ()),
    ("empty nested", "builtin.module { builtin.module @inner {} }", (0,)),
    ("empty nested+attrs", "builtin.module @outer { \"test.op\"() : () -> ()  builtin.module @inner attributes {k = unit} {} }", (1,)),
    ("outer of empty", "builtin.module { builtin.module @inner {} }", ()),
    ("single op", "builtin.module { \"test.op\"() : () -> () }", ()),
    ("single constant", "builtin.module attributes {a = 2 : i64} { %c = arith.constant 1 : i32 }", ()),
    ("single op with region", "builtin.module { \"test.op\"() ({ %c = arith.constant 1 : i32 }) : () -> () }", ()),
    ("nested nonempty", "builtin.module { builtin.module @inner { %c = arith.constant 3 : i32  \"test.op\"(%c) : (i32) -> () } }", (0,)),
]
_ADHOC = ["noop", "add-op", "add-attr", "rename", "erase-all", "add-op+attr"]


def _adhoc_pass(kind):
    """ad-hoc ModulePass subclasses that ADD to / rename / empty the module they are given"""
    from dataclasses import dataclass
    from xdsl.dialects import test
    from xdsl.dialects.builtin import StringAttr
    from xdsl.passes import ModulePass
    from xdsl.rewriter import Rewriter

    def apply(self, ctx, op):
        if "add-op" in kind:
            op.body.block.add_op(test.TestOp(result_types=[]))
        if "attr" in kind:
            op.attributes["c02.mark"] = StringAttr("added by the pass")
        if kind == "rename":
            op.sym_name = StringAttr("renamed_by_the_pass")
        if kind == "erase-all":
            for o in reversed(list(op.body.block.ops)):
                Rewriter.erase_op(o, safe_erase=False)

    cls = type("C02Pass_" + kind.replace("-", "_").replace("+", "_"), (ModulePass,), {"name": "c02-" + kind, "apply": apply})
    return dataclass(frozen=True)(cls)()


def _edit_result(m2):
    """later edits of the returned module (must be invisible in the original)"""
    from xdsl.dialects import test
    from xdsl.dialects.builtin import StringAttr
    from xdsl.rewriter import Rewriter
    m2.attributes["c02.later"] = StringAttr("later edit")
    m2.sym_name = StringAttr("later_name")
    for o in reversed(list(m2.body.block.ops)):
        Rewriter.erase_op(o, safe_erase=False)
    m2.body.block.add_op(test.TestOp(result_types=[]))


def apply_to_clone_case(text, path, the_pass):
    """-> (ok, why, changed): run the_pass.apply_to_clone on the module at `path`, judge the statement"""
    from xdsl.context import Context
    from xdsl.dialects import arith, builtin, func, scf, test
    from xdsl.parser import Parser
    c = Context()
    for d in (arith.Arith, builtin.Builtin, func.Func, scf.Scf, test.Test):
        c.load_dialect(d)
    top = Parser(c, text).parse_module()
    m = top
    for i in path:
        m = list(m.body.block.ops)[i]
    before_txt, before_ids = str(top), _ident_dump(top)
    try:
        _, m2 = the_pass.apply_to_clone(c, m)
    except Exception:       # noqa: BLE001 -- a pass that aborts is C17's business; the original must still be intact
        m2 = None
    if str(top) != before_txt or _ident_dump(top) != before_ids:
        return False, "the original module changed when the pass ran on its clone", False
    if m2 is None:
        return True, "", False
    if m2 is m:
        return False, "apply_to_clone returned the ORIGINAL module object, not a copy", False
    if _objects(m2) & _objects(top):
        return False, "the returned module shares operations / regions / blocks with the original", False
    changed = str(m2) != str(m)
    try:
        _edit_result(m2)
    except Exception as e:       # noqa: BLE001
        return False, f"editing the returned module raised {type(e).__name__}", changed
    if str(top) != before_txt or _ident_dump(top) != before_ids:
        return False, "a later edit of the returned module is visible in the original", changed
    return True, "", changed


def run_apply_to_clone(ctx: Ctx, n: int):
    """oracle-only family: (a) every module shape x every ad-hoc pass (complete sweep of the listed shapes),
    (b) n random (arith/func/scf module, registered pass) pairs"""
    from xdsl.transforms import get_all_passes
    passes = get_all_passes()
    fails, changed, total, adhoc = [], 0, 0, 0
    jobs = [(nm, text, path, kind) for nm, text, path in _SHAPES for kind in _ADHOC]
    for k, text in enumerate(_MODULES):          # the larger modules once with an adding and an emptying pass
        jobs += [(f"module {k}", text.replace("K1", "5").replace("K2", "1"), (), kind) for kind in ("add-op+attr", "erase-all")]
    for _ in range(n):
        k = ctx.rng.randrange(len(_MODULES))
        text = _MODULES[k].replace("K1", str(ctx.rng.choice([0, 1, 2, 7]))).replace("K2", str(ctx.rng.choice([0, 1, 3])))
        jobs.append((f"module {k}", text, (), "pass:" + ctx.rng.choice(_PASSES)))
    for nm, text, path in _SHAPES[:7]:            # registered passes on the empty shapes as well
        jobs.append((nm, text, path, "pass:" + ctx.rng.choice(_PASSES)))
    for nm, text, path, kind in jobs:
        the_pass = passes[kind[5:]]()() if kind.startswith("pass:") else _adhoc_pass(kind)
        ok, why, ch = apply_to_clone_case(text, path, the_pass)
        total += 1
        adhoc += not kind.startswith("pass:")
        changed += ch
        if not ok:
            fails.append({"shape": nm, "text": text, "path": list(path), "pass": kind, "oracle": why})
        ctx.nontrivial.add(("apply_to_clone", nm, kind, text))
    ctx.evaluations += total
    ctx.coverage.setdefault("families", {})["apply_to_clone"] = {
        "cases": total, "adhoc_pass_cases": adhoc, "oracle_failures": len(fails), "clones_changed_by_the_pass": changed,
        "shapes": [nm for nm, _, _ in _SHAPES], "adhoc_passes": _ADHOC, "passes": _PASSES,
        "oracle": "result is a different object sharing no op/region/block with the original; original's text and identity dump "
                  "(attributes, properties incl. sym_name, structure, uses) unchanged after the pass AND after later edits of the result",
        "model": "none (oracle only; the model-level statement is C02_apply_to_clone)"}
    if fails:
        fails.sort(key=lambda f: len(f["text"]))
        ctx.violation({"family": "apply_to_clone", "case": fails[0], "oracle": fails[0]["oracle"],
                       "other_failing_cases": len(fails) - 1})


# ------------------------------------------------------------------------------------------------
# the repaired configuration of the MODEL judged by the same oracle (how the lead validates the flip)

def model_observation(case, m):
    """turn a model result (delta form) into an observation for `judge`; use lists derived from the dump"""
    o = obs(case)
    out = {k: o[k] for k in ("before", "vid", "bid", "oid")}
    if m == -2:
        out["exc"] = 0
        return out
    (its, nop, nval, nblk), new, vm, bm = m
    old = o["before"][0]
    items = [old[k] if x == 1 else x for k, x in enumerate(its)]
    sv, sb = _slots(items, 2), _slots(items, 5)
    out["after"] = [items, nop, nval, nblk, [sv.get(v, []) for v in range(1, nval)],
                    [sb.get(b, []) for b in range(1, nblk)]]
    out["new"], out["vm"], out["bm"] = new, vm, bm
    return out


def check_fixed_model(ctx: Ctx, cases):
    """cases of the kf-1 class: the model with cfg_fixed must satisfy the statement-level oracle"""
    sel = [c for c in cases if c["call"]["f"] == "into" and known(c, None) == "C02-kf-1"
           and not s_unscoped_succ([s_src_region(c, c["call"])])]
    if not sel:
        return
    exprs = [coq_expr(c).replace(f"c02_case {MODEL_CFG} ", "c02_case cfg_fixed ", 1) for c in sel]
    res = ctx.coq_eval(REQ, exprs, shard=max(20, (len(exprs) + 5) // 6))
    bad = []
    for c, m in zip(sel, res):
        ok, why = judge(c, model_observation(c, m))
        if not ok:
            bad.append((c, why))
    ctx.evaluations += len(sel)
    ctx.coverage["fixed_model_vs_oracle"] = {"cases_of_class_kf1": len(sel), "oracle_failures": len(bad),
                                             "what": "Model.v cfg_fixed (remap over the new blocks only) judged by the python oracle"}
    if bad:
        ctx.broken.append({"fixed_model_fails_oracle": bad[0][1], "case": bad[0][0], "count": len(bad)})


# ------------------------------------------------------------------------------------------------
# hand-written corpus: the witnesses of the findings and the shapes named in the property text

def _o(n, k=0, o=(), r=(), a=0, s=(), g=()):
    return {"k": k, "n": n, "o": list(o), "r": [list(x) for x in r], "a": a, "s": list(s), "g": [list(x) for x in g]}


def _b(b, args=(), ops=()):
    return {"b": b, "args": [list(x) for x in args], "ops": list(ops)}


def corpus():
    outer = _o(1, r=[(1, 0), (2, 1)])
    src = [_b(1, [(3, 0)], [_o(2, o=[3, 1], r=[(4, 0)]), _o(3, o=[4])])]
    dest = [_b(2, [], [_o(4, o=[2], r=[(5, 3)])])]
    w1 = [{"t": "op", "x": outer}, {"t": "reg", "x": src}, {"t": "reg", "x": dest}]
    out = []
    for idx in (1, None, 0, 3, -1):
        for co in (1, 0):
            out.append({"items": w1, "call": {"f": "into", "src": 0, "k": 1, "j": 2, "idx": idx, "co": co}})
    # graph region with use before def, self use, outside value/block, nested multi-block region with branches
    inner = [_b(2, [], [_o(13, k=1, o=[1, 4], s=[3, 1])]), _b(3, [(5, 0)], [_o(14, k=1, o=[5], s=[2, 7])])]
    big = _o(10, o=[9], r=[(1, 0)], a=3, g=[[_b(1, [(2, 4)], [_o(11, o=[4, 2, 9], r=[(3, 0)]),
                                                              _o(12, k=2, o=[3, 4], r=[(4, 8)], a=1, g=[inner])])]])
    w4 = [{"t": "op", "x": _o(9, r=[(9, 0)])}, {"t": "blk", "x": _b(7)}, {"t": "op", "x": big}, {"t": "reg", "x": []}]
    out.append({"items": w4, "call": {"f": "clone", "src": 10}})
    out.append({"items": w4, "call": {"f": "clone", "src": 10, "co": 0}})
    out.append({"items": w4, "call": {"f": "clone", "src": 12, "vm0": [[9, 1]], "bm0": [[7, 1]]}})
    out.append({"items": w4, "call": {"f": "cwr", "src": 12}})
    out.append({"items": w4, "call": {"f": "rclone", "src": 10, "k": 0}})
    out.append({"items": w4, "call": {"f": "into", "src": 12, "k": 0, "j": 3, "idx": None}})
    out.append({"items": w4, "call": {"f": "edits", "src": 10,
                                      "edits": [["set", 1, 0, ["o", 9]], ["attr", 2, 4], ["ins", 1, 0, 2, 5], ["erase", 3]]}})
    # self use under clone_without_regions; successor into a later region
    out.append({"items": [{"t": "op", "x": _o(1, o=[1], r=[(1, 0)])}], "call": {"f": "cwr", "src": 1}})
    out.append({"items": [{"t": "op", "x": _o(1, o=[1], r=[(1, 0)])}], "call": {"f": "clone", "src": 1}})
    w3 = _o(1, g=[[_b(1, [], [_o(2, k=1, s=[3])]), _b(2, [], [_o(3, g=[[_b(3)]])])]])
    out.append({"items": [{"t": "op", "x": w3}], "call": {"f": "clone", "src": 1}})
    return out


# ------------------------------------------------------------------------------------------------

def coq_expr_any(case):
    return coq_expr_edits(case) if case["call"]["f"] == "edits" else coq_expr(case)


def nontrivial_any(case, r):
    return nontrivial_edits(case, r) if case["call"]["f"] == "edits" else nontrivial(case, r)


def known_any(case, r):
    return None if case["call"]["f"] == "edits" else known(case, r)


def _cover(ctx, cases):
    from collections import Counter
    calls, idxs, dests, srcs, extras = Counter(), Counter(), Counter(), Counter(), Counter()
    for c in cases:
        call = c["call"]
        calls[call["f"]] += 1
        if call["f"] == "into":
            nd = len(c["items"][call["j"]]["x"])
            i = call["idx"]
            idxs["None" if i is None else "out-of-range" if not 0 <= i <= nd else
                 "0" if i == 0 else "end" if i == nd else "middle"] += 1
            dests[f"{nd} block(s)"] += 1
            before = sum(1 for _ in s_region_ops(c["items"][call["j"]]["x"][:nd if i is None else max(i, 0)]))
            extras["ops before the insertion point" if before else "no op before the insertion point"] += 1
        if call["f"] in ("clone", "cwr", "edits"):
            n = sum(1 for _ in s_walk_ops(s_find_op(c, call["src"])))
        else:
            n = sum(1 for _ in s_region_ops(s_src_region(c, call)))
        srcs["1" if n <= 1 else "2-4" if n <= 4 else "5-9" if n <= 9 else "10+"] += 1
        if call.get("vm0"):
            extras["pre-seeded value_mapper"] += 1
        if call.get("bm0"):
            extras["pre-seeded block_mapper"] += 1
        if not call.get("co", 1):
            extras["clone_operands=False"] += 1
        if call["f"] == "edits":
            for e in call["edits"]:
                extras["edit " + e[0]] += 1
    ctx.coverage["distribution"] = {"calls": dict(calls), "insert_index": dict(idxs), "destination": dict(dests),
                                    "source_ops": dict(srcs), "other": dict(extras)}


def run(ctx: Ctx):
    quick = ctx.tier == "quick"
    n_clone, n_edit, n_pass = (280, 70, 20) if quick else (6000, 1500, 200)
    cases = corpus()
    cases += [gen_case(ctx.rng) for _ in range(n_clone)]
    cases += [gen_edit_case(ctx.rng) for _ in range(n_edit)]
    _cover(ctx, cases)
    shard = max(40, min(300, (len(cases) + 5) // 6))
    differential(ctx, DiffSpec("clone", REQ, cases, impl, coq_expr_any, holds, known_any, nontrivial_any, shard=shard))
    replay_findings(ctx, "clone", impl, holds)
    check_fixed_model(ctx, cases if not quick else cases[:len(corpus()) + 100])
    run_apply_to_clone(ctx, n_pass)
    ctx.coverage["model_cfg"] = MODEL_CFG
    ctx.coverage["rule"] = (
        "hand corpus (finding witnesses, graph region with use-before-def/self use/outside value and block/nested "
        "multi-block region) + random worlds (1-4 detached items: op trees up to depth 3 with 0-2 regions of 0-3 blocks, "
        "block args, results with name hints, attribute/property dicts, operands drawn from ALL values of the world incl. "
        "forward/self/outside references, successors mostly scoped, 4% arbitrary) x call drawn from op.clone / "
        "clone_without_regions / region.clone / region.clone_into(dest item with 0-3 pre-existing blocks, index in "
        "{None, 0, middle, end, out of range, -1}, clone_operands, pre-seeded mappers) and op.clone + 1-5 edits of the copy; "
        "non-trivial = source has >= 2 ops or the destination is non-empty; distinct by (call, world dump)")
    _OBS.clear()


META["level_text"] = (
    "Theorems in coq/Props/C02.v about a statement-by-statement model of the two-phase clone, for ALL IR trees whose values/"
    "blocks are defined once and whose successors are scoped (weaker than Operation.verify), all worlds, all pre-seeded mappers: "
    "Operation.clone and Region.clone yield a new detached copy that is the source renamed by the returned mappers (inside "
    "references -> fresh pairwise distinct objects, outside references unchanged), incl. use-before-def and self uses (the "
    "second phase makes it order independent); no pre-existing item changes; derived use lists gain exactly the copy's slots and "
    "source values gain none; edits addressed to copy objects never change an old item (and vice versa). Region.clone_into of the "
    "unchanged tree is REFUTED for a destination with operations before the insertion point (this includes the default "
    "insert_index=None on any non-empty destination with ops; C02_clone_into_original_clobbers: whenever an operation precedes "
    "the insertion point with operands different from the mapped operands of the first source op it is overwritten) and proved "
    "under the hypothesis `no operation before the insertion point or clone_operands=False`; the repaired remap (walk only the new blocks) is proved in full. Also refuted (witnesses): "
    "out-of-range insert_index silently leaves the copy detached; clone_without_regions of an op using its own result; successors "
    "into a later-cloned region. The model is tied to xdsl/ir/core.py by differential runs comparing the whole world after the call "
    "(object ids = creation order, so allocation order is part of the correspondence), the mappers, and edit histories on the copy.")
META["level_note"] = (
    "Trusted: Coq kernel; hand-written model (IR trees with explicit ids, world = list of detached items, use lists DERIVED from "
    "the world and checked against the real use lists by the oracle); harness/irdump.Registry for creation-order ids; "
    "correspondence harness. Modelled: Operation.clone_without_regions, Operation.clone, Region.clone, Region.clone_into, "
    "Region.insert_block index semantics, zip-based operand remap, name hints/types/attribute+property dicts as payloads. Not "
    "covered: clone_name_hints=False; destination nested INSIDE the source region; dest == self (assert); the pointer-level "
    "linked lists and use-list order (C01); ModulePass.apply_to_clone is checked on the real code by an oracle-only family and "
    "modelled as clone + arbitrary edits addressed to new objects (representative edits, not every pass); Context.clone.")


def replay_case(ctx: Ctx, witness: dict) -> int:
    """./check C02 --replay file: the recorded case on implementation and model + the oracle verdict"""
    case = witness.get("case", witness)
    if "call" not in case:
        print("no replayable case in this witness")
        return 0
    r = impl(case)
    ok, why = holds(case, r)
    print("implementation:", json.dumps(r))
    try:
        m = ctx.coq_eval(REQ, [coq_expr_any(case)])[0]
        print("model         :", json.dumps(m))
        print("model == implementation:", m == r)
    except Exception as e:       # noqa: BLE001
        print("model unavailable:", e)
    print("oracle:", "holds" if ok else f"FAILS: {why}", "| class:", None if ok else known_any(case, r))
    return 0 if ok else 1
