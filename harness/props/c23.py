"""C23 -- The LLVM backend emits valid LLVM IR with the source semantics.

Tie 1 (TRANSLATOR, every run): harness/translate/c23_tables.py re-extracts by python `ast` the backend's tables and
the small decision functions around them (_BINARY_OP_MAP, _convert_binop's flag arms and operand order,
_ICMP_PRED_MAP + _convert_icmp, _CAST_OP_NAMES + _convert_cast, _FCMP_CMP_MAP + _convert_fcmp, convert_op's dispatch,
the dialect's op classes / enum orders / OverflowAttr.from_int, llvmlite's _CMP_MAP and @_binop opcodes) into
coq/Gen/C23_tables.v; the theorems of coq/Props/C23.v are re-checked against the regenerated tables.  The extracted
tables are also compared with the RUNTIME objects of the imported backend (the translator is under test).
Tie 2 (correspondence): generated llvm-dialect functions are built with the real xdsl.dialects.llvm API, translated
by the real convert_module, the emitted `.ll` text is parsed (harness/props/c23_ll.py) into the instruction AST of
coq/C23/Model.v and compared with the model's translation `conv_func` of the same function (opcodes, flags,
predicates, operand order, inlined constants, phis with their (value, predecessor) entries in order, terminators,
raised exceptions); the model also reports that the kernel's k_build gives the same phi table.
Search oracle (independent of xDSL and of Coq): LLVM itself -- llvmlite.binding.parse_assembly(...).verify() must
accept, and the MCJIT-compiled function must return on boundary + random inputs what an independent python
evaluator of LLVM semantics (harness/props/c23_ref.py) computes for the SOURCE; inputs on which the source is
poison / undefined / does not terminate within the budget are excluded.  The compiled code runs in a worker process
(harness/props/c23_jit.py) so that a crash or hang is a reported failure, not a dead check.
Families: single-op (every class x flag combination x several widths, all predicates, casts, select, float ops,
constants, alloca/store/load, + a malformed stream), cfg-sweep (all combinations of terminator shapes on three blocks
incl. double edges), programs (random CFGs with block arguments, loops, double edges, permuted layout).
Non-trivial: the function was translated, LLVM accepted it and at least one input was executed with a defined result
(single-op: keyed by op/flags/width; others: keyed by the CFG shape + op kinds).
"""
from __future__ import annotations

import json
import os
import select
import subprocess
import sys
import time

from harness.common import (COQ, REPO, VERIF, Ctx, ModelUnavailable, Untranslatable, _report, coq_bool, coq_list, coq_string, coq_Z,
                            exc_code, to_jsonable)
from harness.props import c23_gen as G
from harness.props import c23_ll as LL
from harness.props import c23_ref as REF
from harness.translate import c23_tables

META = {
    "id": "C23",
    "title": "The LLVM backend emits valid LLVM IR with the source semantics",
    "design_ref": "DESIGN.md section 8.C23",
    "technique": "source-to-Coq extraction of the backend's translation tables + Coq proofs (two independent bit-vector "
                 "semantics, phi construction on a CFG kernel) + .ll-text-vs-model correspondence + LLVM verify/JIT oracle",
    "level_text": (
        "Theorems in coq/Props/C23.v are about tables REGENERATED from xdsl/backend/llvm/convert_op.py on every run: every "
        "integer entry of _BINARY_OP_MAP maps the dialect op to the llvmlite method that emits the opcode of the same "
        "operation, the flags built by _convert_binop (nsw/nuw through OverflowAttr.from_int, exact, disjoint) are exactly "
        "the source op's flag set and are accepted by LLVM on that opcode, and the emitted instruction's bit-level "
        "semantics (carry/borrow, sign bits, magnitudes, 2w-bit product, shifts and masks) equals the dialect op's "
        "value-level semantics for EVERY width w >= 1 and all operands, poison/UB included; the same for all ten icmp "
        "predicates (from_int order, _ICMP_PRED_MAP, signed/unsigned method, llvmlite's _CMP_MAP), for trunc/zext/sext "
        "with nsw/nuw/nneg, name identity for the other casts, same-operation + verbatim fast-math flags for the five "
        "float ops, the truth tables of the 14 real fcmp predicates, operand order, and totality of the tables over the "
        "dialect's arithmetic/cast op classes. C23_phi_block_args: for every CFG, conversion order, state space and path "
        "the phi table built by the add_incoming calls of _convert_br/_convert_condbr makes the phi machine compute "
        "exactly what the block-argument machine computes. PARTIAL where the unchanged tree is wrong (known findings): "
        "a cond_br naming one block twice with different operands yields an invalid phi (C23_phi_multi_edge_refuted; the "
        "theorem needs `no_conflict` for the unrepaired code and nothing for the repaired one), fcmp _false/_true raise "
        "(C23_fcmp_false_true_refuted), ops are converted in layout order so a use before its definition's block raises "
        "KeyError (model + oracle only). The model (hand-written code around the generated tables) is tied to the backend "
        "by comparing the parsed `.ll` text of generated functions with the model's translation. WHOLE FUNCTION (integer "
        "fragment: constants, the 13 binary ops with flags, icmp, trunc/zext/sext, select, return, br/cond_br with block "
        "arguments incl. the repaired same-successor cond_br): C23_whole_function_sim composes the table theorems "
        "(instruction-wise, hence sem_i = sem_d for every width) with the phi-table transfer lemmas (block boundaries): for "
        "every function accepted by the computable well-formedness check whole_okb, every input and every fuel, if the "
        "dialect-level machine (block arguments + sem_d) does not get stuck, the machine running the translated blocks "
        "(conv_instr's instructions + sem_i + phi table) computes the same outcome -- same returned bits, poison/UB exactly "
        "when the source, out-of-fuel alike. C23_conv_func_validated_all lifts this to the LITERAL output of conv_func "
        "(materialised selects executed as instructions) as translation validation: the hypothesis is the computable "
        "validator lit_okb, evaluated on every generated case (accepted on all of them); that conv_func's output ALWAYS "
        "passes the validator is not proved."),
    "level_note": (
        "Trusted: Coq kernel; harness/translate/c23_tables.py (cross-checked against the runtime tables each run); the "
        "hand-written C23/Model.v (conv_instr, conv_term, conv_func, k_build) tied by correspondence only; the machines "
        "run_src / run_tgt / run_lit of C23/Whole.v (dynamic typing: an operand fetched at the wrong width is stuck; "
        "poison = UB; select reads only the chosen operand on the IR side), tied to LLVM by running them in Coq next to "
        "the reference evaluator on concrete inputs (whole-run family); the whole-function theorems hold for source runs "
        "that do not get stuck and under the computable checks whole_okb / lit_okb (translation validation, not a proof "
        "about every output of conv_func); the `.ll` parser and reference evaluator. OUTSIDE Coq (oracle only): that LLVM accepts the IR, "
        "what the JIT computes, llvmlite's printing. Not covered: float arithmetic itself (only operation identity + "
        "flags; values by the JIT oracle for f32/f64 without value-changing fast-math flags), half-precision values, "
        "memory beyond one-cell alloca/store/load, GEP, calls, intrinsics, globals, struct/array/vector types, "
        "inline asm, function/argument attributes, target triple and data layout."),
}
COQ_TARGETS = ["Gen/C23_tables.vo", "C23/Model.vo", "C23/Sem.vo", "C23/ProofsBits.vo", "C23/ProofsTables.vo",
               "C23/ProofsPhi.vo", "C23/Whole.vo", "C23/ProofsWhole.vo", "C23/ProofsLit.vo", "C23/Enc.vo", "Props/C23.vo"]
REQ = ["Gen.C23_tables", "C23.Model", "C23.Enc"]
ASSUMPTIONS = [
    "a valid case = an llvm-dialect function obeying MLIR's rules (types, predicate/flag encodings, operand counts, "
    "dominance, no branch to the entry block) as checked by harness/props/c23_gen.py:validity; xDSL's own verifier is "
    "weaker (does not check predicates, operand counts or dominance)",
    "reachable blocks only carry arguments (an unreachable block with arguments has phis without entries in MLIR's own "
    "export as well: outside the quantifier)",
    "integer widths 1..64 cross the JIT boundary in 64-bit registers; the callee reads only the low w bits",
]
TRUSTED = ["harness/translate/c23_tables.py", "llvmlite 0.47 / LLVM (Search oracle only)",
           "harness/props/c23_ll.py (.ll parser), harness/props/c23_ref.py (reference LLVM semantics)"]

GEN: dict = {}
DELIBERATE = ("NotImplementedError", "LLVMTranslationException")


def generate(ctx: Ctx):
    global GEN
    GEN = c23_tables.generate(REPO, COQ / "Gen")


# ------------------------------------------------------------------------------------------------
# JIT worker client


class Jit:
    def __init__(self):
        self.p = None
        self.restarts = 0

    def start(self):
        env = dict(os.environ)
        env["PYTHONPATH"] = f"{REPO}:{VERIF}"
        self.p = subprocess.Popen([sys.executable, "-m", "harness.props.c23_jit"], cwd=VERIF, env=env,
                                  stdin=subprocess.PIPE, stdout=subprocess.PIPE, stderr=subprocess.DEVNULL, bufsize=0)
        self.buf = b""

    def stop(self):
        if self.p is not None:
            try:
                self.p.kill()
                self.p.wait(timeout=5)
            except Exception:
                pass
            self.p = None

    def _readline(self, timeout):
        """one line from the worker (raw fd + own buffer: select and buffered readers do not mix);
        None = timeout, "" = end of file"""
        fd = self.p.stdout.fileno()
        deadline = time.time() + timeout
        while b"\n" not in self.buf:
            left = deadline - time.time()
            if left <= 0:
                return None
            r, _, _ = select.select([fd], [], [], left)
            if not r:
                return None
            chunk = os.read(fd, 65536)
            if not chunk:
                return ""
            self.buf += chunk
        line, self.buf = self.buf.split(b"\n", 1)
        return line.decode()

    def call(self, ll, args, ret, inputs, timeout=20.0):
        """-> {"verify": None|msg, "outs": [...], "crash": None|str}"""
        self.calls = getattr(self, "calls", 0) + 1
        if self.p is not None and self.calls % 250 == 0:
            self.stop()                      # the worker keeps every compiled module alive: bound its memory
        if self.p is None or self.p.poll() is not None:
            self.start()
        req = {"ll": ll, "fn": "f", "args": args, "ret": ret, "inputs": inputs}
        res = {"verify": "no answer", "outs": [], "crash": None}
        try:
            self.p.stdin.write((json.dumps(req) + "\n").encode())
            self.p.stdin.flush()
        except BrokenPipeError:
            self.stop()
            res["crash"] = "worker died before the request"
            return res
        first = True
        while True:
            ln = self._readline(timeout)
            if ln is None or ln == "":
                res["crash"] = ("timeout" if ln is None else "worker died") + f" after {len(res['outs'])} result(s)"
                self.stop()
                self.restarts += 1
                return res
            msg = json.loads(ln)
            if first:
                res["verify"] = msg.get("verify")
                first = False
                continue
            if "out" in msg:
                res["outs"].append(msg["out"])
            elif "error" in msg:
                res["crash"] = "jit error: " + msg["error"]
            elif msg.get("done"):
                return res


JIT = Jit()


# ------------------------------------------------------------------------------------------------
# implementation side


def translate(case):
    """-> (canonical structure, ll text | None, exception name | None)"""
    from xdsl.backend.llvm.convert import convert_module
    try:
        m = LL.build(case)
    except BaseException as e:  # the case cannot even be built with the dialect API
        return [-2, exc_code(e)], None, "build:" + type(e).__name__
    try:
        txt = str(convert_module(m, fallback_target_triple="x86_64-unknown-linux-gnu"))
    except BaseException as e:
        name = type(e).__name__
        for c in type(e).__mro__:
            if c.__name__ in DELIBERATE:
                name = c.__name__
        return [-1, exc_code(e)], None, name
    try:
        return [0, LL.parse_ll(txt)], txt, None
    except (LL.LLParseError, AttributeError, IndexError, KeyError) as e:
        return [-3, s_codes(repr(e))], txt, None


def s_codes(s):
    return [ord(c) & 127 for c in s[:60]]


def jit_types_ok(case):
    tys = [t for _, t in case["blocks"][0]["args"]]
    ret = case.get("ret")
    ok = lambda t: (1 <= t <= 64) or t in (LL.F32, LL.F64)
    return ret is not None and ok(ret) and all(ok(t) for t in tys)


def same_value(ty, a, b):
    if ty >= 1:
        return a == b
    if REF.is_nan(ty, a) and REF.is_nan(ty, b):
        return True            # LLVM leaves the NaN payload / sign of an arithmetic result open
    return a == b


def evaluate(case, inputs):
    """run the real backend (+ LLVM) on the case -> record"""
    struct_, txt, exc = translate(case)
    rec = {"struct": struct_, "exc": exc, "verify": None, "checked": 0, "excluded": 0, "mismatch": None, "crash": None}
    if txt is None:
        return rec
    do_jit = jit_types_ok(case) and G.validity(case)[0]
    exp = []
    ins = []
    if do_jit:
        for inp in inputs:
            try:
                exp.append(REF.run(case, inp))
                ins.append(inp)
            except REF.Excluded:
                rec["excluded"] += 1
    r = JIT.call(txt, [t for _, t in case["blocks"][0]["args"]], case.get("ret") or 1, ins)
    rec["verify"] = r["verify"]
    rec["crash"] = r["crash"]
    if r["verify"] is None:
        for inp, e, o in zip(ins, exp, r["outs"]):
            rec["checked"] += 1
            if not same_value(case["ret"], e, o):
                rec["mismatch"] = {"input": inp, "expected": e, "got": o}
                break
    return rec


def holds(case, rec):
    """the property's statement on the implementation's behaviour"""
    valid, why = G.validity(case)
    if not valid:
        return True, "source not a valid llvm-dialect function (" + why + "): nothing demanded"
    if rec["exc"] is not None:
        if rec["exc"] in DELIBERATE:
            return True, "the backend refuses the module deliberately"
        return False, f"a valid module makes the backend raise {rec['exc']}"
    # (an emitted text the .ll parser does not know is a limit of this check, not of the backend: it shows up as a
    #  model/code divergence; LLVM's verdict and the executed inputs below still apply)
    if rec["verify"] is not None:
        return False, "LLVM rejects the emitted IR: " + str(rec["verify"])[:200]
    if rec["crash"] is not None:
        return False, "the compiled code crashed / hung: " + rec["crash"]
    if rec["mismatch"] is not None:
        return False, "compiled code returns %(got)s, LLVM semantics of the source gives %(expected)s on input %(input)s" % rec["mismatch"]
    return True, ""


def known(case, rec):
    """failing case -> id of the known finding whose CLASS it belongs to"""
    blocks = case["blocks"]
    if rec["exc"] is None and rec["verify"] and "multiple entries for the same basic block" in rec["verify"]:
        for b in blocks:
            t = b["term"]
            if t[0] == "condbr" and t[2] == t[4] and list(t[3]) != list(t[5]):
                return "C23-kf-1"
    if rec["exc"] == "KeyError":
        where = {}
        for bi, b in enumerate(blocks):
            for ins in b["body"]:
                d = G.instr_def(ins)
                if d is not None:
                    where[d] = bi
        for bi, b in enumerate(blocks):
            uses = [u for ins in b["body"] for u in G.instr_uses(ins)] + LL.term_uses(b["term"])
            if any(where.get(u, -1) > bi for u in uses):
                return "C23-kf-2"
    if rec["exc"] == "ValueError":
        if any(ins[0] == "fcmp" and ins[2] in (0, 15) for b in blocks for ins in b["body"]):
            return "C23-kf-3"
    return None


def nontrivial(case, rec):
    if rec["exc"] is not None or rec["verify"] is not None or rec["checked"] == 0:
        return None
    ops = sorted({(ins[0], ins[2] if ins[0] in ("bin", "cast", "icmp", "fcmp") else 0) for b in case["blocks"] for ins in b["body"]},
                 key=repr)
    shape = [[len(b["args"]), b["term"][0], G.successors(b["term"])] for b in case["blocks"]]
    flags = sorted({(ins[3], ins[4], ins[5], tuple(ins[6])) for b in case["blocks"] for ins in b["body"] if ins[0] == "bin"}, key=repr)
    tys = sorted({t for b in case["blocks"] for _, t in b["args"]})
    return repr((shape, ops, flags, tys))


# ------------------------------------------------------------------------------------------------
# model side


def cz(n):
    return coq_Z(int(n))


def czs(l):
    return coq_list(cz(x) for x in l)


def coq_instr(ins):
    k = ins[0]
    if k == "const":
        return f"DConst {cz(ins[1])} {cz(ins[2])} {cz(LL.const_text_value(ins[2], ins[3]))}"
    if k == "bin":
        _, r, cls, ovf, ex, dj, fm, t, a, b = ins
        o = "None" if ovf is None else f"(Some {cz(ovf)})"
        return (f"DBin {cz(r)} (mkBin {coq_string(cls)} {o} {coq_bool(bool(ex))} {coq_bool(bool(dj))} "
                f"{coq_list(coq_string(x) for x in fm)}) {cz(t)} {cz(a)} {cz(b)}")
    if k == "icmp":
        return "DIcmp " + " ".join(cz(x) for x in ins[1:])
    if k == "fcmp":
        return "DFcmp " + " ".join(cz(x) for x in ins[1:])
    if k == "cast":
        _, r, cls, ofl, nneg, t, a, t2 = ins
        o = "None" if ofl is None else f"(Some {coq_list(coq_string(x) for x in ofl)})"
        return f"DCast {cz(r)} (mkCast {coq_string(cls)} {o} {coq_bool(bool(nneg))}) {cz(t)} {cz(a)} {cz(t2)}"
    if k == "select":
        return "DSelect " + " ".join(cz(x) for x in ins[1:])
    if k == "alloca":
        return "DAlloca " + " ".join(cz(x) for x in ins[1:])
    if k == "load":
        return "DLoad " + " ".join(cz(x) for x in ins[1:])
    if k == "store":
        return "DStore " + " ".join(cz(x) for x in ins[1:])
    raise ValueError(k)


def coq_term(t):
    if t[0] == "ret":
        return f"DRet {cz(t[1])} {cz(t[2])}"
    if t[0] == "retvoid":
        return "DRetVoid"
    if t[0] == "unreachable":
        return "DUnreachable"
    if t[0] == "br":
        return f"DBr {cz(t[1])} {czs(t[2])}"
    return f"DCondBr {cz(t[1])} {cz(t[2])} {czs(t[3])} {cz(t[4])} {czs(t[5])}"


def coq_expr(case):
    bl = []
    for b in case["blocks"]:
        args = coq_list(f"({cz(i)}, {cz(t)})" for i, t in b["args"])
        bl.append(f"mkDB {args} {coq_list('(' + coq_instr(x) + ')' for x in b['body'])} ({coq_term(b['term'])})")
    return "enc_func " + coq_list(bl)


# ------------------------------------------------------------------------------------------------
# translator cross-check against the runtime objects


def runtime_tables_check(ctx: Ctx):
    import llvmlite.ir.builder as lb

    from xdsl.backend.llvm import convert_op as CO
    from xdsl.dialects import llvm
    t = GEN["tables"]
    bad = []

    class Rec:
        def __getattr__(self, n):
            return n
    rt_bin = [(c.__name__, f(Rec())) for c, f in CO._BINARY_OP_MAP.items()]
    if rt_bin != [tuple(x) for x in t["binary_op_map"]]:
        bad.append("binary_op_map")
    if [(k, v[0], v[1]) for k, v in CO._ICMP_PRED_MAP.items()] != [tuple(x) for x in t["icmp_pred_map"]]:
        bad.append("icmp_pred_map")
    if [(c.__name__, v) for c, v in CO._CAST_OP_NAMES.items()] != [tuple(x) for x in t["cast_op_names"]]:
        bad.append("cast_op_names")
    if list(CO._FCMP_CMP_MAP.items()) != [tuple(x) for x in t["fcmp_cmp_map"]]:
        bad.append("fcmp_cmp_map")
    if [f.value for f in llvm.ALL_ICMP_FLAGS] != t["icmp_flags"] or [f.value for f in llvm.ALL_FCMP_FLAGS] != t["fcmp_flags"]:
        bad.append("predicate enums")
    for i, fl in t["overflow_from_int"]:
        if sorted(f.value for f in llvm.OverflowAttr.from_int(i).data) != sorted(fl):
            bad.append(f"overflow_from_int {i}")
    rt_ops = [(c.__name__, c.name) for c in llvm.LLVM.operations]
    if rt_ops != [(c, n) for c, n, _ in t["dialect_ops"]]:
        bad.append("dialect_ops")
    for c, n, anc in t["dialect_ops"]:
        mro = [k.__name__ for k in getattr(llvm, c).__mro__]
        if any(a not in mro for a in anc if a not in ("ABC",)):
            bad.append(f"ancestors of {c}")
    if list(lb._CMP_MAP.items()) != [tuple(x) for x in t["llvmlite_cmp_map"]]:
        bad.append("llvmlite_cmp_map")
    undisp = [c for c, _, _ in t["dialect_ops"] if c not in t["dispatched"]]
    ctx.coverage["translator"] = dict(GEN["info"], runtime_mismatches=bad, dialect_ops_without_dispatch_arm=undisp)
    if bad:
        ctx.broken.append({"translator_vs_runtime": bad})


# ------------------------------------------------------------------------------------------------


def run_families(ctx: Ctx, fams):
    """fams: [(name, cases, n_inputs)]; implementation family by family, the model of all families in one batch"""
    allc = [(name, c) for name, cases, _ in fams for c in cases]
    exprs = [coq_expr(c) for _, c in allc]
    # whole-run: the Coq machines run_src / run_tgt (C23/Whole.v) on concrete inputs of valid integer functions
    wr = []
    for name, cases, _ in fams:
        for c in cases:
            if G.validity(c)[0] and jit_types_ok(c) and all(t >= 1 for b in c["blocks"] for _, t in b["args"]):
                wr.append((c, G.jit_inputs(ctx.rng, c, 3)))
    lim = 1500 if ctx.tier == "thorough" else 120
    dbl = [x for x in wr if any(b["term"][0] == "condbr" and b["term"][2] == b["term"][4] for b in x[0]["blocks"])]
    oth = [x for x in wr if x not in dbl]
    wr = dbl[-(lim // 3):] + oth[-(lim - lim // 3):]        # programs come last in the lists: fewer endless loops
    exprs += [f"enc_runs ({coq_expr(c)[len('enc_func '):]}) {coq_list(czs(i) for i in ins)} 200%nat" for c, ins in wr]
    t0 = time.time()
    recs = []
    for name, cases, n_in in fams:
        t = time.time()
        rs = []
        for c in cases:
            rs.append(evaluate(c, G.jit_inputs(ctx.rng, c, n_in)))
        recs.append((rs, time.time() - t))
    model, model_err = None, None
    try:
        nsh = 6 if len(exprs) < 3000 else 12
        model = ctx.coq_eval(REQ, exprs, shard=max(25, -(-len(exprs) // nsh)))
    except ModelUnavailable as e:
        model_err = str(e)
    active = ctx.active_known_ids()
    pos = 0
    stats = {"translated": 0, "raised": 0, "llvm_rejected": 0, "inputs_executed": 0, "inputs_excluded": 0, "invalid_sources": 0,
             "whole_agrees": 0, "whole_okb_true": 0, "lit_matches_true": 0, "lit_okb_true": 0}
    for (name, cases, _), (rs, dt) in zip(fams, recs):
        fails, diverge, known_hits = [], [], {}
        for i, (c, rec) in enumerate(zip(cases, rs)):
            ok, why = holds(c, rec)
            nt = nontrivial(c, rec)
            if nt is not None:
                ctx.nontrivial.add((name, nt))
            stats["translated"] += rec["exc"] is None
            stats["raised"] += rec["exc"] is not None
            stats["llvm_rejected"] += rec["verify"] is not None and rec["exc"] is None
            stats["inputs_executed"] += rec["checked"]
            stats["inputs_excluded"] += rec["excluded"]
            stats["invalid_sources"] += not G.validity(c)[0]
            if not ok:
                kid = known(c, rec)
                if kid and kid in active:
                    known_hits[kid] = known_hits.get(kid, 0) + 1
                else:
                    fails.append((c, rec["struct"] if rec["struct"][0] != 0 else {"exc": rec["exc"], "verify": rec["verify"],
                                                                                   "mismatch": rec["mismatch"], "crash": rec["crash"]}, why))
            if model is not None:
                mc, flags = LL.canon_model(c, model[pos + i])
                if mc != rec["struct"]:
                    diverge.append((c, rec["struct"], mc))
                elif flags:
                    kflag, wflag, wok, lit, litok = flags
                    stats["lit_okb_true"] += litok == 1
                    if litok == 0 and G.validity(c)[0]:
                        diverge.append((c, "conv_func output of a valid function",
                                        "rejected by the validator lit_okb of C23_conv_func_validated_all"))
                    stats["whole_agrees"] += wflag == 1
                    stats["whole_okb_true"] += wok == 1
                    stats["lit_matches_true"] += lit == 1
                    double_edge = any(b["term"][0] == "condbr" and b["term"][2] == b["term"][4] and b["term"][3]
                                      for b in c["blocks"])
                    if lit == 0 and not double_edge:
                        diverge.append((c, "conv_func output", "is not literally tr_prog although no select was needed"))
                    if kflag == 0:
                        diverge.append((c, "phi table of conv_func", "differs from k_build on the kernel projection"))
                    elif wflag == 0:
                        diverge.append((c, "conv_func output", "differs from tr_prog, the translation C23_whole_function_sim is about"))
                    elif wok != 1 and G.validity(c)[0]:
                        diverge.append((c, "valid translated function", "whole_okb = false: hypothesis of C23_whole_function_sim fails"))
        pos += len(cases)
        ctx.evaluations += len(cases)
        for c, rec in list(zip(cases, rs))[:1]:
            ctx.sample({"family": name, "case": c, "impl": rec["struct"], "inputs_checked": rec["checked"]}, limit=6)
        fam = _report(ctx, name, len(cases), fails, diverge, known_hits, None, name == "cfg-sweep", time.time() - dt)
        fam["wall_s"] = round(dt, 2)
    if model is not None:
        whole_run_check(ctx, wr, model[pos:])
    ctx.coverage["oracle"] = stats
    ctx.coverage["jit_worker_restarts"] = JIT.restarts
    ctx.coverage["coq_batch"] = {"expressions": len(exprs), "wall_s": round(time.time() - t0 - sum(d for _, d in recs), 1)}
    if model_err:
        ctx.broken.append({"correspondence": "all families", "model_unavailable": model_err[-800:]})


def whole_run_check(ctx: Ctx, wr, results):
    """the outcome of the Coq SOURCE machine (sem_d) and TARGET machine (sem_i + phis) on concrete inputs against
    the python reference evaluator of LLVM semantics (which the JIT oracle ties to LLVM itself)"""
    st = {"runs": 0, "ret_agree": 0, "poison_agree": 0, "fuel_or_outside_fragment": 0, "target_equals_source": 0,
          "literal_equals_source": 0, "literal_equals_source_with_materialised_selects": 0}
    bad = []
    for (c, ins), res in zip(wr, results):
        selects = any(b["term"][0] == "condbr" and b["term"][2] == b["term"][4]
                      and list(b["term"][3]) != list(b["term"][5]) for b in c["blocks"])
        for inp, (src, tgt, lit) in zip(ins, res):
            st["runs"] += 1
            if src[0] in (3, 4, 1):
                st["fuel_or_outside_fragment"] += 1
                continue
            if tgt == src:
                st["target_equals_source"] += 1
            else:
                bad.append((c, inp, "run_tgt", tgt, "run_src", src))
            # run_lit executes conv_func's literal output, materialised selects included (the case the theorems
            # cover only through the KSel abstraction)
            if lit == src:
                st["literal_equals_source"] += 1
                st["literal_equals_source_with_materialised_selects"] += selects
            else:
                bad.append((c, inp, "run_lit", lit, "run_src", src))
            try:
                ref = ("ret", REF.run(c, inp))
            except REF.Excluded as e:
                ref = ("excluded", str(e))
            if src[0] == 0 and ref == ("ret", src[1]):
                st["ret_agree"] += 1
            elif src[0] == 2 and ref[0] == "excluded" and ref[1] != "step budget":
                st["poison_agree"] += 1
            elif ref == ("excluded", "step budget"):
                st["fuel_or_outside_fragment"] += 1
            else:
                bad.append((c, inp, "run_src", src, "reference", ref))
    ctx.evaluations += st["runs"]
    ctx.coverage["whole_run"] = st
    if bad:
        bad.sort(key=lambda x: len(json.dumps(to_jsonable(x[0]))))
        ctx.broken.append({"correspondence": "whole-run (Coq machines vs reference LLVM semantics)", "count": len(bad),
                           "first": to_jsonable(bad[0])})


def replay_known(ctx: Ctx):
    for e in ctx.known_findings + ctx.fixed_findings:
        if "witness" not in e:
            continue
        c = e["witness"]
        rec = evaluate(c, G.jit_inputs(ctx.rng, c, 12))
        ok, why = holds(c, rec)
        ctx.evaluations += 1
        if e.get("fixed"):
            if not ok:
                ctx.violation({"family": e.get("family"), "case": c, "oracle": why,
                               "regression_of_fixed_finding": e.get("line") or e.get("id")})
        elif not ok:
            ctx.known(e["id"], e["what"])
        else:
            ctx.coverage.setdefault("known_findings_no_longer_failing", []).append(e["id"])


def run(ctx: Ctx):
    if not GEN:
        try:
            generate(ctx)
        except Untranslatable:
            pass            # already recorded by the driver; the oracle search below does not depend on the tables
    thorough = ctx.tier == "thorough"
    if GEN:
        runtime_tables_check(ctx)
    fams = [("single-op", G.single_op_cases(thorough), 40 if thorough else 24),
            ("cfg-sweep", G.cfg_sweep_cases(), 12),
            ("programs", G.program_cases(ctx.rng, 3000 if thorough else 260), 24 if thorough else 16)]
    try:
        run_families(ctx, fams)
        replay_known(ctx)
    finally:
        JIT.stop()
    ctx.coverage["rule"] = (
        "single-op: every integer/float binary class x every flag combination x widths, all icmp/fcmp predicates, "
        "trunc/zext/sext with flags, select, constants, alloca/store/load, + malformed predicates/flag encodings; "
        "cfg-sweep: all combinations of 7x6x4 terminator shapes on entry/B1/B2 (double edges with equal and different "
        "operands, self loops, cross edges) + malformed branches; programs: random binary-tree CFGs with extra edges, "
        "0-2 block arguments per block, 0-4 ops per block over mixed widths, dead blocks, permuted layout. A case is "
        "non-trivial when it was translated, accepted by LLVM and executed on at least one input with a defined result; "
        "distinct = distinct (CFG shape, op kinds, flags, types).")


def replay_case(ctx: Ctx, witness):
    generate(ctx)
    c = witness.get("case", witness)
    rec = evaluate(c, G.jit_inputs(ctx.rng, c, 16))
    JIT.stop()
    print("implementation:", json.dumps(to_jsonable(rec))[:3000])
    print("oracle:", holds(c, rec))
    try:
        m = ctx.coq_eval(REQ, [coq_expr(c)])[0]
        print("model:", json.dumps(LL.canon_model(c, m))[:3000])
    except ModelUnavailable as e:
        print("model unavailable:", e)
    return 0 if holds(c, rec)[0] else 1
