"""C14 driver: builds the case streams of every family, evaluates the implementation side family by family and
the Coq side of ALL families in one parallel batch of coqc shards (start-up of coqc dominates small shards)."""
from __future__ import annotations

import itertools
import time

from harness.common import Ctx, DiffSpec, ModelUnavailable, _report, coq_bool, coq_Z, eval_cases, replay_findings
from harness.props import c14 as P
from harness.props import c14_cse as CSE
from harness.props import c14_prog as PROG


def batched_differential(ctx: Ctx, specs: list[DiffSpec], extra_exprs: list[str]):
    """like harness.common.differential for several families at once; returns the values of extra_exprs"""
    t0 = time.time()
    evs = []
    for s in specs:
        t = time.time()
        evs.append((eval_cases(s.cases, s.impl, s.holds, s.known, s.nontrivial), time.time() - t))
    exprs = [s.coq_expr(c) for s in specs for c in s.cases] + list(extra_exprs)
    weights = sum(len(e) for e in exprs)
    # coqc start-up (loading ZArith, Floats, the models) costs more CPU than evaluating a few hundred cases,
    # so few large shards beat many small ones, especially on a loaded machine
    nshards = 6 if len(exprs) < 6000 else 16
    shard = max(20, -(-len(exprs) // nshards))
    model, model_err = None, None
    try:
        model = ctx.coq_eval(P.REQ, exprs, shard=shard)
    except ModelUnavailable as e:
        model_err = str(e)
    coq_s = time.time() - t0 - sum(d for _, d in evs)
    pos = 0
    active = ctx.active_known_ids()      # only listed, UNFIXED known findings may suppress a failing case
    for s, (ev, dt) in zip(specs, evs):
        fails, diverge, known_hits = [], [], {}
        for i, (c, (r, ok, why, kid, nt)) in enumerate(zip(s.cases, ev)):
            if nt is not None:
                ctx.nontrivial.add((s.name, nt))
            if not ok:
                if kid and kid in active:
                    known_hits[kid] = known_hits.get(kid, 0) + 1
                else:
                    fails.append((c, r, why))
            if model is not None and model[pos + i] != r:
                diverge.append((c, r, model[pos + i]))
        pos += len(s.cases)
        ctx.evaluations += len(s.cases)
        for c, e in list(zip(s.cases, ev))[:1]:
            ctx.sample({"family": s.name, "case": c, "impl": e[0]}, limit=12)
        fam = _report(ctx, s.name, len(s.cases), fails, diverge, known_hits, None, False, time.time() - dt)
        fam["wall_s"] = round(dt, 2)
    ctx.coverage["coq_batch"] = {"expressions": len(exprs), "shard_size": shard, "source_chars": weights,
                                 "wall_s": round(coq_s, 1)}
    if model_err:
        ctx.broken.append({"correspondence": "all families", "model_unavailable": model_err[-800:]})
        return None
    return model[pos:]


def oracle_family(ctx: Ctx, name, cases, impl, holds, known, nontrivial):
    """a family without a Coq model: implementation + statement-level oracle only"""
    t = time.time()
    ev = eval_cases(cases, impl, holds, known, nontrivial)
    fails, known_hits = [], {}
    active = ctx.active_known_ids()
    for c, (r, ok, why, kid, nt) in zip(cases, ev):
        if nt is not None:
            ctx.nontrivial.add((name, nt))
        if not ok:
            if kid and kid in active:
                known_hits[kid] = known_hits.get(kid, 0) + 1
            else:
                fails.append((c, r, why))
    ctx.evaluations += len(cases)
    for c, e in list(zip(cases, ev))[:1]:
        ctx.sample({"family": name, "case": c, "impl": e[0]}, limit=12)
    return _report(ctx, name, len(cases), fails, [], known_hits, None, False, t), ev


def run(ctx: Ctx):
    thorough = ctx.tier == "thorough"
    rng = ctx.rng
    scale = 6 if thorough else 1
    classes = list(P.binop_classes())
    rl = P.rand_lit

    # ---- replay of the committed witnesses
    replay_findings(ctx, "float-fold", P.float_impl, P.float_holds)
    replay_findings(ctx, "cfi", P.cfi_impl, P.cfi_holds)
    replay_findings(ctx, "test-folding", P.tcf_impl, P.tcf_holds)

    specs = []
    # ---- (a) translated functions vs the real ones
    cases = [{"cls": cls, "ty": t, "a": rl(rng, t), "b": rl(rng, t)} for cls in classes for t in P.INT_TYPES
             for _ in range(scale)]
    specs.append(DiffSpec("gen-functions", P.REQ, cases, P.gen_impl, P.gen_coq, P.gen_holds, None,
                          lambda c, r: (c["cls"], c["ty"], c["a"], c["b"]) if (r[0] or r[1] or r[2]) else None))
    cases = [{"w": w, "v": v} for w in (1, 2, 8, 16, 32, 64)
             for v in [0, 1, -1, (1 << w) - 1, 1 << w, -(1 << (w - 1)), -(1 << (w - 1)) - 1, 1 << (w - 1),
                       rng.randrange(-(1 << (w + 2)), 1 << (w + 2))]]
    specs.append(DiffSpec("normalized-value", P.REQ, cases, P.norm_impl,
                          lambda c: f"c14_norm_case {c['w']} {coq_Z(c['v'])}", P.norm_holds, None,
                          lambda c, r: (c["w"], c["v"])))
    # ---- (a) folder + integer patterns on one op
    cases = []
    for cls in classes:
        for t in P.INT_TYPES:
            for lk, rk in (("c", "c"), ("a", "c"), ("c", "a"), ("a", "a")):
                for _ in range((1 if lk == rk == "a" else 1) * scale):
                    cases.append({"cls": cls, "ty": t, "l": [lk, rl(rng, t)], "r": [rk, rl(rng, t)]})
    specs.append(DiffSpec("fold-and-int-patterns", P.REQ, cases, P.fold_impl, P.fold_coq, P.fold_holds, None,
                          P.fold_nontrivial))
    cases = []
    for t in ["i1", "i8", "i32", "index"]:
        for ck, lk, rk in itertools.product("ca", repeat=3):
            for same in (False, True):
                for _ in range(scale):
                    cases.append({"ty": t, "c": [ck, rng.choice([0, 1, -1])], "l": [lk, rl(rng, t)],
                                  "r": [rk, rl(rng, t)], "same": same})
    specs.append(DiffSpec("select-patterns", P.REQ, cases, P.select_impl, P.select_coq, P.select_holds, None,
                          lambda c, r: repr(c) if any(x != 0 for x in r) else None))
    cases = [{"ty": t, "pred": p, "same": s} for t in ("i1", "i8", "i64", "index") for p in range(10)
             for s in (True, False)]
    specs.append(DiffSpec("cmpi-pattern", P.REQ, cases, P.cmpi_impl,
                          lambda c: f"c14_cmpi_case {coq_bool(c['same'])} {c['pred']}", P.cmpi_holds, None,
                          lambda c, r: (c["ty"], c["pred"]) if r != 0 else None))

    # ---- SelectFoldCmpfPattern: every predicate x fastmath flags x operand order (+ a non-cmpf condition)
    cases = []
    for pred in range(16):
        for flags in (["none", "nnan", "nsz", "both", "fast"] if thorough else
                      ["both", "fast", rng.choice(["none", "nnan", "nsz"])]):
            for order in ("same", "swapped", "other"):
                cases.append({"fmt": rng.choice(["f32", "f64"]), "pred": pred, "flags": flags, "order": order,
                              "cond": "cmpf"})
        cases.append({"fmt": "f64", "pred": pred, "flags": "both", "order": "same", "cond": "arg"})
    specs.append(DiffSpec("select-cmpf-pattern", P.REQ, cases, P.selcmpf_impl, P.selcmpf_coq, P.selcmpf_holds, None,
                          lambda c, r: (c["pred"], c["flags"], c["order"]) if r != 0 else None))

    # ---- (b) float folder
    def fpairs(bound, width, n):
        ps = [(a, b) for a in bound for b in bound]
        rng.shuffle(ps)
        ps = ps[:n]
        ps += [(rng.getrandbits(width), rng.getrandbits(width)) for _ in range(n // 4)]
        ps += [(rng.choice(bound), rng.getrandbits(width)) for _ in range(n // 4)]
        return ps
    n64, n32 = (len(P.F64_BOUNDARY) ** 2, len(P.F32_BOUNDARY) ** 2) if thorough else (60, 60)
    cases = [{"fmt": "f64", "op": op, "a": a, "b": b} for op in P.FOPS for a, b in fpairs(P.F64_BOUNDARY, 64, n64)]
    cases += [{"fmt": "f64", "op": "divf", "a": 0x3FF0000000000000, "b": 0x8000000000000000},
              {"fmt": "f64", "op": "divf", "a": 0x7FF8000000000000, "b": 0},
              {"fmt": "f64", "op": "divf", "a": 0xBFF0000000000000, "b": 0}]
    specs.append(DiffSpec("float-fold-f64", P.REQ, cases, P.float_impl, P.float_coq, P.float_holds, P.float_known,
                          P.float_nontrivial))
    f32cases = [{"fmt": "f32", "op": op, "a": a, "b": b} for op in P.FOPS for a, b in fpairs(P.F32_BOUNDARY, 32, n32)]
    f32cases += [{"fmt": "f32", "op": "addf", "a": 0x7F000000, "b": 0x7F000000},
                 {"fmt": "f32", "op": "addf", "a": 0x4B800000, "b": 0x3F800001}]
    specs.append(DiffSpec("float-fold-f32", P.REQ, f32cases, P.float_impl, P.float_coq, P.float_holds, P.float_known,
                          P.float_nontrivial))

    # ---- constant-fold-interp and the test folding passes on one op
    cases = []
    for cls in classes:
        for t in P.INT_TYPES:
            for _ in range(scale):
                c = {"kind": "binop", "cls": cls, "ty": t, "a": rl(rng, t), "b": rl(rng, t)}
                if rng.random() < 0.5 and cls in ("ShLIOp", "ShRSIOp"):
                    w = P.WIDTHS[t]
                    c["b"] = rng.choice([v for v in (0, 1, 2, w - 1, w, -1) if -(1 << (w - 1)) <= v < (1 << w)])
                if P.safe_shift({"cls": cls, "b": P.stored(t, c["b"])}):
                    cases.append(c)
    cases += [{"kind": "binop", "cls": "ShLIOp", "ty": "i8", "a": 100, "b": 2},
              {"kind": "binop", "cls": "FloorDivSIOp", "ty": "i8", "a": 7, "b": 0},
              {"kind": "binop", "cls": "ShLIOp", "ty": "i8", "a": 1, "b": -1},
              {"kind": "binop", "cls": "RemSIOp", "ty": "i64", "a": -5, "b": 0}]
    for t in P.INT_TYPES:
        for p in range(10):
            for _ in range(scale):
                cases.append({"kind": "cmpi", "pred": p, "ty": t, "a": rl(rng, t), "b": rl(rng, t)})
    specs.append(DiffSpec("constant-fold-interp-one-op", P.REQ, cases, P.cfi_impl, P.cfi_coq, P.cfi_holds, P.cfi_known,
                          P.cfi_nontrivial))
    cases = []
    for ps in ("tcf", "tscf"):
        for t in P.INT_TYPES:
            kinds = ["c", "a", "o"] if ps == "tcf" else ["c", "o"]
            for lk, rk in itertools.product(kinds, repeat=2):
                for _ in range(scale if (lk, rk) != ("c", "c") else 3 * scale):
                    cases.append({"pass": ps, "ty": t, "l": [lk, rl(rng, t)], "r": [rk, rl(rng, t)]})
    specs.append(DiffSpec("test-constant-folding-one-op", P.REQ, cases, P.tcf_impl, P.tcf_coq, P.tcf_holds, P.tcf_known,
                          lambda c, r: repr(c) if r not in (0, [0, 1]) else None))

    # ---- (c) CSE on generated nested programs
    cse_cases = [CSE.gen_program(rng) for _ in range(600 if thorough else 90)]
    specs.append(DiffSpec("cse-nested-programs", P.REQ, cse_cases, CSE.impl, CSE.coq_expr, CSE.holds, None,
                          CSE.nontrivial))

    # the named double-rounding hypothesis is evaluated inside Coq on the f32 pairs (must be 1 everywhere)
    dr = batched_differential(ctx, specs, [P.dr_cases_coq(c) for c in f32cases])
    if dr is not None:
        bad = [c for c, v in zip(f32cases, dr) if v != 1]
        ctx.coverage["double_rounding_hypothesis"] = {"pairs_checked_in_coq": len(f32cases), "counterexamples": len(bad)}
        if bad:
            ctx.broken.append({"hypothesis": "double_rounding_innocuous fails", "case": bad[0]})
    ops = [CSE.count_ops(CSE.to_dump(c)) for c in cse_cases]
    ctx.coverage["cse_programs"] = {"ops_min_max": [min(ops), max(ops)]}

    # ---- whole passes on func/arith/scf/cf programs (oracle only)
    cases = [PROG.gen_case(rng) for _ in range(2500 if thorough else 120)]
    fam, ev = oracle_family(ctx, "whole-pass-programs", cases, PROG.impl, PROG.holds, PROG.known, PROG.nontrivial)
    dist = {}
    names = {0: "unchanged", 1: "changed-equal", -1: "raised", -2: "mismatch", -3: "not-judged"}
    for e in ev:
        for p, r in zip(PROG.PROG_PASSES, e[0]):
            key = f"{p}:{names[r[0]]}"
            dist[key] = dist.get(key, 0) + 1
    fam["pass_outcomes"] = dist

    ctx.coverage["rule"] = P.__doc__.split("\n\n", 1)[1][:1400]
    ctx.coverage["exhaustive"] = False
    ctx.coverage["not_covered"] = ("patterns of dialects other than arith/scf/cf; FoldConstsByReassociation "
                                   "(fastmath reassoc); vector/tensor constants; shli/shrsi with constant "
                                   "shift amounts above 4096 are not fed to constant-fold-interp (the interpreter and the "
                                   "Coq model would iterate / materialise 2^b bits)")
