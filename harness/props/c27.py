"""C27 -- PDL patterns act the same interpreted or compiled to pdl_interp.

Tie: hand-written Coq model (coq/C27/Model.v) of
  * interpreters/pdl.py        PDLMatcher.match_* + PDLRewriteFunctions          (`pdl_apply`)
  * convert_pdl_to_pdl_interp  predicate extraction, ordering, chain + rewriter generation, single pattern (`compile`)
  * interpreters/pdl_interp.py the matcher/rewriter abstract machine              (`interp_apply`)
for a restricted PDL language (tree of pdl.operation nodes, free/shared pdl.operand values, pdl.result edges,
constant/any attributes, constant/variable types; rewrite = constants, new operations, results of new
operations, then replace-with-values / replace-with-operation / erase of the root).
Families: `convert` compares the REAL conversion's matcher chain and rewriter function, instruction by
instruction, with the model's `compile p`; `apply` runs one match_and_rewrite of the REAL direct pattern and of
the REAL converted matcher/rewriter at every operation of a generated payload (exact instances of the pattern,
near misses, fillers, block arguments, attributes vs properties) and compares outcome and resulting IR with
the model; `corpus` does the same for every pdl.pattern under /repo/tests and /repo/docs that lies in the
modelled language, the others are run oracle-only; `pass` runs both real paths to a fixpoint through
PatternRewriteWalker.  Oracle (independent of the model): both real paths, on clones of the same payload,
give the same outcome class (applied / no match / raised) and structurally identical IR (own canonical dump:
operation names, operand wiring by position, attributes, properties, result types).
Non-trivial: the pattern matched at some operation (rewrite executed), or a near miss was rejected by both.
"""
from __future__ import annotations

import io
import json
import re
from pathlib import Path

from harness.common import (Ctx, DiffSpec, ModelUnavailable, coq_Z, differential, exc_code, replay_findings,
                            to_jsonable)

META = {
    "id": "C27",
    "title": "PDL patterns act the same interpreted or compiled to pdl_interp",
    "design_ref": "DESIGN.md section 8.C27",
    "technique": "Coq proof that the compiled predicate chain and the direct matcher agree on a restricted PDL language + instruction-level model-vs-code correspondence of the conversion and both interpreters",
    "level_text": (
        "Theorems in coq/Props/C27.v about an executable model of interpreters/pdl.py (PDLMatcher, PDLRewriteFunctions), of "
        "the single-pattern PDL-to-pdl_interp conversion (predicate extraction, de-duplication + OrderedPredicate sort, "
        "chain and rewriter generation) and of the pdl_interp interpreter, for a restricted PDL language (tree of "
        "pdl.operation nodes, free/shared pdl.operand, pdl.result edges, constant/any attributes, constant/variable types; "
        "rewrite = constants, new operations, results of new operations, replace root with values / operation, erase root). "
        "For EVERY pattern, payload and root: (1) the generated matcher chain run by the abstract machine equals the sequential "
        "evaluation of the predicates under a position semantics (C27_chain_is_sequential_evaluation), the ordering keeps the "
        "predicate set (C27_ordering_keeps_predicates); (2) C27_match_equiv_partial: under spelled-out side conditions (per "
        "repair flag) the direct matcher never raises, succeeds exactly when the converted matcher records a match, and binds "
        "every pattern value to the denotation of the position handed to the rewriter; with all proposed repairs only the "
        "static tree shape remains (C27_match_equiv_repaired); (3) a chain passing the executable static guard check never "
        "raises on any payload (C27_matcher_never_raises; the check is evaluated on every case); (4) C27_compile_total. "
        "The full statement is REFUTED for the code as found by six vm_compute witnesses (C27_*_refuted_*), each reproduced "
        "on the real code: one (falsy constant attribute) was fixed in /repo during the build (19f27a5), five are listed known "
        "findings (all repaired in /repo meanwhile). (5) Rewrite equivalence, for every configuration with pdl_interp.erase and "
        "type-range handling (C27-4, C27-5), under the match side conditions and the executable static check rewrite_static_ok "
        "(evaluated on every case): C27_rewrite_equiv -- FULL equality of every outcome (rewritten payload, no match, exception) "
        "of the direct application and of the converted matcher + rewriter, for the rewrites accepted by the executable check "
        "rewrite_frag_ok (replacement by values, erasure, new operations incl. nested creation, replacement operations with "
        "declared or inferred result types -- everything but ill-typed rewrites: a pdl.result index beyond the results of the "
        "new operation, a replacement with results for a root without results); C27_rewrite_equiv_partial + C27_no_match_equiv -- for "
        "ALL rewrites of the language: if the direct application rewrites the payload the converted one produces exactly the "
        "same payload, and no match stays no match (proved by a statement-by-statement simulation, "
        "C27_rewriter_simulates_direct_rewrite). Left open: the direction 'direct rewrite raises' for the ill-typed rewrites outside "
        "the fragment (there the two real paths differ as well), re-used pdl.result values: evidence there is the "
        "correspondence and a model test. "
        "Tie: hand-written model with one flag per repair (probed on /repo at every run) vs the real code: conversion output "
        "compared instruction by instruction, one match_and_rewrite of both real paths at every operation of generated and "
        "corpus payloads compared with the model (outcome + resulting IR)."),
    "level_note": (
        "Trusted: Coq kernel; hand-written model; harness (pattern/payload builders, dumps, canonicalisation; exception "
        "classes are collapsed to 'raised'). Modelled: PDLMatcher.match_operation/match_operand/match_result/match_type/"
        "match_attribute, PDLRewriteFunctions (operation, result, attribute, type, replace, erase), PatternRewriter "
        "insert/replace/erase on a single block, PatternAnalyzer.extract_tree_predicates and helpers, OrderedPredicate "
        "ordering, generate_matcher/get_value_at/generate_bool_node/generate_success_node/generate_rewriter for ONE pattern "
        "(the predicate tree is a chain), PDLInterpFunctions for the 21 operations that occur. Not covered: several patterns "
        "(tree merging, switch nodes), optimize_for_eqsat / ematch, native constraints and rewrites, pdl.operands/types/"
        "results/range (variadics), typed pdl.attribute, DAG-shaped patterns, re-used pdl.result values in the theorems "
        "(model and correspondence only), regions/successors in the payload, the PDL verifier, rewrite equivalence when "
        "the direct rewrite raises, a pdl.result index beyond the declared results of a new operation and a replacement operation with "
        "results for a root without results (ill-typed patterns on which the two paths differ: IndexError / ValueError vs "
        "null value / erase)."),
}
COQ_TARGETS = ["C27/Enc.vo", "C27/ProofsChain.vo", "C27/ProofsOrder.vo", "C27/ProofsMatch.vo", "C27/ProofsGuard.vo", "C27/ProofsTotal.vo", "C27/Proofs.vo", "C27/ProofsEnv.vo", "C27/ProofsRewrite.vo",
               "C27/ProofsRewriteFull.vo", "C27/ProofsRewriteTop.vo", "Props/C27.vo"]
REQ = ["C27.Model", "C27.Enc", "C27.ProofsGuard", "C27.ProofsRewriteTop"]
ASSUMPTIONS = [
    "match theorem: the side conditions of Proofs.match_side_conditions (truthy constants or repair C27-1; no name in both "
    "attribute dictionaries or C27-6; well-formed SSA payload and single-result pdl.result edges or C27-2; every "
    "pdl.operation / pdl.result value once in the tree, no re-used pdl.result value, pdl.result indices within the declared types)",
    "no-raise theorem: the executable static check compile_guarded holds for the pattern (evaluated on every case of every run)",
    "compile_total: the rewrite part refers only to existing values (rewrite_refs_ok, executable)",
    "rewrite theorems: repairs C27-4 and C27-5 present (fx_erase, fx_range, fx_infer), the match side conditions, and the "
    "executable static checks rewrite_static_ok (all patterns) / rewrite_frag_ok (full equality), both evaluated on every case",
]
TRUSTED = ["the vocabulary mapping ids <-> operation names / attribute values / types of the harness",
           "Python truth value of an attribute constant is encoded in the sign of its id (checked against bool(attr) for corpus constants)"]

# ---------------------------------------------------------------------------------------------
# vocabulary shared by the JSON cases, the real IR and the Coq model

DEFAULT_V = {
    "ops": ["test.op", "test.pureop", "test.op_with_memread", "test.op_with_memwrite"],
    "anames": ["a", "b", "prop1", "prop2"],          # ids >= 2 are properties of the operations of the vocabulary
    "types": ["i32", "i64", "f32", "index"],
    # attribute values: id <= 0 are values whose Python truth value is False
    "avals": {"0": "0 : i32", "-1": "[]", "-2": "0 : i64", "-3": "false", "1": "1 : i32", "2": "2 : i32",
              "3": '"s"', "4": "unit", "5": "[1 : i32]"},
}


class _Vocab:
    """vocabulary of one case: ids <-> names / parsed attributes (ids are what the Coq model sees)"""

    def __init__(self, v):
        self.ops, self.anames, self.types = v["ops"], v["anames"], v["types"]
        self.avals = {int(k): t for k, t in v["avals"].items()}
        self._a: dict = {}
        self._t: dict = {}

    def attr_obj(self, a: int):
        if a not in self._a:
            from xdsl.parser import Parser
            self._a[a] = Parser(_ctx(), self.avals[a]).parse_attribute()
        return self._a[a]

    def type_obj(self, t: int):
        if t not in self._t:
            from xdsl.parser import Parser
            self._t[t] = Parser(_ctx(), self.types[t]).parse_attribute()
        return self._t[t]

    def attr_id(self, a) -> int:
        for k in self.avals:
            if self.attr_obj(k) == a:
                return k
        return 99

    def type_id(self, t) -> int:
        for k in range(len(self.types)):
            if self.type_obj(k) == t:
                return k
        return 99

    def op_id(self, s) -> int:
        return self.ops.index(s) if s in self.ops else 99

    def aname_id(self, s) -> int:
        return self.anames.index(s) if s in self.anames else 99


_VOCABS: dict = {}


def vocab(case) -> _Vocab:
    v = case.get("vocab") or DEFAULT_V
    k = json.dumps(v, sort_keys=True)
    if k not in _VOCABS:
        _VOCABS[k] = _Vocab(v)
    return _VOCABS[k]


def is_prop(n: int) -> bool:
    return n >= 2


_CTX = None


def _ctx():
    """one Context with every dialect registered lazily (corpus patterns name arith/func/... operations)"""
    global _CTX
    if _CTX is None:
        from xdsl.context import Context
        from xdsl.dialects import get_all_dialects
        c = Context()
        for n, f in get_all_dialects().items():
            c.register_dialect(n, f)
        _CTX = c
    return _CTX


# ---------------------------------------------------------------------------------------------
# pattern JSON -> PDL text
#
# pattern = {"tvars": [const|None], "avars": [const|None], "ovars": [tvar|None],
#            "root": OP, "rw": [STMT...]}
# OP      = {"id": k, "name": n|None, "attrs": [[name, avar]], "operands": [OPERAND], "rtys": [tvar]}
# OPERAND = ["free", ovar] | ["res", rid, idx, OP] | ["reuse", rid]
# STMT    = ["attr", lid, const] | ["type", lid, const]
#         | ["op", lid, name, [VREF], [[attrname, AREF]], [TREF]] | ["result", lid, lid_of_op, idx]
#         | ["replace_vals", [VREF]] | ["replace_op", lid] | ["erase"]
# VREF = ["mo", ovar] | ["mr", rid] | ["l", lid];  AREF = ["ma", avar] | ["l", lid];  TREF = ["mt", tvar] | ["l", lid]


def pattern_text(p, V=None) -> str:
    V = V or vocab(p)
    out = ["pdl.pattern " + (f"@{p['name']} " if p.get("name") else "") + ": benefit(1) {"]
    for i, c in enumerate(p["tvars"]):
        out.append(f"  %t{i} = pdl.type" + (f" : {V.types[c]}" if c is not None else ""))
    for i, c in enumerate(p["avars"]):
        out.append(f"  %a{i} = pdl.attribute" + (f" = {V.avals[c]}" if c is not None else ""))
    for i, t in enumerate(p["ovars"]):
        out.append(f"  %o{i} = pdl.operand" + (f" : %t{t}" if t is not None else ""))

    def op_line(prefix, name, operands, attrs, tys):
        s = f"  {prefix} = pdl.operation"
        if name is not None:
            s += f' "{V.ops[name]}"'
        if operands:
            s += " (" + ", ".join(operands) + " : " + ", ".join("!pdl.value" for _ in operands) + ")"
        if attrs:
            s += " {" + ", ".join(f'"{V.anames[n]}" = {v}' for n, v in attrs) + "}"
        if tys:
            s += " -> (" + ", ".join(tys) + " : " + ", ".join("!pdl.type" for _ in tys) + ")"
        return s

    def emit_op(o):
        names = []
        for x in o["operands"]:
            if x[0] == "free":
                names.append(f"%o{x[1]}")
            elif x[0] == "res":
                emit_op(x[3])
                out.append(f"  %r{x[1]} = pdl.result {x[2]} of %p{x[3]['id']}")
                names.append(f"%r{x[1]}")
            else:
                names.append(f"%r{x[1]}")
        out.append(op_line(f"%p{o['id']}", o["name"], names, [(n, f"%a{a}") for n, a in o["attrs"]],
                           [f"%t{t}" for t in o["rtys"]]))

    emit_op(p["root"])
    root = f"%p{p['root']['id']}"
    out.append(f"  pdl.rewrite {root} {{")

    def vref(v):
        return {"mo": f"%o{v[1]}", "mr": f"%r{v[1]}", "l": f"%l{v[1]}"}[v[0]]

    def aref(v):
        return {"ma": f"%a{v[1]}", "l": f"%l{v[1]}"}[v[0]]

    def tref(v):
        return {"mt": f"%t{v[1]}", "l": f"%l{v[1]}"}[v[0]]

    for s in p["rw"]:
        k = s[0]
        if k == "attr":
            out.append(f"    %l{s[1]} = pdl.attribute = {V.avals[s[2]]}")
        elif k == "type":
            out.append(f"    %l{s[1]} = pdl.type : {V.types[s[2]]}")
        elif k == "op":
            out.append("  " + op_line(f"%l{s[1]}", s[2], [vref(v) for v in s[3]],
                                      [(n, aref(a)) for n, a in s[4]], [tref(t) for t in s[5]]))
        elif k == "result":
            out.append(f"    %l{s[1]} = pdl.result {s[3]} of %l{s[2]}")
        elif k == "replace_vals":
            vs = [vref(v) for v in s[1]]
            out.append(f"    pdl.replace {root} with (" + ", ".join(vs) + " : " + ", ".join("!pdl.value" for _ in vs) + ")")
        elif k == "replace_op":
            out.append(f"    pdl.replace {root} with %l{s[1]}")
        elif k == "erase":
            out.append(f"    pdl.erase {root}")
        else:
            raise ValueError(k)
    out += ["  }", "}"]
    return "\n".join(out) + "\n"


# ---------------------------------------------------------------------------------------------
# payload JSON -> real IR
#
# payload = {"args": [ty...], "ops": [{"name": n, "operands": [["a", k] | ["r", opindex, k]],
#            "attrs": [[name, value]], "props": [[name, value]], "rtys": [ty...]}]}
# built as   builtin.module { func.func @f(args) { <ops> ; func.return } }


def build_payload(pl, V):
    from xdsl.dialects import builtin, func, test
    from xdsl.ir import Block, Region
    c = _ctx()
    block = Block(arg_types=[V.type_obj(t) for t in pl["args"]])
    ops = []
    for o in pl["ops"]:
        operands = []
        for v in o["operands"]:
            operands.append(block.args[v[1]] if v[0] == "a" else ops[v[1]].results[v[2]])
        op = c.get_op(V.ops[o["name"]]).create(
            operands=operands, result_types=[V.type_obj(t) for t in o["rtys"]],
            attributes={V.anames[n]: V.attr_obj(a) for n, a in o["attrs"]},
            properties={V.anames[n]: V.attr_obj(a) for n, a in o["props"]})
        block.add_op(op)
        ops.append(op)
    block.add_op(func.ReturnOp())
    f = func.FuncOp("f", ([V.type_obj(t) for t in pl["args"]], []), Region(block))
    return builtin.ModuleOp([f]), ops


def dump_payload(module, V):
    """Own canonical dump (independent of is_structurally_equivalent): ops of the function body in order,
    operands by (block-arg index | position of defining op, result index), names, attrs, props, result types."""
    from xdsl.dialects import func
    from xdsl.ir import BlockArgument, OpResult
    f = next((o for o in module.body.block.ops if isinstance(o, func.FuncOp)), None)
    if f is None or not f.body.blocks:
        return [[99]]           # the function holding the payload itself was erased
    block = f.body.block
    body = [o for o in block.ops if not isinstance(o, func.ReturnOp)]
    pos = {id(o): i for i, o in enumerate(body)}
    out = []
    for o in body:
        name = V.op_id(o.name)
        opnds = []
        for v in o.operands:
            if isinstance(v, BlockArgument) and v.block is block:
                opnds.append([0, v.index])
            elif isinstance(v, OpResult) and id(v.op) in pos:
                opnds.append([1, pos[id(v.op)], v.index])
            else:
                opnds.append([2])
        def dic(d):
            return sorted([V.aname_id(k), V.attr_id(v)] for k, v in d.items())
        out.append([name, opnds, dic(o.attributes), dic(o.properties), [V.type_id(r.type) for r in o.results]])
    return out


# ---------------------------------------------------------------------------------------------
# the two real paths

class _Prepared:
    """A pattern prepared once for both real paths (parsing/conversion errors are kept as outcomes)."""

    def __init__(self, text: str):
        from xdsl.dialects import pdl, pdl_interp
        from xdsl.interpreter import Interpreter
        from xdsl.interpreters.pdl import PDLRewritePattern
        from xdsl.interpreters.pdl_interp import PDLInterpFunctions
        from xdsl.parser import Parser
        from xdsl.transforms.apply_pdl_interp import PDLInterpRewritePattern
        from xdsl.transforms.convert_pdl_to_pdl_interp.conversion import ConvertPDLToPDLInterpPass
        self.text = text
        self.ctx = _ctx()
        self.direct = self.direct_err = self.compiled = self.compiled_err = None
        self.interp_module = None
        try:
            m = Parser(self.ctx, text).parse_module()
            m.verify()
            rw = [o for o in m.walk() if isinstance(o, pdl.RewriteOp)]
            assert len(rw) == 1
            self.direct = PDLRewritePattern(rw[0], self.ctx, None)
        except BaseException as e:  # noqa: BLE001
            self.direct_err = e
        try:
            m2 = Parser(self.ctx, text).parse_module()
            m2.verify()
            ConvertPDLToPDLInterpPass().apply(self.ctx, m2)
            m2.verify()
            self.interp_module = m2
            matcher = next(o for o in m2.walk() if isinstance(o, pdl_interp.FuncOp) and o.sym_name.data == "matcher")
            it = Interpreter(m2)
            impls = PDLInterpFunctions()
            PDLInterpFunctions.set_ctx(it, self.ctx)
            it.register_implementations(impls)
            self.compiled = PDLInterpRewritePattern(matcher, it, impls)
        except BaseException as e:  # noqa: BLE001
            self.compiled_err = e


_PREP: dict = {}


def prepared(text: str) -> _Prepared:
    if text not in _PREP:
        if len(_PREP) > 4000:
            _PREP.clear()
        _PREP[text] = _Prepared(text)
    return _PREP[text]


def apply_once(text: str, which: str, pl, k: int, V):
    """One match_and_rewrite of the direct ("d") or converted ("c") pattern at op k of a fresh copy of the payload.
    -> [0] no match (IR unchanged) | [1, dump] rewritten | [2, exc_code] raised | [3, dump] changed silently"""
    from xdsl.pattern_rewriter import PatternRewriter
    pr = prepared(text)
    pattern, err = (pr.direct, pr.direct_err) if which == "d" else (pr.compiled, pr.compiled_err)
    if pattern is None:
        return [2, exc_code(err)]
    module, ops = build_payload(pl, V)
    before = dump_payload(module, V)
    rw = PatternRewriter(ops[k])
    try:
        pattern.match_and_rewrite(ops[k], rw)
    except BaseException as e:  # noqa: BLE001
        _PREP.pop(text, None)     # an exception leaves interpreter state behind (scopes, pending rewrites)
        return [2, exc_code(e)]
    after = dump_payload(module, V)
    if not rw.has_done_action:
        return [0] if after == before else [3, after]
    return [1, after]


# ---------------------------------------------------------------------------------------------
# dump of the REAL conversion output (correspondence family `convert`)

def dump_conversion(text: str, V):
    """-> [0, matcher_instrs, nargs, rewriter_instrs] | [2, exc_code].  Registers are numbered in order of
    definition along the chain (entry block argument = 0).  Any shape the model does not have is [99, ...]."""
    from xdsl.dialects import pdl, pdl_interp as pi
    pr = prepared(text)
    if pr.interp_module is None:
        return [2, exc_code(pr.compiled_err)]
    m = pr.interp_module
    funcs = [o for o in m.walk() if isinstance(o, pi.FuncOp)]
    matcher = next(f for f in funcs if f.sym_name.data == "matcher")
    rewriters = [f for f in funcs if f is not matcher]
    if len(rewriters) != 1 or any(isinstance(o, pdl.PatternOp) for o in m.walk()):
        return [99, len(rewriters)]
    reg: dict = {}

    def r(v):
        return reg.get(v, -1)

    def new(v):
        reg[v] = len(reg)
        return reg[v]

    name_id, aname_id, attr_id, type_id = V.op_id, V.aname_id, V.attr_id, V.type_id

    entry = matcher.body.blocks[0]
    new(entry.args[0])
    fin = [b for b in matcher.body.blocks if len(list(b.ops)) == 1 and isinstance(b.first_op, pi.FinalizeOp)]
    code = []
    blk, seen = entry, set()
    while blk is not None and id(blk) not in seen:
        seen.add(id(blk))
        nxt = None
        for o in blk.ops:
            if isinstance(o, pi.GetOperandOp):
                code.append([1, new(o.value), r(o.input_op), o.index.value.data])
            elif isinstance(o, pi.GetDefiningOpOp):
                code.append([2, new(o.input_op), r(o.value)])
            elif isinstance(o, pi.GetResultOp):
                code.append([3, new(o.value), r(o.input_op), o.index.value.data])
            elif isinstance(o, pi.GetAttributeOp):
                code.append([4, new(o.value), r(o.input_op), aname_id(o.constraint_name.data)])
            elif isinstance(o, pi.GetValueTypeOp):
                code.append([5, new(o.result), r(o.value)])
            elif isinstance(o, pi.RecordMatchOp):
                ok = o.dest in fin and len(o.matched_ops) == 0
                code.append([20 if ok else 98, [r(v) for v in o.inputs]])
            elif isinstance(o, (pi.IsNotNullOp, pi.CheckOperationNameOp, pi.CheckOperandCountOp, pi.CheckResultCountOp,
                                pi.AreEqualOp, pi.CheckAttributeOp, pi.CheckTypeOp)):
                if o.false_dest not in fin:
                    code.append([98])
                nxt = o.true_dest
                if isinstance(o, pi.IsNotNullOp):
                    code.append([10, r(o.value)])
                elif isinstance(o, pi.CheckOperationNameOp):
                    code.append([11, r(o.input_op), name_id(o.operation_name.data)])
                elif isinstance(o, pi.CheckOperandCountOp):
                    code.append([12 if "compareAtLeast" not in o.properties else 97, r(o.input_op), o.count.value.data])
                elif isinstance(o, pi.CheckResultCountOp):
                    code.append([13 if "compareAtLeast" not in o.properties else 97, r(o.input_op), o.count.value.data])
                elif isinstance(o, pi.AreEqualOp):
                    code.append([14, r(o.lhs), r(o.rhs)])
                elif isinstance(o, pi.CheckAttributeOp):
                    code.append([15, r(o.attribute), attr_id(o.constantValue)])
                else:
                    code.append([16, r(o.value), type_id(o.type)])
            else:
                code.append([99, o.name])
        blk = nxt
    if len(fin) != 1 or len(seen) + 1 != len(matcher.body.blocks):
        code.append([98, len(fin), len(seen), len(matcher.body.blocks)])

    rw = rewriters[0]
    reg = {}
    rb = rw.body.blocks[0]
    for a in rb.args:
        new(a)
    rcode = []
    for o in rb.ops:
        if isinstance(o, pi.CreateAttributeOp):
            rcode.append([30, new(o.attribute), attr_id(o.value)])
        elif isinstance(o, pi.CreateTypeOp):
            rcode.append([31, new(o.result), type_id(o.value)])
        elif isinstance(o, pi.CreateOperationOp):
            rcode.append([32, new(o.result_op), name_id(o.constraint_name.data), [r(v) for v in o.input_operands],
                          [[aname_id(n.data), r(v)] for n, v in zip(o.input_attribute_names.data, o.input_attributes)],
                          [r(v) for v in o.input_result_types]])
        elif isinstance(o, pi.GetResultOp):
            rcode.append([33, new(o.value), r(o.input_op), o.index.value.data])
        elif isinstance(o, pi.GetResultsOp):
            rcode.append([34 if o.index is None else 99, new(o.value), r(o.input_op)])
        elif isinstance(o, pi.GetValueTypeOp):
            rcode.append([35, new(o.result), r(o.value)])
        elif isinstance(o, pi.ReplaceOp):
            rcode.append([36, r(o.input_op), [[1 if isinstance(v.type, pdl.RangeType) else 0, r(v)] for v in o.repl_values]])
        elif isinstance(o, pi.EraseOp):
            rcode.append([37, r(o.input_op)])
        elif isinstance(o, pi.FinalizeOp):
            rcode.append([38])
        else:
            rcode.append([99, o.name])
    return [0, code, len(rb.args), rcode]


# ---------------------------------------------------------------------------------------------
# Coq literals

def cZ(n: int) -> str:
    return f"({n})" if n < 0 else str(n)


def clist(items) -> str:
    items = list(items)
    s = "nil"
    for x in reversed(items):
        s = f"(cons {x} {s})"
    return s


def cfun(table) -> str:
    """list of (const|None) indexed by variable -> Coq `Z -> option Z`"""
    arms = "".join(f" | {i} => Some {cZ(c)}" for i, c in enumerate(table) if c is not None)
    return f"(fun v => match v with{arms} | _ => None end)"


def cpairs(l) -> str:
    return clist(f"({cZ(a)}, {cZ(b)})" for a, b in l)


def coq_op_pat(o) -> str:
    ops = []
    for x in o["operands"]:
        if x[0] == "free":
            ops.append(f"(OFree {x[1]})")
        elif x[0] == "res":
            ops.append(f"(ORes {x[1]} {x[2]} {coq_op_pat(x[3])})")
        else:
            ops.append(f"(OReuse {x[1]})")
    name = "None" if o["name"] is None else f"(Some {o['name']})"
    return f"(Op {o['id']} {name} {cpairs(o['attrs'])} {clist(ops)} {clist(map(cZ, o['rtys']))})"


def coq_stmt(s) -> str:
    V = {"mo": "VMo", "mr": "VMr", "l": "VL"}
    A = {"ma": "AMa", "l": "AL"}
    T = {"mt": "TMt", "l": "TL"}
    k = s[0]
    if k == "attr":
        return f"(SAttr {s[1]} {cZ(s[2])})"
    if k == "type":
        return f"(SType {s[1]} {cZ(s[2])})"
    if k == "op":
        return (f"(SOp {s[1]} {s[2]} {clist(f'({V[v[0]]} {v[1]})' for v in s[3])} "
                f"{clist(f'({n}, {A[a[0]]} {a[1]})' for n, a in s[4])} {clist(f'({T[t[0]]} {t[1]})' for t in s[5])})")
    if k == "result":
        return f"(SResult {s[1]} {s[2]} {s[3]})"
    if k == "replace_vals":
        return f"(SReplaceVals {clist(f'({V[v[0]]} {v[1]})' for v in s[1])})"
    if k == "replace_op":
        return f"(SReplaceOp {s[1]})"
    if k == "erase":
        return "SErase"
    raise ValueError(k)


def coq_pattern(p) -> str:
    return (f"(Build_pattern {cfun(p['tvars'])} {cfun(p['avars'])} {cfun(p['ovars'])} "
            f"{coq_op_pat(p['root'])} {clist(coq_stmt(s) for s in p['rw'])})")


def coq_payload(pl) -> str:
    ops = []
    for i, o in enumerate(pl["ops"]):
        vs = clist(f"(VArg {v[1]})" if v[0] == "a" else f"(VRes {v[1]} {v[2]})" for v in o["operands"])
        ops.append(f"(mkop {i} {o['name']} {vs} {cpairs(o['attrs'])} {cpairs(o['props'])} {clist(map(cZ, o['rtys']))})")
    return f"(Build_payload {clist(map(cZ, pl['args']))} {clist(ops)})"


FIX_NAMES = ["falsy", "resindex", "reuse", "erase", "range", "attrorder", "infer"]


def coq_fixes(fx) -> str:
    return "(Build_fixes " + " ".join("true" if fx[n] else "false" for n in FIX_NAMES) + ")"


# ---------------------------------------------------------------------------------------------
# generators (every case is a pure function of ctx.rng)

def pattern_ops(p):
    """pattern operations in post-order (children first), with the edge that reaches them"""
    out = []

    def go(o):
        for x in o["operands"]:
            if x[0] == "res":
                go(x[3])
        out.append(o)
    go(p["root"])
    return out


def pattern_edges(p, kind):
    out = []

    def go(o):
        for x in o["operands"]:
            if x[0] == kind:
                out.append(x)
            if x[0] == "res":
                go(x[3])
    go(p["root"])
    return out


def gen_pattern(rng, maxdepth=2):
    tvars, avars, ovars = [], [], []
    counter = {"op": 0, "rid": 0}
    rids = []

    def tvar():
        if tvars and rng.random() < 0.4:
            return rng.randrange(len(tvars))
        tvars.append(rng.randrange(4) if rng.random() < 0.4 else None)
        return len(tvars) - 1

    def avar():
        if avars and rng.random() < 0.15:
            return rng.randrange(len(avars))
        r = rng.random()
        avars.append(None if r < 0.25 else rng.choice([0, -1, -2, -3]) if r < 0.45 else rng.choice([1, 2, 3, 4, 5]))
        return len(avars) - 1

    def ovar():
        if ovars and rng.random() < 0.3:
            return rng.randrange(len(ovars))
        ovars.append(tvar() if rng.random() < 0.3 else None)
        return len(ovars) - 1

    def gen_op(depth, is_root):
        name = rng.randrange(4) if rng.random() < 0.85 else None
        names = sorted(rng.sample(range(4), rng.choice([0, 0, 1, 1, 2])))
        attrs = [[n, avar()] for n in names]
        operands = []
        for _ in range(rng.choice([0, 1, 1, 2, 2, 3])):
            r = rng.random()
            if depth < maxdepth and r < 0.4:
                sub = gen_op(depth + 1, False)
                n = len(sub["rtys"])
                idx = rng.randrange(n) if n and rng.random() < 0.95 else n
                counter["rid"] += 1
                rids.append(counter["rid"] - 1)
                operands.append(["res", counter["rid"] - 1, idx, sub])
            elif rids and r < 0.47:
                operands.append(["reuse", rng.choice(rids)])
            else:
                operands.append(["free", ovar()])
        nr = rng.choice([0, 1, 1, 1, 2]) if is_root else rng.choice([1, 1, 1, 2, 2, 0] if rng.random() < 0.2 else [1, 1, 1, 2, 2])
        rtys = [tvar() for _ in range(nr)]
        o = {"id": counter["op"], "name": name, "attrs": attrs, "operands": operands, "rtys": rtys}
        counter["op"] += 1
        return o

    root = gen_op(0, True)
    p = {"tvars": tvars, "avars": avars, "ovars": ovars, "root": root, "rw": []}
    p["rw"] = gen_rewrite(rng, p)
    # pattern symbol names: the lowering names the rewriter function after the pattern, next to the function
    # `matcher` and the module `rewriters`; unnamed patterns get `pdl_generated_rewriter`
    if rng.random() < 0.35:
        p["name"] = rng.choice(PATTERN_NAMES)
    return p


PATTERN_NAMES = ["matcher", "matcher", "rewriters", "pdl_generated_rewriter", "pdl_generated_rewriter_0", "finalize", "p"]


def gen_shared_case(rng):
    """ONE pdl.attribute / pdl.type value (constant or not) constrains two operations (the root and the operation
    defining one of its operands, or two nested operations); the payload is an exact instance in which, two times
    out of three, exactly ONE of the two positions is broken (the other still carries the literal / the equal value)"""
    kind = rng.choice(["attr", "attr", "type"])
    const = rng.random() < 0.6
    tvars, avars = [None], []
    n1, n2 = rng.randrange(4), rng.randrange(4)
    if kind == "attr":
        avars.append(rng.choice([0, -1, 1, 2, 3, 5]) if const else None)
        a_root, a_sub, t_root, t_sub = [[n1, 0]], [[n2, 0]], 0, 0
        tvars = [None, None]
        t_root, t_sub = 0, 1
    else:
        tvars = [rng.randrange(4) if const else None]
        a_root, a_sub, t_root, t_sub = [], [], 0, 0
    sub = {"id": 0, "name": rng.randrange(4), "attrs": a_sub, "operands": [], "rtys": [t_sub]}
    shape = rng.randrange(3)
    ovars = []
    if shape == 0:      # root -> sub
        root = {"id": 1, "name": rng.randrange(4), "attrs": a_root, "operands": [["res", 0, 0, sub]], "rtys": [t_root]}
    elif shape == 1:    # root(free, sub)
        ovars = [None]
        root = {"id": 1, "name": rng.randrange(4), "attrs": a_root, "operands": [["free", 0], ["res", 0, 0, sub]], "rtys": [t_root]}
    else:               # root(sub1, sub2): the two constrained operations are siblings
        sub2 = {"id": 1, "name": rng.randrange(4), "attrs": a_root, "operands": [], "rtys": [t_root]}
        root = {"id": 2, "name": rng.randrange(4), "attrs": [], "operands": [["res", 0, 0, sub], ["res", 1, 0, sub2]], "rtys": []}
    p = {"tvars": tvars, "avars": avars, "ovars": ovars, "root": root, "rw": []}
    # rewrites that do not compile to an erase of a used value: a fresh operation replaces the root
    p["rw"] = gen_rewrite(rng, p)
    if rng.random() < 0.3:
        p["name"] = rng.choice(PATTERN_NAMES)
    pl, ri = instantiate(rng, p)
    r = rng.random()
    if r < 0.67:
        # positions of the two constrained payload operations: the pattern ops that carry the shared value
        holders = [i for i, o in enumerate(pl["ops"]) if (o["attrs"] or o["props"])] if kind == "attr" else \
                  [i for i, o in enumerate(pl["ops"]) if o["rtys"]]
        holders = [i for i in holders if i <= ri][-3:]
        if holders:
            i = holders[0] if r < 0.33 else holders[-1]
            o = pl["ops"][i]
            if kind == "attr":
                d = o["attrs"] if o["attrs"] else o["props"]
                d[0][1] = rng.choice([x for x in (0, -1, 1, 2, 3, 5) if x != d[0][1]])
            else:
                o["rtys"][0] = (o["rtys"][0] + 1 + rng.randrange(3)) % 4
    return p, pl


def gen_rewrite(rng, p):
    root = p["root"]
    used_o = sorted({x[1] for x in pattern_edges(p, "free")})
    used_r = sorted({x[1] for x in pattern_edges(p, "res")})
    used_t = sorted({t for o in pattern_ops(p) for t in o["rtys"]} |
                    {p["ovars"][v] for v in used_o if p["ovars"][v] is not None})
    used_a = sorted({a for o in pattern_ops(p) for _, a in o["attrs"]})
    pool = [["mo", v] for v in used_o] + [["mr", r] for r in used_r]
    stmts, nl = [], [0]

    def lid():
        nl[0] += 1
        return nl[0] - 1

    def tref():
        if used_t and rng.random() < 0.5:
            return ["mt", rng.choice(used_t)]
        l = lid()
        stmts.append(["type", l, rng.randrange(4)])
        return ["l", l]

    def aref():
        if used_a and rng.random() < 0.5:
            return ["ma", rng.choice(used_a)]
        l = lid()
        stmts.append(["attr", l, rng.choice([0, -1, 1, 2, 3, 4, 5])])
        return ["l", l]

    def new_op(ntys):
        names = sorted(rng.sample(range(4), rng.choice([0, 0, 1, 2])))
        attrs = [[n, aref()] for n in names]
        tys = [tref() for _ in range(ntys)]
        operands = [rng.choice(pool) for _ in range(rng.choice([0, 1, 2]))] if pool else []
        l = lid()
        stmts.append(["op", l, rng.randrange(4), operands, attrs, tys])
        return l

    for _ in range(rng.choice([0, 0, 1, 2])):
        n = rng.choice([0, 1, 1, 2])
        l = new_op(n)
        for i in range(n):
            if rng.random() < 0.7:
                r = lid()
                stmts.append(["result", r, l, i])
                pool.append(["l", r])
    nres = len(root["rtys"])
    k = rng.random()
    if k < 0.3 and nres and pool:
        stmts.append(["replace_vals", [rng.choice(pool) for _ in range(nres)]])
    elif k < 0.8:
        # replacement operation: as many declared result types as the root has (none if the root has none; a
        # replacement with results for a root without results is ill-typed: the direct path raises ValueError,
        # the converted one erases the root -- outside the language)
        l = new_op(nres)
        stmts.append(["replace_op", l])
    else:
        stmts.append(["erase"])
    return stmts


def gen_malformed_rewrite(rng, p):
    """rewrites with a wrong number of replacement values / result index out of range / typeless replacement"""
    st = gen_rewrite(rng, p)
    k = rng.randrange(3)
    root = p["root"]
    used_o = sorted({x[1] for x in pattern_edges(p, "free")})
    if k == 0 and used_o:
        st = st[:-1] + [["replace_vals", [["mo", rng.choice(used_o)] for _ in range(len(root["rtys"]) + 1)]]]
    elif k == 1:
        for s in st:
            # drop the last result type of a new operation, unless a pdl.result of the rewrite refers to it
            # (a pdl.result index beyond the declared results is outside the language: the direct path raises
            # IndexError, the converted one goes on with a null value)
            if s[0] == "op" and s[5] and rng.random() < 0.7 and not any(
                    r[0] == "result" and r[2] == s[1] and r[3] == len(s[5]) - 1 for r in st):
                s[5].pop()
    else:
        for s in st:
            if s[0] == "op" and not any(r[0] == "result" and r[2] == s[1] for r in st):
                s[5] = []
    return st


def instantiate(rng, p):
    """a payload containing an exact instance of the pattern (root = returned index), fillers and a user"""
    tval = [c if c is not None else rng.randrange(4) for c in p["tvars"]]
    aval = [c if c is not None else rng.choice([0, -1, 1, 2, 3]) for c in p["avars"]]
    args, ops = [], []
    oval: dict = {}
    rval: dict = {}

    def some_value(ty):
        if ops and rng.random() < 0.3:
            cands = [["r", i, k] for i, o in enumerate(ops) for k, t in enumerate(o["rtys"]) if t == ty]
            if cands:
                return rng.choice(cands)
        if rng.random() < 0.5:
            args.append(ty)
            return ["a", len(args) - 1]
        n = rng.choice([1, 1, 2])
        k = rng.randrange(n)
        rt = [rng.randrange(4) for _ in range(n)]
        rt[k] = ty
        ops.append({"name": rng.randrange(4), "operands": [], "attrs": [], "props": [], "rtys": rt})
        return ["r", len(ops) - 1, k]

    def build(o):
        operands = []
        for x in o["operands"]:
            if x[0] == "free":
                v = x[1]
                if v not in oval:
                    t = p["ovars"][v]
                    oval[v] = some_value(tval[t] if t is not None else rng.randrange(4))
                operands.append(oval[v])
            elif x[0] == "res":
                i = build(x[3])
                n = len(ops[i]["rtys"])
                rval[x[1]] = ["r", i, x[2] if x[2] < n else n - 1] if n else some_value(rng.randrange(4))
                operands.append(rval[x[1]])
            else:
                operands.append(rval.get(x[1], ["a", 0]) if (rval.get(x[1]) or args) else some_value(0))
        attrs = [[n, aval[a]] for n, a in o["attrs"] if not is_prop(n)]
        props = [[n, aval[a]] for n, a in o["attrs"] if is_prop(n)]
        if rng.random() < 0.2:
            free = [n for n in range(4) if n not in [x for x, _ in o["attrs"]]]
            if free:
                n = rng.choice(free)
                (props if is_prop(n) else attrs).append([n, rng.choice([0, 1, 3])])
        ops.append({"name": o["name"] if o["name"] is not None else rng.randrange(4), "operands": operands,
                    "attrs": sorted(attrs), "props": sorted(props), "rtys": [tval[t] for t in o["rtys"]]})
        return len(ops) - 1

    root = build(p["root"])
    for _ in range(rng.choice([0, 1, 1, 2])):
        vals = [["r", i, k] for i, o in enumerate(ops) for k in range(len(o["rtys"]))] + [["a", k] for k in range(len(args))]
        ops.append({"name": rng.randrange(4), "operands": [rng.choice(vals) for _ in range(rng.choice([1, 2]))] if vals else [],
                    "attrs": [], "props": [], "rtys": [rng.randrange(4) for _ in range(rng.choice([0, 1]))]})
    if ops[root]["rtys"] and rng.random() < 0.8:
        ops.append({"name": rng.randrange(4), "operands": [["r", root, k] for k in range(len(ops[root]["rtys"]))],
                    "attrs": [], "props": [], "rtys": []})
    return {"args": args, "ops": ops}, root


def mutate(rng, pl):
    """one near-miss edit that keeps def-before-use"""
    ops = pl["ops"]
    if not ops:
        return
    i = rng.randrange(len(ops))
    o = ops[i]
    k = rng.randrange(10)
    earlier = [["r", j, r] for j in range(i) for r in range(len(ops[j]["rtys"]))] + [["a", a] for a in range(len(pl["args"]))]
    if k == 0:
        o["name"] = rng.randrange(4)
    elif k == 1 and (o["attrs"] or o["props"]):
        d = rng.choice([x for x in (o["attrs"], o["props"]) if x])
        d[rng.randrange(len(d))][1] = rng.choice([0, -1, -2, 1, 2, 3, 4])
    elif k == 2 and (o["attrs"] or o["props"]):
        d = rng.choice([x for x in (o["attrs"], o["props"]) if x])
        d.pop(rng.randrange(len(d)))
    elif k == 3 and o["rtys"]:
        o["rtys"][rng.randrange(len(o["rtys"]))] = rng.randrange(4)
    elif k == 4 and earlier:
        o["operands"].append(rng.choice(earlier))
    elif k == 5 and o["operands"]:
        o["operands"].pop(rng.randrange(len(o["operands"])))
    elif k == 6 and o["operands"] and earlier:
        o["operands"][rng.randrange(len(o["operands"]))] = rng.choice(earlier)
    elif k == 7 and o["operands"]:
        # another result of the same defining operation
        j = rng.randrange(len(o["operands"]))
        v = o["operands"][j]
        if v[0] == "r" and len(ops[v[1]]["rtys"]) > 1:
            o["operands"][j] = ["r", v[1], (v[2] + 1) % len(ops[v[1]]["rtys"])]
    elif k == 8 and o["props"]:
        # the same name also as a plain attribute, with another value (valid IR for the test operations)
        n, a = rng.choice(o["props"])
        if all(x != n for x, _ in o["attrs"]):
            o["attrs"] = sorted(o["attrs"] + [[n, rng.choice([x for x in (0, 1, 2, 3) if x != a])]])
    elif k == 9:
        users_exist = any(v[0] == "r" and v[1] == i for q in ops for v in q["operands"])
        if not users_exist or len(o["rtys"]) == 0:
            o["rtys"].append(rng.randrange(4))


def random_payload(rng):
    args = [rng.randrange(4) for _ in range(rng.choice([0, 1, 2]))]
    ops = []
    for i in range(rng.randint(1, 6)):
        vals = [["r", j, r] for j in range(i) for r in range(len(ops[j]["rtys"]))] + [["a", a] for a in range(len(args))]
        names = sorted(rng.sample(range(4), rng.choice([0, 0, 1, 2])))
        kv = [[n, rng.choice([0, -1, 1, 2, 3])] for n in names]
        ops.append({"name": rng.randrange(4), "operands": [rng.choice(vals) for _ in range(rng.choice([0, 1, 2, 3]))] if vals else [],
                    "attrs": [x for x in kv if not is_prop(x[0])], "props": [x for x in kv if is_prop(x[0])],
                    "rtys": [rng.randrange(4) for _ in range(rng.choice([0, 1, 1, 2]))]})
    return {"args": args, "ops": ops}


def gen_payload(rng, p):
    r = rng.random()
    if r < 0.08:
        return random_payload(rng)
    pl, _ = instantiate(rng, p)
    for _ in range(0 if r < 0.45 else 1 if r < 0.85 else 2):
        mutate(rng, pl)
    return pl


# ---------------------------------------------------------------------------------------------
# families

FX: dict = {n: False for n in FIX_NAMES}
ACTIVE: set = set()


def _red(r):
    return [2] if r[0] == 2 else r


def in_full_fragment(p) -> bool:
    """rewrite_frag_ok of ProofsRewriteTop.v recomputed from the case: the patterns for which C27_rewrite_equiv
    (full equality of every outcome) is proved"""
    used_o = {x[1] for x in pattern_edges(p, "free")}
    used_r = {x[1] for x in pattern_edges(p, "res")}
    used_t = {t for o in pattern_ops(p) for t in o["rtys"]} | {p["ovars"][v] for v in used_o if p["ovars"][v] is not None}
    used_a = {a for o in pattern_ops(p) for _, a in o["attrs"]}

    def reached(ref):
        return ref[0] == "l" or ref[1] in {"mo": used_o, "mr": used_r, "ma": used_a, "mt": used_t}[ref[0]]

    frag = True
    tenv: dict = {}
    rw = p["rw"]
    for i, s in enumerate(rw):
        later = rw[i + 1:]
        if s[0] == "replace_vals" and not s[1]:
            frag = False
        if s[0] == "replace_op" and not p["root"]["rtys"] and tenv.get(s[1]) != 0:
            frag = False      # a root without result types: the replacement must be known to have no results
        if s[0] == "result":
            n = tenv.get(s[2])
            if n is None or not (0 <= s[3] < n):
                frag = False
        if s[0] == "op":
            frag = frag and all(reached(v) for v in s[3]) and all(reached(a) for _, a in s[4]) and all(reached(t) for t in s[5])
        if s[0] == "replace_vals":
            frag = frag and all(reached(v) for v in s[1])
        # static result counts of the new operations (tstep of ProofsRewriteFull.v)
        if s[0] in ("attr", "type", "result"):
            tenv[s[1]] = None
        elif s[0] == "op":
            # declared types, or inferred from the root (typeless replacement), or none
            tenv[s[1]] = (len(s[5]) if s[5] else
                          (len(p["root"]["rtys"]) if any(x[0] == "replace_op" and x[1] == s[1] for x in later) else 0))
        else:
            tenv = {}
    return frag


def impl_convert(case):
    """[dump of the real conversion, 1 if it succeeded]; the model side puts `compile_guarded` (the static
    no-raise check of ProofsGuard.v on ITS compiled chain) in the second slot: a compiled pattern whose chain
    does not pass the check shows up as a divergence"""
    V = vocab(case)
    d = _red(dump_conversion(pattern_text(case["p"], V), V))
    ok = 1 if d[0] == 0 else 0
    # third slot: the static hypothesis of C27_rewrite_equiv_partial (rewrite_static_ok) is expected to hold for every
    # pattern that converts; fourth slot: rewrite_frag_ok (the fragment of the full-equality theorem C27_rewrite_equiv),
    # recomputed independently from the case
    frag = in_full_fragment(case["p"])
    return [d, ok, ok, 1 if frag else 0]


def coq_convert(case):
    fx, p = coq_fixes(FX), coq_pattern(case["p"])
    return (f"L (cons (c27_convert {fx} {p}) (cons (sB (compile_guarded {fx} {p})) "
            f"(cons (sB (rewrite_static_ok {fx} {p})) (cons (sB (rewrite_frag_ok {fx} {p})) nil))))")


def impl_apply(case):
    V = vocab(case)
    t = pattern_text(case["p"], V)
    pl = case["pl"]
    return [[_red(apply_once(t, "d", pl, k, V)), _red(apply_once(t, "c", pl, k, V))] for k in range(len(pl["ops"]))]


def coq_apply(case):
    return f"c27_apply {coq_fixes(FX)} {coq_pattern(case['p'])} {coq_payload(case['pl'])}"


def holds_apply(case, res):
    """the property itself, on the two REAL outcomes: same class and same IR at every operation"""
    for k, (d, c) in enumerate(res):
        if d != c:
            what = {0: "does not match", 1: "rewrites", 2: "raises", 3: "changes the IR without notifying the rewriter"}
            if d[0] != c[0]:
                return False, f"at payload op #{k} the direct pattern {what[d[0]]} but the converted matcher/rewriter {what[c[0]]}"
            return False, f"at payload op #{k} both rewrite but the resulting IR differs: direct {d[1]} vs converted {c[1]}"
    return True, ""


def holds_convert(case, res):
    return True, ""     # the statement is about applying; the conversion dump is pure correspondence


def nontrivial_apply(case, res):
    kinds = tuple(sorted({(d[0], c[0]) for d, c in res}))
    if any(d[0] == 1 or c[0] == 1 for d, c in res):
        return ("applied", json.dumps(case["p"], sort_keys=True), json.dumps(case["pl"], sort_keys=True))
    return None


def nontrivial_convert(case, res):
    return json.dumps(case["p"], sort_keys=True) if res[0][0] == 0 else None


# ---- known-finding classes (a predicate on the case AND on the direction of the disagreement)

def _has_falsy_constraint(p):
    return any(p["avars"][a] is not None and p["avars"][a] <= 0 for o in pattern_ops(p) for _, a in o["attrs"])


def _multi_result_edge(p):
    return any(len(x[3]["rtys"]) != 1 for x in pattern_edges(p, "res"))


def _has_reuse(p):
    return bool(pattern_edges(p, "reuse"))


def _compiles_to_erase(p):
    return any(s[0] == "erase" or (s[0] == "replace_op" and not p["root"]["rtys"]) for s in p["rw"])


def _typeless_replacement(p):
    repl = {s[1] for s in p["rw"] if s[0] == "replace_op"}
    return any(s[0] == "op" and s[1] in repl and not s[5] for s in p["rw"])


def _dup_attr_prop(p, pl):
    names = {n for o in pattern_ops(p) for n, _ in o["attrs"]}
    return any(n in names and any(m == n for m, _ in o["props"]) for o in pl["ops"] for n, _ in o["attrs"])


def classify(case, d, c):
    """known-finding id of one disagreeing (direct, converted) outcome pair, or None"""
    p, pl = case["p"], case["pl"]
    out = []
    if c[0] == 2 and d[0] in (0, 1):
        if _typeless_replacement(p) and d[0] == 1:
            out.append("C27-kf-5")
        if _compiles_to_erase(p) and d[0] == 1:
            out.append("C27-kf-4")
    if d[0] == 0 and c[0] in (1, 2):
        if _has_falsy_constraint(p):
            out.append("C27-kf-1")
        if _has_reuse(p):
            out.append("C27-kf-3")
    if d[0] in (1, 2) and c[0] == 0 and _multi_result_edge(p):
        out.append("C27-kf-2")
    if d[0] == 1 and c[0] == 1 and _multi_result_edge(p) and any(s[0] != "erase" for s in p["rw"]):
        out.append("C27-kf-2")      # both rewrite, the direct one with results[index] instead of the operand
    if _dup_attr_prop(p, pl) and not (d[0] == 2 and c[0] != 2):
        out.append("C27-kf-6")
    if _named_matcher(p) and c[0] == 2 and d[0] == 1:
        out.append("C27-kf-7")
    for k in out:
        if k in ACTIVE:
            return k
    return None


def known_apply(case, res):
    ids = []
    for d, c in res:
        if d != c:
            k = classify(case, d, c)
            if k is None:
                return None
            ids.append(k)
    return sorted(ids)[0] if ids else None


# ---------------------------------------------------------------------------------------------
# corpus: every pdl.pattern under /repo/tests and /repo/docs

def corpus_patterns():
    """-> list of (file, text of a module with that single pattern)"""
    import glob
    from xdsl.dialects import pdl
    from xdsl.parser import Parser
    from xdsl.printer import Printer
    out, seen = [], set()
    files = sorted(set(glob.glob("/repo/tests/**/*.mlir", recursive=True) + glob.glob("/repo/docs/**/*.mlir", recursive=True)))
    for f in files:
        try:
            txt = Path(f).read_text()
        except Exception:  # noqa: BLE001
            continue
        if "pdl.pattern" not in txt:
            continue
        for ch in re.split(r"(?m)^// -----.*$", txt):
            if "pdl.pattern" not in ch:
                continue
            try:
                from xdsl.context import Context
                from xdsl.dialects import get_all_dialects
                c = Context(allow_unregistered=True)
                for n, fac in get_all_dialects().items():
                    c.register_dialect(n, fac)
                m = Parser(c, ch).parse_module()
            except BaseException:  # noqa: BLE001
                continue
            for op in m.walk():
                if isinstance(op, pdl.PatternOp):
                    s = io.StringIO()
                    Printer(s).print_op(op)
                    if s.getvalue() not in seen:
                        seen.add(s.getvalue())
                        out.append((f, s.getvalue()))
    return out


def _attr_text(a) -> str:
    from xdsl.printer import Printer
    s = io.StringIO()
    Printer(s).print_attribute(a)
    return s.getvalue()


def pdl_to_case(text: str):
    """real single-pattern PDL text -> ({"p":..., "vocab":...}, None) if it lies in the modelled language,
    else (None, reason)"""
    from xdsl.dialects import pdl
    from xdsl.irdl import IRDLOperation
    from xdsl.parser import Parser
    ctx = _ctx()
    try:
        m = Parser(ctx, text).parse_module()
    except BaseException as e:  # noqa: BLE001
        return None, "unparsable with registered dialects only: " + type(e).__name__
    try:
        m.verify()
    except BaseException:  # noqa: BLE001
        return None, "does not verify (negative test of the pdl dialect)"
    pat = next(o for o in m.walk() if isinstance(o, pdl.PatternOp))
    body = list(pat.body.block.ops)
    rw = body[-1]
    if not isinstance(rw, pdl.RewriteOp):
        return None, "no pdl.rewrite"
    if rw.name_ is not None or rw.root is None or rw.body is None:
        return None, "named / root-less rewrite"
    allowed = (pdl.TypeOp, pdl.AttributeOp, pdl.OperandOp, pdl.OperationOp, pdl.ResultOp, pdl.RewriteOp)
    for o in body:
        if not isinstance(o, allowed):
            return None, o.name
    V = {"ops": list(DEFAULT_V["ops"]), "anames": [None, None, None, None], "types": list(DEFAULT_V["types"]),
         "avals": dict(DEFAULT_V["avals"])}
    amap = {}

    def ty_id(t):
        s = _attr_text(t)
        if s not in V["types"]:
            V["types"].append(s)
        return V["types"].index(s)

    def av_id(a):
        s = _attr_text(a)
        for k, t in V["avals"].items():
            if t == s:
                return int(k)
        ks = [int(k) for k in V["avals"]]
        k = (max(ks) + 1) if bool(a) else (min(ks) - 1)
        V["avals"][str(k)] = s
        return k

    def op_name_id(n):
        if ctx.get_optional_op(n) is None:
            raise ValueError("names an operation that is not registered in xDSL")
        if n not in V["ops"]:
            V["ops"].append(n)
        return V["ops"].index(n)

    def aname_id(n, opname):
        cls = ctx.get_optional_op(opname) if opname else None
        prop = bool(cls is not None and issubclass(cls, IRDLOperation) and n in cls.get_irdl_definition().properties)
        if n in amap:
            if amap[n][1] != prop:
                raise ValueError("attribute name is a property of one operation and not of another")
            return amap[n][0]
        ids = [i for i, x in enumerate(V["anames"]) if x is None and (i >= 2) == prop]
        if not ids:
            if not prop:
                raise ValueError("more than two non-property attribute names")
            V["anames"].append(None)
            ids = [len(V["anames"]) - 1]
        V["anames"][ids[0]] = n
        amap[n] = (ids[0], prop)
        return ids[0]

    tv, av, ov, rv, pv = {}, {}, {}, {}, {}
    tvars, avars, ovars = [], [], []
    for o in body:
        if isinstance(o, pdl.TypeOp):
            tv[o.result] = len(tvars)
            tvars.append(ty_id(o.constantType) if o.constantType is not None else None)
        elif isinstance(o, pdl.AttributeOp):
            if o.value_type is not None:
                return None, "typed pdl.attribute"
            av[o.output] = len(avars)
            avars.append(av_id(o.value) if o.value is not None else None)
    for o in body:
        if isinstance(o, pdl.OperandOp):
            ov[o.value] = len(ovars)
            ovars.append(tv[o.value_type] if o.value_type is not None else None)
    try:
        def build(opv):
            o = opv.owner
            if opv in pv:
                raise ValueError("operation reached twice (DAG)")
            pv[opv] = len(pv)
            name = o.opName.data if o.opName is not None else None
            operands = []
            for x in o.operand_values:
                if isinstance(x.owner, pdl.OperandOp):
                    operands.append(["free", ov[x]])
                elif isinstance(x.owner, pdl.ResultOp):
                    if x in rv:
                        operands.append(["reuse", rv[x]])
                    else:
                        rv[x] = len(rv)
                        rid = rv[x]
                        operands.append(["res", rid, x.owner.index.value.data, build(x.owner.parent_)])
                else:
                    raise ValueError(x.owner.name)
            attrs = [[aname_id(n.data, name), av[a]] for n, a in zip(o.attributeValueNames.data, o.attribute_values)]
            return {"id": pv[opv], "name": op_name_id(name) if name is not None else None, "attrs": attrs,
                    "operands": operands, "rtys": [tv[t] for t in o.type_values]}
        root = build(rw.root)
        loc: dict = {}
        rwst = []

        def vref(v):
            return ["mo", ov[v]] if v in ov else ["mr", rv[v]] if v in rv else ["l", loc[v]]

        for o in rw.body.block.ops:
            if isinstance(o, pdl.AttributeOp) and o.value is not None and o.value_type is None:
                loc[o.output] = len(loc)
                rwst.append(["attr", loc[o.output], av_id(o.value)])
            elif isinstance(o, pdl.TypeOp) and o.constantType is not None:
                loc[o.result] = len(loc)
                rwst.append(["type", loc[o.result], ty_id(o.constantType)])
            elif isinstance(o, pdl.OperationOp) and o.opName is not None:
                nm = o.opName.data
                st = ["op", None, op_name_id(nm), [vref(v) for v in o.operand_values],
                      [[aname_id(n.data, nm), (["ma", av[a]] if a in av else ["l", loc[a]])]
                       for n, a in zip(o.attributeValueNames.data, o.attribute_values)],
                      [(["mt", tv[t]] if t in tv else ["l", loc[t]]) for t in o.type_values]]
                loc[o.op] = len(loc)
                st[1] = loc[o.op]
                rwst.append(st)
            elif isinstance(o, pdl.ResultOp) and o.parent_ in loc:
                loc[o.val] = len(loc)
                rwst.append(["result", loc[o.val], loc[o.parent_], o.index.value.data])
            elif isinstance(o, pdl.ReplaceOp) and o.op_value == rw.root:
                if o.repl_operation is not None:
                    rwst.append(["replace_op", loc[o.repl_operation]])
                else:
                    rwst.append(["replace_vals", [vref(v) for v in o.repl_values]])
            elif isinstance(o, pdl.EraseOp) and o.op_value == rw.root:
                rwst.append(["erase"])
            else:
                raise ValueError("rewrite statement " + o.name)
    except (KeyError, ValueError) as e:
        return None, str(e)[:80]
    # values of the match section that the rewrite uses must have been reached from the root
    used_t = {t for o in pattern_ops({"root": root}) for t in o["rtys"]} | {ovars[x[1]] for x in pattern_edges({"root": root}, "free")}
    used_a = {a for o in pattern_ops({"root": root}) for _, a in o["attrs"]}
    for s in rwst:
        if s[0] == "op":
            if any(a[0] == "ma" and a[1] not in used_a for _, a in s[4]) or any(t[0] == "mt" and t[1] not in used_t for t in s[5]):
                return None, "rewrite uses a match-section constant that the match tree does not reach"
    for i in range(len(V["anames"])):
        if V["anames"][i] is None:
            V["anames"][i] = DEFAULT_V["anames"][i] if i < 4 else f"unused{i}"
    return {"p": {"tvars": tvars, "avars": avars, "ovars": ovars, "root": root, "rw": rwst}, "vocab": V}, None


# ---------------------------------------------------------------------------------------------
# pass level: both real paths through PatternRewriteWalker to a fixpoint (oracle only)

class _Bounded:
    pass


def run_pass(text: str, which: str, pl, V, limit: int = 60):
    from xdsl.pattern_rewriter import PatternRewriteWalker, RewritePattern
    pr = prepared(text)
    pattern, err = (pr.direct, pr.direct_err) if which == "d" else (pr.compiled, pr.compiled_err)
    if pattern is None:
        return [2, exc_code(err)]
    module, _ = build_payload(pl, V)

    class Guard(RewritePattern):
        n = 0

        def match_and_rewrite(self, op, rewriter):
            from xdsl.dialects import builtin, func
            if isinstance(op, (builtin.ModuleOp, func.FuncOp, func.ReturnOp)):
                return
            Guard.n += 1
            if Guard.n > limit * (len(pl["ops"]) + 2):
                raise RecursionError("no fixpoint")
            pattern.match_and_rewrite(op, rewriter)

    try:
        PatternRewriteWalker(Guard()).rewrite_module(module)
    except RecursionError:
        _PREP.pop(text, None)
        return [4]
    except BaseException as e:  # noqa: BLE001
        _PREP.pop(text, None)
        return [2, exc_code(e)]
    return [1, dump_payload(module, V)]


class _Timeout(Exception):
    pass


def run_real_pass(text: str, which: str, pl, V, tmp: Path, seconds: float = 6.0):
    """the REAL passes end to end, as xdsl-opt runs them with the patterns in a separate file:
    "d": ApplyPDLPass(pdl_file);  "c": ConvertPDLToPDLInterpPass on the pattern module, printed, then
    ApplyPDLInterpPass(pdl_interp_file) (its own lookup of the `matcher` entry point, parser, interpreter set-up).
    -> [1, dump] | [2, exc] | [4] (no fixpoint within the time limit)"""
    import signal
    from xdsl.parser import Parser
    from xdsl.printer import Printer
    from xdsl.transforms.apply_pdl import ApplyPDLPass
    from xdsl.transforms.apply_pdl_interp import ApplyPDLInterpPass
    from xdsl.transforms.convert_pdl_to_pdl_interp.conversion import ConvertPDLToPDLInterpPass
    ctx = _ctx()
    module, _ = build_payload(pl, V)

    def on_alarm(signum, frame):
        raise _Timeout()

    old = signal.signal(signal.SIGALRM, on_alarm)
    signal.setitimer(signal.ITIMER_REAL, seconds)
    try:
        if which == "d":
            f = tmp / "pattern.mlir"
            f.write_text(text)
            ApplyPDLPass(pdl_file=str(f)).apply(ctx, module)
        else:
            m = Parser(ctx, text).parse_module()
            m.verify()
            ConvertPDLToPDLInterpPass().apply(ctx, m)
            m.verify()
            out = io.StringIO()
            Printer(out).print_op(m)
            f = tmp / "interp.mlir"
            f.write_text(out.getvalue())
            ApplyPDLInterpPass(pdl_interp_file=str(f)).apply(ctx, module)
    except _Timeout:
        return [4]
    except BaseException as e:  # noqa: BLE001
        return [2, exc_code(e)]
    finally:
        signal.setitimer(signal.ITIMER_REAL, 0)
        signal.signal(signal.SIGALRM, old)
    return [1, dump_payload(module, V)]


# ---------------------------------------------------------------------------------------------
# which of the proposed repairs are present in /repo (the model is instantiated accordingly)

W_FALSY = {"p": {"tvars": [None], "avars": [0], "ovars": [],
                 "root": {"id": 0, "name": 0, "attrs": [[0, 0]], "operands": [], "rtys": [0]},
                 "rw": [["type", 0, 1], ["op", 1, 1, [], [], [["l", 0]]], ["replace_op", 1]]},
           "pl": {"args": [], "ops": [{"name": 0, "operands": [], "attrs": [[0, 1]], "props": [], "rtys": [0]}]}}
W_RESINDEX = {"p": {"tvars": [None], "avars": [], "ovars": [],
                    "root": {"id": 1, "name": 1, "attrs": [], "rtys": [],
                             "operands": [["res", 0, 1, {"id": 0, "name": 0, "attrs": [], "operands": [], "rtys": [0, 0]}]]},
                    "rw": [["op", 0, 2, [["mr", 0]], [], []], ["replace_op", 0]]},
              "pl": {"args": [], "ops": [{"name": 0, "operands": [], "attrs": [], "props": [], "rtys": [0, 0]},
                                         {"name": 1, "operands": [["r", 0, 0]], "attrs": [], "props": [], "rtys": []}]}}
W_REUSE = {"p": {"tvars": [None, None], "avars": [], "ovars": [],
                 "root": {"id": 1, "name": 1, "attrs": [], "rtys": [1],
                          "operands": [["res", 0, 0, {"id": 0, "name": 0, "attrs": [], "operands": [], "rtys": [0]}], ["reuse", 0]]},
                 "rw": [["replace_vals", [["mr", 0]]]]},
           "pl": {"args": [], "ops": [{"name": 0, "operands": [], "attrs": [], "props": [], "rtys": [0]},
                                      {"name": 0, "operands": [], "attrs": [], "props": [], "rtys": [0]},
                                      {"name": 1, "operands": [["r", 0, 0], ["r", 1, 0]], "attrs": [], "props": [], "rtys": [0]}]}}
W_ERASE = {"p": {"tvars": [], "avars": [1], "ovars": [],
                 "root": {"id": 0, "name": 0, "attrs": [[0, 0]], "operands": [], "rtys": []}, "rw": [["erase"]]},
           "pl": {"args": [], "ops": [{"name": 0, "operands": [], "attrs": [[0, 1]], "props": [], "rtys": []},
                                      {"name": 0, "operands": [], "attrs": [[0, 2]], "props": [], "rtys": []}]}}
W_RANGE = {"p": {"tvars": [], "avars": [0, ], "ovars": [],
                 "root": {"id": 0, "name": 0, "attrs": [[0, 0]], "operands": [], "rtys": []},
                 "rw": [["attr", 0, 1], ["op", 1, 0, [], [[0, ["l", 0]]], []], ["replace_op", 1]]},
           "pl": {"args": [], "ops": [{"name": 0, "operands": [], "attrs": [[0, 0]], "props": [], "rtys": []}]}}
W_ATTRORDER = {"p": {"tvars": [None], "avars": [1], "ovars": [],
                     "root": {"id": 0, "name": 0, "attrs": [[2, 0]], "operands": [], "rtys": [0]},
                     "rw": [["type", 0, 1], ["op", 1, 1, [], [], [["l", 0]]], ["replace_op", 1]]},
               "pl": {"args": [], "ops": [{"name": 0, "operands": [], "attrs": [[2, 2]], "props": [[2, 1]], "rtys": [0]}]}}
W_INFER = {"p": {"tvars": [None], "avars": [], "ovars": [],
                 "root": {"id": 0, "name": 0, "attrs": [], "operands": [], "rtys": [0]},
                 "rw": [["op", 0, 1, [], [], []], ["replace_op", 0]]},
           "pl": {"args": [], "ops": [{"name": 0, "operands": [], "attrs": [], "props": [], "rtys": [1]}]}}
W_NAME = {"p": {"tvars": [None], "avars": [], "ovars": [0], "name": "matcher",
                "root": {"id": 0, "name": 0, "attrs": [], "operands": [["free", 0]], "rtys": [0]},
                "rw": [["replace_vals", [["mo", 0]]]]},
          "pl": {"args": [0], "ops": [{"name": 0, "operands": [["a", 0]], "attrs": [], "props": [], "rtys": [0]},
                                      {"name": 3, "operands": [["r", 0, 0]], "attrs": [], "props": [], "rtys": []}]}}
WITNESSES = {"C27-kf-1": W_FALSY, "C27-kf-2": W_RESINDEX, "C27-kf-3": W_REUSE, "C27-kf-4": W_ERASE,
             "C27-kf-5": W_RANGE, "C27-kf-6": W_ATTRORDER, "C27-kf-7": W_NAME}


def probe_fixes():
    V = vocab({})
    fx = {}
    d = dump_conversion(pattern_text(W_FALSY["p"], V), V)
    fx["falsy"] = d[0] == 0 and any(i[0] == 15 for i in d[1])
    r = impl_apply(W_RESINDEX)
    fx["resindex"] = r[1][0] == [0]
    d = dump_conversion(pattern_text(W_REUSE["p"], V), V)
    fx["reuse"] = d[0] == 0 and sum(1 for i in d[1] if i[0] == 14) >= 2
    fx["erase"] = impl_apply(W_ERASE)[0][1][0] == 1
    fx["range"] = impl_apply(W_RANGE)[0][1][0] == 1
    fx["attrorder"] = impl_apply(W_ATTRORDER)[0][1][0] == 1
    # direct half of C27-5: a typeless replacement of a root WITH a result is built with the root's result types
    fx["infer"] = impl_apply(W_INFER)[0][0][0] == 1
    return fx


NAME_OK = True      # a pattern whose symbol name is `matcher` works in the converted path (C27-kf-7 repaired)


def probe_name():
    return impl_apply(W_NAME)[0][1][0] == 1


def _named_matcher(p):
    return p.get("name") == "matcher"


# ---------------------------------------------------------------------------------------------

def impl(case):
    return impl_convert(case) if case["k"] == "convert" else impl_apply(case)


def coq_expr(case):
    return coq_convert(case) if case["k"] == "convert" else coq_apply(case)


def holds(case, res):
    return holds_convert(case, res) if case["k"] == "convert" else holds_apply(case, res)


def known(case, res):
    return None if case["k"] == "convert" else known_apply(case, res)


def nontrivial(case, res):
    return nontrivial_convert(case, res) if case["k"] == "convert" else nontrivial_apply(case, res)


def run(ctx: Ctx):
    global FX, ACTIVE
    thorough = ctx.tier == "thorough"
    rng = ctx.rng
    ACTIVE = ctx.active_known_ids()
    global NAME_OK
    FX = probe_fixes()
    NAME_OK = probe_name()
    ctx.coverage["repairs_present_in_repo"] = dict(FX, pattern_named_matcher=NAME_OK)
    replay_findings(ctx, "apply", lambda c: impl_apply(c), holds_apply)

    cases = []
    stats = {"patterns": 0, "malformed_rewrites": 0}
    n_apply, n_conv = (1500, 1200) if thorough else (140, 120)
    # the recorded witnesses are ordinary cases as well (model vs code on them)
    for w in WITNESSES.values():
        cases.append({"k": "apply", "p": w["p"], "pl": w["pl"]})
        cases.append({"k": "convert", "p": w["p"]})
    for _ in range(n_apply):
        p = gen_pattern(rng, maxdepth=rng.choice([1, 2, 2, 3]))
        stats["patterns"] += 1
        if rng.random() < 0.1:
            p["rw"] = gen_malformed_rewrite(rng, p)
            stats["malformed_rewrites"] += 1
        cases.append({"k": "apply", "p": p, "pl": gen_payload(rng, p)})
        if rng.random() < 0.5:
            cases.append({"k": "apply", "p": p, "pl": gen_payload(rng, p)})
    # one pdl.attribute / pdl.type value shared by two operations, payload broken at exactly one of the positions
    for _ in range(400 if thorough else 45):
        p, pl = gen_shared_case(rng)
        stats["shared_value_cases"] = stats.get("shared_value_cases", 0) + 1
        cases.append({"k": "apply", "p": p, "pl": pl})
    for _ in range(n_conv):
        p = gen_pattern(rng, maxdepth=rng.choice([1, 2, 3, 3]))
        if rng.random() < 0.15:
            p["rw"] = gen_malformed_rewrite(rng, p)
        cases.append({"k": "convert", "p": p})

    # corpus
    skipped: dict = {}
    ncorp = unrepresentable = 0
    for f, text in corpus_patterns():
        c, why = pdl_to_case(text)
        if c is None:
            skipped[why] = skipped.get(why, 0) + 1
            continue
        ncorp += 1
        cases.append({"k": "convert", "p": c["p"], "vocab": c["vocab"], "file": f})
        for _ in range(6 if thorough else 2):
            pl = gen_payload(rng, c["p"])
            # operations with default-valued properties (arith.addi overflowFlags ...) are built with more than the
            # case says: such payloads are not representable in the case format and are left out
            Vc = vocab(c)
            want = [[o["name"], [[0, v[1]] if v[0] == "a" else [1, v[1], v[2]] for v in o["operands"]],
                     sorted(o["attrs"]), sorted(o["props"]), o["rtys"]] for o in pl["ops"]]
            if dump_payload(build_payload(pl, Vc)[0], Vc) != want:
                unrepresentable += 1
                continue
            cases.append({"k": "apply", "p": c["p"], "vocab": c["vocab"], "pl": pl, "file": f})
    ctx.coverage["corpus"] = {"patterns_in_modelled_language": ncorp, "payloads_dropped_default_properties": unrepresentable,
                              "patterns_outside (not run: constructs outside the property's list or not implemented by interpreters/pdl.py)": skipped}

    # the model knows no pattern names (they are irrelevant to both paths once C27-kf-7 is repaired): while the
    # converted path mistakes the rewriter of a pattern named `matcher` for the entry point, that one name is
    # kept out of the model-compared family (the oracle-only pass families below keep it, as a listed finding)
    if not NAME_OK:
        for c in cases:
            if c["p"].get("name") == "matcher" and c["p"] not in [w["p"] for w in WITNESSES.values()]:
                c["p"]["name"] = "matcher_"
        cases = [c for c in cases if c["p"].get("name") != "matcher"]
    fam = differential(ctx, DiffSpec("convert+apply(generated,corpus)", REQ, cases, impl, coq_expr, holds, known, nontrivial,
                                     shard=120))
    conv_cases = [c for c in cases if c["k"] == "convert"]
    stats["patterns_in_full_equality_fragment (C27_rewrite_equiv)"] = sum(1 for c in conv_cases if in_full_fragment(c["p"]))
    stats["patterns_checked_for_static_hypotheses"] = len(conv_cases)
    # static part of Proofs.match_side_conditions (computed here only, for the record): no re-used pdl.result value,
    # every pdl.result index within the declared result types
    stats["patterns_meeting_the_static_match_conditions"] = sum(
        1 for c in conv_cases
        if not pattern_edges(c["p"], "reuse") and all(0 <= x[2] < len(x[3]["rtys"]) for x in pattern_edges(c["p"], "res")))
    ctx.coverage["generation"] = stats

    # TEST (not a theorem) of the rewrite-equivalence statement on the model with every proposed repair present:
    # direct and converted application agree at every operation of every generated / corpus case
    sample = [c for c in cases if c["k"] == "apply"]
    if not thorough:
        sample = sample[:50]
    allfx = {n: True for n in FIX_NAMES}
    try:
        res = ctx.coq_eval(REQ, [f"c27_apply {coq_fixes(allfx)} {coq_pattern(c['p'])} {coq_payload(c['pl'])}" for c in sample], shard=120)
        bad = [(c, r) for c, r in zip(sample, res) if any(d != cc for d, cc in r)]
        applied = sum(1 for r in res if any(d[0] == 1 for d, _ in r))
        ctx.coverage["repaired_model_test"] = {
            "what": ("TEST, model only, all repair flags true: pdl_apply = interp_apply(compile) at every payload operation; "
                     "C27_rewrite_equiv_partial / C27_no_match_equiv prove this when the direct application rewrites or does "
                     "not match; the test additionally covers the cases the theorems leave out (direct application raises, "
                     "re-used pdl.result values, replace-with-operation for a root without result types)"),
            "cases": len(sample), "cases_with_a_rewrite": applied, "disagreements": len(bad),
            "first_disagreement": to_jsonable(bad[0]) if bad else None}
    except ModelUnavailable as e:
        ctx.coverage["repaired_model_test"] = {"model_error": str(e)[-400:]}

    # pass level (oracle only): both real paths to a fixpoint
    t_pass = {"cases": 0, "equal": 0, "both_raise": 0, "both_no_fixpoint": 0, "known": {}, "failures": 0}
    for _ in range(400 if thorough else 50):
        p = gen_pattern(rng, maxdepth=2)
        # any-name roots without operands and results would match func.func / builtin.module themselves
        V = vocab({})
        pl = gen_payload(rng, p)
        text = pattern_text(p, V)
        d, c = _red(run_pass(text, "d", pl, V)), _red(run_pass(text, "c", pl, V))
        t_pass["cases"] += 1
        ctx.evaluations += 1
        if d == c:
            t_pass["equal" if d[0] == 1 else "both_raise" if d[0] == 2 else "both_no_fixpoint"] += 1
            if d[0] == 1:
                ctx.nontrivial.add(("pass", json.dumps(p, sort_keys=True)))
            continue
        # classify through the single-step outcomes of the same case
        res = impl_apply({"p": p, "pl": pl})
        kid = known_apply({"p": p, "pl": pl}, res) if not holds_apply({"p": p, "pl": pl}, res)[0] else None
        if kid is None and _named_matcher(p) and c[0] == 2 and d[0] != 2:
            kid = "C27-kf-7"
        if kid is None and (_compiles_to_erase(p) or _typeless_replacement(p)) and c[0] == 2:
            kid = "C27-kf-4" if _compiles_to_erase(p) else "C27-kf-5"
        if kid is None and d[0] == 4 or c[0] == 4:
            # one path loops where the other stops: only through a listed matching difference
            for cand, pred in (("C27-kf-1", _has_falsy_constraint(p)), ("C27-kf-2", _multi_result_edge(p)), ("C27-kf-3", _has_reuse(p))):
                if kid is None and pred:
                    kid = cand
        if kid is not None and kid in ACTIVE:
            t_pass["known"][kid] = t_pass["known"].get(kid, 0) + 1
        else:
            t_pass["failures"] += 1
            ctx.violation({"family": "pass", "pattern": text, "payload": pl, "direct": d, "converted": c,
                           "oracle": "apply-pdl and convert-pdl-to-pdl-interp + apply-pdl-interp give different IR / outcome"})
    ctx.coverage.setdefault("families", {})["pass(PatternRewriteWalker to fixpoint, oracle only)"] = t_pass

    # the real passes end to end with the patterns in a separate file (ApplyPDLPass / ApplyPDLInterpPass.apply:
    # their own entry-point lookup and set-up), adversarial pattern symbol names included; oracle only
    t_real = {"cases": 0, "equal": 0, "both_raise": 0, "skipped_no_fixpoint": 0, "failures": 0, "names": {}}
    tmp = ctx.tmpdir()
    # apply-pdl wraps its patterns in GreedyRewritePatternApplier, which also erases trivially dead operations;
    # apply-pdl-interp does not.  That is a difference of the pass drivers, not of the pattern: the payloads of this
    # family use only operations that are never trivially dead (test.op, test.op_with_memwrite)
    vreal = dict(DEFAULT_V, ops=["test.op", "test.op_with_memwrite", "test.op", "test.op_with_memwrite"])
    V = vocab({"vocab": vreal})
    t_real["known"] = {}
    for i in range(300 if thorough else 45):
        if i % 3 == 0:
            p, pl = gen_shared_case(rng)
        else:
            p = gen_pattern(rng, maxdepth=2)
            pl = gen_payload(rng, p)
        p["name"] = rng.choice(PATTERN_NAMES + [None, None])
        if p["name"] is None:
            del p["name"]
        r = p["root"]
        if r["name"] is None and not r["operands"] and not r["rtys"]:
            continue        # would match func.func / func.return / builtin.module themselves
        text = pattern_text(p, V)
        # only patterns for which both (guarded) walkers stop
        gd, gc = _red(run_pass(text, "d", pl, V)), _red(run_pass(text, "c", pl, V))
        if gd[0] == 4 or gc[0] == 4:
            t_real["skipped_no_fixpoint"] += 1
            continue
        d, c = _red(run_real_pass(text, "d", pl, V, tmp)), _red(run_real_pass(text, "c", pl, V, tmp))
        t_real["cases"] += 1
        ctx.evaluations += 1
        nm = p.get("name") or "<unnamed>"
        t_real["names"][nm] = t_real["names"].get(nm, 0) + 1
        if d == c and d == gd and c == gc:
            t_real["equal" if d[0] == 1 else "both_raise"] += 1
            if d[0] == 1 and d[1] != dump_payload(build_payload(pl, V)[0], V):
                ctx.nontrivial.add(("real-pass", json.dumps(p, sort_keys=True)))
            continue
        if _named_matcher(p) and "C27-kf-7" in ACTIVE and c[0] == 2 and gc[0] == 2 and d == gd and d[0] == 1:
            t_real["known"]["C27-kf-7"] = t_real["known"].get("C27-kf-7", 0) + 1
            continue
        t_real["failures"] += 1
        ctx.violation({"family": "real-pass", "pattern": text, "payload": pl, "apply-pdl": d,
                       "convert-pdl-to-pdl-interp + apply-pdl-interp": c, "walker on the prepared patterns": [gd, gc],
                       "oracle": "the real passes (patterns in a separate file) give different IR / outcome"})
    ctx.coverage["families"]["real-pass(ApplyPDLPass / ConvertPDLToPDLInterpPass + ApplyPDLInterpPass, oracle only)"] = t_real
    ctx.coverage["rule"] = __doc__.split("\n\n", 1)[0][:200] + " ... " + __doc__[__doc__.index("Families:"):][:1400]
