"""C26 -- Affine expression algebra preserves values.

Tie: hand-written Coq model (coq/C26/Model.v) of xdsl/ir/affine/affine_expr.py (eval, smart
constructors, _try_fold_constant, replace_dims_and_symbols, compose, from_flat_form, the
SimpleAffineExprFlattener behind `simplify`), AffineMap.{replace_dims_and_symbols,compose} and the
expression part of AffineParser (token level) vs the real classes.  Every case is a *construction
program* (which API calls build the expression: operators, AffineExpr.binary, raw
AffineBinaryOpExpr, negation, subtraction, int operands on either side) executed on both sides; the
resulting tree is compared EXACTLY (nested ints), raised exceptions by kind.  Families: build, eval
(points incl. too-short assignments and zero divisors), replace, compose (expr/map and map/map),
simplify, print->lex->parse (tokens of str(e) compared with the model's token printer, then the real
AffineParser on str(AffineMap)), parse of random token streams (unparenthesised, malformed).
Oracle (independent of the model and of the repo's eval): a reference evaluator of the construction
program / substitution / composition semantics vs a tree evaluator written here, on every point of
a small box; points at which some modulo/division has a non-positive divisor are outside the
property text and skipped.  Non-trivial: the result is a tree and differs from the naive raw tree of
the program (a simplification arm fired), or the family-specific branch tag; distinct = distinct case.
"""
from __future__ import annotations

import itertools
import re

import time

from harness import common
from harness.common import (Ctx, DiffSpec, ModelUnavailable, coq_list, coq_nat, coq_Z, eval_cases, exc_code,
                            replay_findings)

META = {
    "id": "C26",
    "title": "Affine expression algebra preserves values",
    "design_ref": "DESIGN.md section 8.C26",
    "technique": "Coq proofs (structural induction over all expression trees, flattener stack invariant, fuelled precedence-climbing parser) + exact tree-shape model-vs-code correspondence",
    "level_text": (
        "Theorems in coq/Props/C26.v, for EVERY expression tree and EVERY assignment (no bound): each smart constructor "
        "(+, *, floordiv, ceildiv, mod, unary minus, -, AffineExpr.binary) that does not raise evaluates to the operation "
        "applied to the operands' values, exceptions of evaluation included; replace_dims_and_symbols satisfies the "
        "substitution lemma; AffineExpr.compose and AffineMap.compose evaluate to the composition; "
        "simplify (SimpleAffineExprFlattener: stack invariant, gcd cancellation, local-id reuse) preserves the value whenever it returns, "
        "and it does return on every pure affine expression with in-range positions, constants on the right of products and positive constant divisors; "
        "the arithmetic arms of eval/_try_fold_constant are re-translated from the source on every run and proved equal to the model's; "
        "parsing the printed token sequence of any expression yields a tree with the same value and leaves the following "
        "tokens untouched. The model is tied to the code by running generated construction programs through the real API "
        "and the model and comparing the resulting trees exactly."),
    "level_note": (
        "Trusted: Coq kernel; hand-written model (add/mul recursion restructured as add_const/mul_const by structural "
        "recursion, annotated with source lines); MLIR lexer (printing is modelled at token level: the model's token "
        "sequence is compared with the real lexer's output on str(e)); correspondence harness. Not covered: negative "
        "dimension/symbol positions (Python indexes from the end), AffineMap helpers other than replace/compose/eval, "
        "AffineSet/constraint parsing, parse_affine_map_of_ssa_ids. `int - expr` (__rsub__) is not among the "
        "operations the property lists; its behaviour is reported under coverage.notes."),
}
COQ_TARGETS = ["C26/Enc.vo", "Gen/C26_Arith.vo", "C26/ProofsGen.vo", "C26/ProofsAlg.vo", "C26/ProofsSimplify.vo",
               "C26/ProofsSimplifyTotal.vo", "C26/ProofsParse.vo", "Props/C26.vo"]
REQ = ["C26.Model", "C26.Enc"]
ASSUMPTIONS = ["dimension and symbol positions are non-negative",
               "an assignment supplies a value for every dimension and symbol the expression mentions (otherwise eval raises IndexError, which the theorems also track)"]
TRUSTED = ["MLIR lexer (xdsl/utils/mlir_lexer.py) maps str(e) to the token sequence of the model's str_toks (checked on every print/parse case)"]

_SPECS: list[DiffSpec] = []


def DSpec(*a, **kw):
    return DiffSpec(*a, **kw)


def differential(ctx: Ctx, spec: DiffSpec):
    """queue a family; all families are evaluated by ONE parallel coqc round in run_specs
    (same comparison and reporting as common.differential, which runs one round per family)"""
    _SPECS.append(spec)
    return ctx.coverage.setdefault("pending", {}).setdefault(spec.name, {})


def run_specs(ctx: Ctx):
    specs = list(_SPECS)
    _SPECS.clear()
    ctx.coverage.pop("pending", None)
    t = time.time()
    evs = [eval_cases(sp.cases, sp.impl, sp.holds, sp.known, sp.nontrivial) for sp in specs]
    exprs = [sp.coq_expr(c) for sp in specs for c in sp.cases]
    model_err, model = None, None
    try:
        model = ctx.coq_eval(REQ, exprs, shard=500)   # start-up of coqc dominates: few large shards
    except ModelUnavailable as e:
        model_err = str(e)
    off = 0
    fams = {}
    for sp, ev in zip(specs, evs):
        ctx.evaluations += len(sp.cases)
        fails, diverge, known_hits = [], [], {}
        for i, (c, (r, ok, why, kid, nt)) in enumerate(zip(sp.cases, ev)):
            if nt is not None:
                ctx.nontrivial.add((sp.name, nt))
            if not ok:
                if kid:
                    known_hits[kid] = known_hits.get(kid, 0) + 1
                else:
                    fails.append((c, r, why))
            if model is not None and model[off + i] != r:
                diverge.append((c, r, model[off + i]))
        ctx.sample({"family": sp.name, "case": sp.cases[0], "impl": ev[0][0]}, limit=8)
        off += len(sp.cases)
        fams[sp.name] = common._report(ctx, sp.name, len(sp.cases), fails, diverge, known_hits, model_err, False, t)
    return fams


KINDS = ["Add", "Mul", "Mod", "FloorDiv", "CeilDiv"]
ZERODIV = 21


def generate(ctx: Ctx):
    """translator step (DESIGN 4.1): the arithmetic arms of eval/_try_fold_constant -> coq/Gen/C26_Arith.v"""
    from harness.translate import c26_arith
    c26_arith.generate()
    ctx.coverage["translator"] = "harness/translate/c26_arith.py: AffineExpr.eval arms and _try_fold_constant arms -> Gen/C26_Arith.v; C26_arms_from_source proves them equal to the model's"


def ecode(e: BaseException) -> int:
    return ZERODIV if isinstance(e, ZeroDivisionError) else exc_code(e)


# ---------------------------------------------------------------------------- real API
def enc_tree(e):
    from xdsl.ir.affine.affine_expr import AffineBinaryOpExpr, AffineConstantExpr, AffineDimExpr, AffineSymExpr
    if isinstance(e, AffineDimExpr):
        return [0, e.position]
    if isinstance(e, AffineSymExpr):
        return [1, e.position]
    if isinstance(e, AffineConstantExpr):
        return [2, e.value]
    assert isinstance(e, AffineBinaryOpExpr), e
    return [3, e.kind.value - 1, enc_tree(e.lhs), enc_tree(e.rhs)]


def _op(k, a, b):
    if k == 0:
        return a + b
    if k == 1:
        return a * b
    if k == 2:
        return a % b
    if k == 3:
        return a // b
    return a.ceil_div(b)


def build(p):
    """run a construction program on the real API"""
    from xdsl.ir.affine.affine_expr import AffineBinaryOpExpr, AffineBinaryOpKind, AffineExpr
    t = p[0]
    if t == "d":
        return AffineExpr.dimension(p[1])
    if t == "s":
        return AffineExpr.symbol(p[1])
    if t == "c":
        return AffineExpr.constant(p[1])
    if t == "raw":
        l = build(p[2]); r = build(p[3])
        return AffineBinaryOpExpr(AffineBinaryOpKind(p[1] + 1), l, r)
    if t == "op":
        l = build(p[2]); r = build(p[3])
        return _op(p[1], l, r)
    if t == "bin":
        l = build(p[2]); r = build(p[3])
        return AffineExpr.binary(AffineBinaryOpKind(p[1] + 1), l, r)
    if t == "opi":            # expr <op> int
        return _op(p[1], build(p[2]), p[3])
    if t == "rint":           # int + expr, int * expr
        r = build(p[3])
        return (p[2] + r) if p[1] == 0 else (p[2] * r)
    if t == "neg":
        return -build(p[1])
    if t == "sub":
        l = build(p[1]); r = build(p[2])
        return l - r
    if t == "subi":
        return build(p[1]) - p[2]
    raise AssertionError(p)


def guarded(f):
    try:
        return [0, f()]
    except BaseException as e:  # noqa: BLE001  (the code under test raises deliberately)
        if isinstance(e, (KeyboardInterrupt, SystemExit, MemoryError)):
            raise
        return [-1, ecode(e)]


# ---------------------------------------------------------------------------- Coq literals
def coq_prog(p) -> str:
    t = p[0]
    if t == "d":
        return f"(PDim {coq_nat(p[1])})"
    if t == "s":
        return f"(PSym {coq_nat(p[1])})"
    if t == "c":
        return f"(PConst {coq_Z(p[1])})"
    if t == "raw":
        return f"(PRaw {KINDS[p[1]]} {coq_prog(p[2])} {coq_prog(p[3])})"
    if t in ("op", "bin"):
        return f"(POp {KINDS[p[1]]} {coq_prog(p[2])} {coq_prog(p[3])})"
    if t == "opi":
        return f"(POp {KINDS[p[1]]} {coq_prog(p[2])} (PConst {coq_Z(p[3])}))"
    if t == "rint":           # __radd__/__rmul__: r.__add__(n) / r.__mul__(n)
        return f"(POp {KINDS[p[1]]} {coq_prog(p[3])} (PConst {coq_Z(p[2])}))"
    if t == "neg":
        return f"(PNeg {coq_prog(p[1])})"
    if t == "sub":
        return f"(PSub {coq_prog(p[1])} {coq_prog(p[2])})"
    if t == "subi":
        return f"(PSub {coq_prog(p[1])} (PConst {coq_Z(p[2])}))"
    raise AssertionError(p)


def coq_progs(ps) -> str:
    return coq_list(coq_prog(p) for p in ps)


# ---------------------------------------------------------------------------- independent reference semantics
class OutOfScope(Exception):
    """the point is outside the property text (non-positive divisor) or outside the assignment"""


def arith(k, a, b):
    if k == 0:
        return a + b
    if k == 1:
        return a * b
    if b <= 0:
        raise OutOfScope
    q, r = divmod(a, b)           # floor quotient / non-negative remainder for b > 0
    if k == 2:
        return r
    if k == 3:
        return q
    return q + (1 if r else 0)    # ceiling


def psem(p, dims, syms):
    """value a construction program denotes (mathematical meaning of the operators)"""
    t = p[0]
    if t == "d":
        if p[1] >= len(dims):
            raise OutOfScope
        return dims[p[1]]
    if t == "s":
        if p[1] >= len(syms):
            raise OutOfScope
        return syms[p[1]]
    if t == "c":
        return p[1]
    if t in ("raw", "op", "bin"):
        return arith(p[1], psem(p[2], dims, syms), psem(p[3], dims, syms))
    if t == "opi":
        return arith(p[1], psem(p[2], dims, syms), p[3])
    if t == "rint":
        return arith(p[1], p[2], psem(p[3], dims, syms))
    if t == "neg":
        return -psem(p[1], dims, syms)
    if t == "sub":
        return psem(p[1], dims, syms) - psem(p[2], dims, syms)
    if t == "subi":
        return psem(p[1], dims, syms) - p[2]
    raise AssertionError(p)


class TreeUndefined(Exception):
    pass


def teval(t, dims, syms):
    """independent evaluator of an encoded result tree"""
    if t[0] == 0:
        if not 0 <= t[1] < len(dims):
            raise TreeUndefined("dimension out of range")
        return dims[t[1]]
    if t[0] == 1:
        if not 0 <= t[1] < len(syms):
            raise TreeUndefined("symbol out of range")
        return syms[t[1]]
    if t[0] == 2:
        return t[1]
    a = teval(t[2], dims, syms)
    b = teval(t[3], dims, syms)
    k = t[1]
    if k == 0:
        return a + b
    if k == 1:
        return a * b
    if b == 0:
        raise TreeUndefined("division by zero")
    q, r = divmod(a, b)
    if k == 2:
        return r
    if k == 3:
        return q
    return q + (1 if r else 0)


BOX_VALUES = {0: [0], 1: [-5, -2, -1, 0, 1, 3, 8], 2: [-5, -2, -1, 0, 1, 3, 8], 3: [-3, -1, 0, 2, 7],
              4: [-3, 0, 1, 5], 5: [-2, 0, 3]}


def box(nd, ns):
    vals = BOX_VALUES[min(5, nd + ns)]
    for pt in itertools.product(vals, repeat=nd + ns):
        yield list(pt[:nd]), list(pt[nd:])


def compare_on_box(ref, tree, nd, ns, what):
    """ref(dims, syms) -> int (may raise OutOfScope); tree: encoded result"""
    checked = 0
    for dims, syms in box(nd, ns):
        try:
            exp = ref(dims, syms)
        except OutOfScope:
            continue
        checked += 1
        try:
            got = teval(tree, dims, syms)
        except TreeUndefined as e:
            return False, f"{what}: result tree cannot be evaluated at dims={dims} syms={syms} ({e}); expected {exp}"
        if got != exp:
            return False, f"{what}: at dims={dims} syms={syms} the result evaluates to {got}, expected {exp}"
    return True, f"{checked} points"


def raw_tree(p):
    """the tree a program would give without any simplification (None if not expressible)"""
    t = p[0]
    if t == "d":
        return [0, p[1]]
    if t == "s":
        return [1, p[1]]
    if t == "c":
        return [2, p[1]]
    if t in ("raw", "op", "bin"):
        a, b = raw_tree(p[2]), raw_tree(p[3])
        return None if a is None or b is None else [3, p[1], a, b]
    if t == "opi":
        a = raw_tree(p[2])
        return None if a is None else [3, p[1], a, [2, p[3]]]
    if t == "rint":
        b = raw_tree(p[3])
        return None if b is None else [3, p[1], [2, p[2]], b]
    return None


def has_smart(p):
    return p[0] not in ("d", "s", "c") and (p[0] != "raw" or has_smart(p[2]) or has_smart(p[3]))


# ---------------------------------------------------------------------------- generators
CONSTS = [-7, -4, -3, -2, -1, 0, 0, 1, 1, 2, 2, 3, 4, 5, 6, 8, 12]
POS = [1, 2, 2, 3, 4, 4, 5, 6, 8, 12]


def gen_leaf(rng, nd, ns, pconst=0.3):
    r = rng.random()
    if r < pconst or nd + ns == 0:
        return ["c", rng.choice(CONSTS)]
    if ns and (r < pconst + 0.2 or nd == 0):
        return ["s", rng.randrange(ns)]
    return ["d", rng.randrange(nd)]


def gen_prog(rng, nd, ns, depth, wild=0.08, raw=0.1):
    """mostly valid programs; `wild` = probability of an argument shape that raises or is out of scope"""
    if depth <= 0 or rng.random() < 0.18:
        return gen_leaf(rng, nd, ns)
    sub = lambda d=depth - 1: gen_prog(rng, nd, ns, d, wild, raw)  # noqa: E731
    r = rng.random()
    if r < 0.05:
        return ["neg", sub()]
    if r < 0.12:
        return ["sub", sub(), sub()] if rng.random() < 0.7 else ["subi", sub(), rng.choice(CONSTS)]
    k = rng.choices([0, 1, 2, 3, 4], [5, 4, 2, 2, 2])[0]
    form = "raw" if rng.random() < raw else rng.choices(["op", "bin", "opi", "rint"], [5, 2, 3, 1])[0]
    if k == 0:
        if form == "opi":
            return ["opi", 0, sub(), rng.choice(CONSTS)]
        if form == "rint":
            return ["rint", 0, rng.choice(CONSTS), sub()]
        return [form, 0, sub(), sub()]
    if k == 1:
        c = rng.choice(CONSTS)
        if rng.random() < wild:
            return [form if form in ("op", "bin", "raw") else "op", 1, sub(), sub()]
        if form == "opi":
            return ["opi", 1, sub(), c]
        if form == "rint":
            return ["rint", 1, c, sub()]
        return [form, 1, sub(), ["c", c]] if rng.random() < 0.7 else [form, 1, ["c", c], sub()]
    # mod / floordiv / ceildiv
    if form == "rint":
        form = "op"
    w = rng.random()
    if w < wild:
        c = rng.choice([0, 0, -1, -2, -5])
    else:
        c = rng.choice(POS)
    if w < wild / 2:
        return [form if form != "opi" else "op", k, sub(), sub()]
    if form == "opi":
        return ["opi", k, sub(), c]
    return [form, k, sub(), ["c", c]]


def shape(rng):
    nd = rng.choice([0, 1, 1, 2, 2, 2, 3])
    ns = rng.choice([0, 0, 1, 1, 2])
    if nd + ns == 0:
        nd = 1
    return nd, ns


# ---------------------------------------------------------------------------- family: build
def build_impl(case):
    return guarded(lambda: enc_tree(build(case["p"])))


def build_coq(case):
    return f"c26_build {coq_prog(case['p'])}"


def build_holds(case, res):
    if res[0] != 0:
        return True, "raised"         # the property speaks about constructors that return
    return compare_on_box(lambda d, s: psem(case["p"], d, s), res[1], case["nd"], case["ns"], "construction")


def build_nontrivial(case, res):
    if res[0] == 0 and has_smart(case["p"]) and res[1] != raw_tree(case["p"]):
        return repr(case["p"])
    return None


# ---------------------------------------------------------------------------- family: eval
def eval_impl(case):
    try:
        e = build(case["p"])
    except BaseException:  # noqa: BLE001
        return []
    return [guarded(lambda pt=pt: e.eval(pt[0], pt[1])) for pt in case["pts"]]


def eval_coq(case):
    pts = coq_list(f"({coq_list(map(coq_Z, d))}, {coq_list(map(coq_Z, s))})" for d, s in case["pts"])
    return f"c26_eval {coq_prog(case['p'])} {pts}"


def eval_holds(case, res):
    """the repo's eval against the independent evaluator (cross-check of the two evaluators)"""
    if not res:
        return True, "construction raised"
    tree = enc_tree(build(case["p"]))      # the real tree, evaluated by the independent evaluator
    for (d, s), r in zip(case["pts"], res):
        try:
            exp = [0, teval(tree, d, s)]
        except TreeUndefined:
            exp = None
        if exp is None:
            if r[0] == 0:
                return False, f"eval returned {r[1]} at dims={d} syms={s} where the expression is undefined"
        elif r != exp:
            return False, f"eval gives {r} at dims={d} syms={s}, reference {exp}"
    return True, ""


# ---------------------------------------------------------------------------- family: replace
def replace_impl(case):
    def f():
        e = build(case["p"])
        nd = [build(q) for q in case["new_dims"]]
        ns = [build(q) for q in case["new_syms"]]
        return enc_tree(e.replace_dims_and_symbols(nd, ns))
    return guarded(f)


def replace_coq(case):
    return f"c26_replace {coq_prog(case['p'])} {coq_progs(case['new_dims'])} {coq_progs(case['new_syms'])}"


def replace_holds(case, res):
    if res[0] != 0:
        return True, "raised"

    def ref(d, s):
        d2 = [psem(q, d, s) for q in case["new_dims"]] + d[len(case["new_dims"]):]
        s2 = [psem(q, d, s) for q in case["new_syms"]] + s[len(case["new_syms"]):]
        return psem(case["p"], d2, s2)
    return compare_on_box(ref, res[1], case["nd"], case["ns"], "replace_dims_and_symbols")


def replace_nontrivial(case, res):
    return repr(case) if res[0] == 0 and (case["new_dims"] or case["new_syms"]) and case["p"][0] not in "dsc" else None


# ---------------------------------------------------------------------------- family: compose (expr with map, map with map)
def mk_map(nd, ns, progs):
    from xdsl.ir.affine import AffineMap
    return AffineMap(nd, ns, tuple(build(q) for q in progs))


def cexpr_impl(case):
    def f():
        e = build(case["p"])
        m = mk_map(case["nd"], case["ns"], case["results"])
        return enc_tree(e.compose(m))
    return guarded(f)


def cexpr_coq(case):
    return (f"c26_compose_expr {coq_prog(case['p'])} {coq_nat(case['nd'])} {coq_nat(case['ns'])} "
            f"{coq_progs(case['results'])}")


def cexpr_holds(case, res):
    if res[0] != 0:
        return True, "raised"

    def ref(d, s):
        d2 = [psem(q, d, s) for q in case["results"]] + d[len(case["results"]):]
        return psem(case["p"], d2, s)
    return compare_on_box(ref, res[1], case["nd"], case["ns"], "AffineExpr.compose")


def cmap_impl(case):
    def f():
        m1 = mk_map(*case["m1"])
        m2 = mk_map(*case["m2"])
        m = m1.compose(m2)
        return [m.num_dims, m.num_symbols, [enc_tree(r) for r in m.results]]
    return guarded(f)


def cmap_coq(case):
    a, b = case["m1"], case["m2"]
    return (f"c26_compose_map {coq_nat(a[0])} {coq_nat(a[1])} {coq_progs(a[2])} "
            f"{coq_nat(b[0])} {coq_nat(b[1])} {coq_progs(b[2])}")


def cmap_holds(case, res):
    if res[0] != 0:
        return True, "raised"
    (nd1, ns1, rs1), (nd2, ns2, rs2) = case["m1"], case["m2"]
    nd, ns, trees = res[1]
    if (nd, ns, len(trees)) != (nd2, ns1 + ns2, len(rs1)):
        return False, f"composed map has shape ({nd},{ns},{len(trees)}), expected ({nd2},{ns1 + ns2},{len(rs1)})"
    for i, (q, tree) in enumerate(zip(rs1, trees)):
        def ref(d, s, q=q):
            inner = [psem(r, d, s[ns1:]) for r in rs2]       # other sees its own symbols
            return psem(q, inner, s[:ns1])                  # self's symbols come first
        ok, why = compare_on_box(ref, tree, nd, ns, f"AffineMap.compose result {i}")
        if not ok:
            return ok, why
    return True, ""


# ---------------------------------------------------------------------------- family: simplify
def simp_impl(case):
    def f():
        e = build(case["p"])
        return enc_tree(e.simplify(case["nd"], case["ns"]))
    return guarded(f)


def simp_coq(case):
    return f"c26_simplify {coq_prog(case['p'])} {coq_nat(case['nd'])} {coq_nat(case['ns'])}"


def simp_holds(case, res):
    if res[0] != 0:
        return True, "raised"
    return compare_on_box(lambda d, s: psem(case["p"], d, s), res[1], case["nd"], case["ns"], "simplify")


def prog_kinds(p, acc):
    if p[0] in ("raw", "op", "bin", "opi", "rint"):
        acc.add(p[1])
    for q in p[1:]:
        if isinstance(q, list):
            prog_kinds(q, acc)
    return acc


def simp_nontrivial(case, res):
    if res[0] != 0:
        return None
    if prog_kinds(case["p"], set()) & {2, 3, 4}:
        return repr(case["p"])
    return None


# ---------------------------------------------------------------------------- family: print -> lex -> parse
def tok_codes(text, upto_eof=True):
    from xdsl.utils.lexer import Input
    from xdsl.utils.mlir_lexer import MLIRLexer, MLIRTokenKind as K
    lx = MLIRLexer(Input(text, "<c26>"))
    out, starts = [], []
    simple = {K.L_PAREN: 0, K.R_PAREN: 1, K.PLUS: 2, K.MINUS: 3, K.STAR: 4}
    while True:
        t = lx.lex()
        if t.kind == K.EOF:
            break
        starts.append(t.span.start)
        if t.kind in simple:
            out.append(simple[t.kind])
        elif t.kind == K.INTEGER_LIT:
            out.append([5, t.kind.get_int_value(t.span)])
        elif t.kind == K.BARE_IDENT:
            m = re.fullmatch(r"([ds])(0|[1-9]\d*)", t.text)
            if m:
                out.append([6 if m.group(1) == "d" else 7, int(m.group(2))])
            else:
                out.append({"mod": 8, "floordiv": 9, "ceildiv": 10}.get(t.text, 11))
        else:
            out.append(12)
    return out, starts


def pp_impl(case):
    from xdsl.context import Context
    from xdsl.ir.affine import AffineMap
    from xdsl.parser import Parser
    try:
        e = build(case["p"])
    except BaseException as ex:  # noqa: BLE001
        return [-1, ecode(ex)]
    toks, _ = tok_codes(str(e))

    def f():
        m = Parser(Context(), str(AffineMap(case["nd"], case["ns"], (e,)))).parse_affine_map()
        assert (m.num_dims, m.num_symbols, len(m.results)) == (case["nd"], case["ns"], 1)
        return [enc_tree(m.results[0]), 1]   # parse_affine_map returned: exactly the closing `)` followed
    return [toks, guarded(f)]


def pp_coq(case):
    return f"c26_print_parse {coq_prog(case['p'])} {coq_nat(case['nd'])} {coq_nat(case['ns'])}"


def pp_holds(case, res):
    if res[0] == -1 or res[1][0] != 0:
        return True, "raised"
    # reference: the printed expression itself, evaluated by the independent evaluator on the program
    return compare_on_box(lambda d, s: psem(case["p"], d, s), res[1][1][0], case["nd"], case["ns"], "print/parse")


def pp_nontrivial(case, res):
    return repr(case["p"]) if res[0] != -1 and res[1][0] == 0 and res[1][1][0][0] == 3 else None


# ---------------------------------------------------------------------------- family: token streams
TOK_TEXT = {0: "(", 1: ")", 2: "+", 3: "-", 4: "*", 8: "mod", 9: "floordiv", 10: "ceildiv", 11: "foo"}


def render(toks, rng_bits):
    parts = []
    for i, t in enumerate(toks):
        if isinstance(t, list):
            if t[0] == 5:
                parts.append(hex(t[1]) if (rng_bits >> (i % 30)) & 1 and t[1] > 9 else str(t[1]))
            else:
                parts.append(("d" if t[0] == 6 else "s") + str(t[1]))
        elif t == 12:
            parts.append([",", "->", "]", ":"][(rng_bits >> (i % 29)) & 3])
        else:
            parts.append(TOK_TEXT[t])
    return " ".join(parts)


def ps_impl(case):
    from xdsl.context import Context
    from xdsl.parser import Parser
    from xdsl.parser.affine_parser import AffineParser
    text = render(case["toks"], case["bits"])
    codes, starts = tok_codes(text)
    assert codes == case["toks"], (codes, case["toks"])

    def f():
        p = Parser(Context(), text)
        ap = AffineParser(p._parser_state)
        dims = [f"d{i}" for i in range(case["nd"])]
        syms = [f"s{i}" for i in range(case["ns"])]
        e = ap._parse_affine_expr(ap._get_parse_optional_bare_id(dims, syms))
        pos = ap._current_token.span.start
        rest = len([s for s in starts if s >= pos])
        return [enc_tree(e), rest]
    return guarded(f)


def coq_tok(t):
    if isinstance(t, list):
        return {5: lambda: f"TInt {coq_Z(t[1])}", 6: lambda: f"TId (IdDim {coq_nat(t[1])})",
                7: lambda: f"TId (IdSym {coq_nat(t[1])})"}[t[0]]()
    return {0: "TLParen", 1: "TRParen", 2: "TPlus", 3: "TMinus", 4: "TStar", 8: "TId IdMod", 9: "TId IdFloorDiv",
            10: "TId IdCeilDiv", 11: "TId IdOther", 12: "TOther"}[t]


def ps_coq(case):
    return f"c26_parse {coq_nat(case['nd'])} {coq_nat(case['ns'])} {coq_list(map(coq_tok, case['toks']))}"


def gen_infix(rng, nd, ns, depth):
    """token list of an (un)parenthesised infix expression"""
    if depth <= 0 or rng.random() < 0.25:
        r = rng.random()
        if r < 0.35:
            return [[5, rng.choice([0, 1, 2, 3, 4, 5, 7, 12, 31])]]
        if r < 0.45:
            return [3] + gen_infix(rng, nd, ns, 0)
        if ns and r < 0.6:
            return [[7, rng.randrange(ns + (rng.random() < 0.05))]]
        return [[6, rng.randrange(nd + (rng.random() < 0.05))]] if nd else [[5, 1]]
    r = rng.random()
    if r < 0.2:
        return [0] + gen_infix(rng, nd, ns, depth - 1) + [1]
    if r < 0.25:
        return [3] + gen_infix(rng, nd, ns, depth - 1)
    op = rng.choices([2, 3, 4, 8, 9, 10], [5, 4, 3, 2, 2, 2])[0]
    lhs = gen_infix(rng, nd, ns, depth - 1)
    if op in (8, 9, 10) and rng.random() < 0.85:
        rhs = [[5, rng.choice(POS)]]
    elif op == 4 and rng.random() < 0.8:
        rhs = [[5, rng.choice([0, 1, 2, 3, 5])]]
        if rng.random() < 0.3:
            lhs, rhs = rhs, lhs
    else:
        rhs = gen_infix(rng, nd, ns, depth - 1)
    return lhs + [op] + rhs


def mutate(rng, toks):
    toks = list(toks)
    for _ in range(rng.randint(1, 2)):
        r = rng.random()
        pos = rng.randrange(len(toks) + 1)
        if r < 0.4 and toks:
            del toks[min(pos, len(toks) - 1)]
        elif r < 0.8:
            toks.insert(pos, rng.choice([0, 1, 2, 3, 4, 8, 9, 10, 11, 12, [5, 2], [6, 0]]))
        elif toks:
            toks[min(pos, len(toks) - 1)] = rng.choice([0, 1, 2, 3, 4, 8, 11, 12])
    return toks


def ps_nontrivial(case, res):
    return repr(case["toks"]) if res[0] == 0 and sum(1 for t in case["toks"] if t in (2, 3, 4, 8, 9, 10)) >= 2 else None


# ---------------------------------------------------------------------------- __rsub__ note (not a listed operation)
def rsub_note(ctx):
    from xdsl.ir.affine import AffineExpr
    d0 = AffineExpr.dimension(0)
    e = 3 - d0
    v = e.eval([10], [])
    as_coded = enc_tree(e) == [3, 0, [0, 0], [2, -3]]
    note = {
        "what": "`int - expr` (AffineExpr.__rsub__) is not among the operations the property lists; observed behaviour recorded only",
        "witness": "3 - d0", "built": str(e), "value_at_d0=10": v, "mathematical_value": -7,
        "matches_model": "rsub_as_coded (C26_rsub_as_coded_refuted)" if as_coded else
                         ("rsub_fixed (C26_rsub_fixed_eval)" if v == -7 else "neither model"),
        "proposed_fix": "/verif/build/proposed_fixes/C26-rsub.diff",
    }
    ctx.coverage.setdefault("notes", []).append(note)


# ---------------------------------------------------------------------------- run
def run(ctx: Ctx):
    rng = ctx.rng
    thorough = ctx.tier == "thorough"
    scale = 4 if thorough else 1
    replay_findings(ctx, "build", build_impl, build_holds)

    # hand-picked boundary programs (always run)
    d0, d1, s0 = ["d", 0], ["d", 1], ["s", 0]
    fixed = [
        ["op", 0, ["op", 0, d0, ["c", 2]], ["c", 3]], ["op", 0, ["c", 2], ["op", 0, d0, ["c", -2]]],
        ["op", 1, ["op", 1, d0, ["c", 2]], ["c", 3]], ["op", 1, ["op", 0, d0, d1], ["c", 3]],
        ["op", 1, ["op", 0, ["op", 1, d0, ["c", 2]], ["c", 5]], ["c", -1]], ["op", 1, d0, ["c", 0]],
        ["op", 1, d0, ["c", 1]], ["op", 1, ["c", 1], d0], ["op", 0, d0, ["c", 0]], ["op", 0, ["c", 0], d0],
        ["op", 1, d0, d1], ["op", 2, d0, ["c", 0]], ["op", 2, ["c", 5], ["c", 0]], ["op", 3, ["c", -7], ["c", 2]],
        ["op", 4, ["c", -7], ["c", 2]], ["op", 4, ["c", 7], ["c", -2]], ["op", 2, ["c", -7], ["c", 3]],
        ["op", 3, d0, s0], ["op", 4, d0, ["c", -3]], ["opi", 3, d0, 0], ["neg", ["c", 4]], ["neg", d0],
        ["neg", ["op", 0, d0, ["c", 1]]], ["sub", d0, d1], ["sub", d0, ["c", 3]], ["subi", d0, 3],
        ["sub", ["c", 3], d0], ["rint", 0, 3, d0], ["rint", 1, 3, ["op", 0, d0, s0]],
        ["raw", 1, d0, d1], ["op", 1, ["raw", 1, d0, d1], ["c", 2]], ["op", 0, ["raw", 0, d0, ["c", 1]], ["c", -1]],
        ["raw", 2, d0, ["c", 0]], ["op", 1, ["raw", 0, ["c", 1], d0], ["c", 2]],
    ]
    cases = [{"p": p, "nd": 2, "ns": 1} for p in fixed]
    for _ in range(700 * scale):
        nd, ns = shape(rng)
        cases.append({"p": gen_prog(rng, nd, ns, rng.randint(1, 4)), "nd": nd, "ns": ns})
    differential(ctx, DSpec("build", REQ, cases, build_impl, build_coq, build_holds, None, build_nontrivial))
    err_kinds = {}
    for c in cases[:400]:
        r = build_impl(c)
        k = "ok" if r[0] == 0 else f"exc{r[1]}"
        err_kinds[k] = err_kinds.get(k, 0) + 1
    ctx.coverage["build_result_kinds_first_400"] = err_kinds

    # eval: raw trees (so that every operator node survives) on in-range, short and zero-divisor points
    cases = []
    for _ in range(250 * scale):
        nd, ns = shape(rng)
        p = gen_prog(rng, nd, ns, rng.randint(1, 4), wild=0.2, raw=1.0)
        pts = []
        for _ in range(6):
            d = [rng.randint(-9, 9) for _ in range(nd)]
            s = [rng.randint(-9, 9) for _ in range(ns)]
            if rng.random() < 0.15 and d:
                d = d[:-1]
            if rng.random() < 0.1 and s:
                s = s[:-1]
            pts.append([d, s])
        pts.append([[0] * nd, [0] * ns])
        cases.append({"p": p, "pts": pts})
    differential(ctx, DSpec("eval", REQ, cases, eval_impl, eval_coq, eval_holds, None,
                               lambda c, r: repr(c["p"]) if any(x[0] != 0 for x in r) or len(r) > 0 and c["p"][0] == "raw" else None))

    # replace_dims_and_symbols
    cases = []
    for _ in range(350 * scale):
        nd, ns = shape(rng)
        p = gen_prog(rng, nd, ns, rng.randint(1, 3))
        k1 = rng.choice([nd, nd, max(0, nd - 1), nd + 1, 0])
        k2 = rng.choice([ns, ns, max(0, ns - 1), ns + 1, 0])
        cases.append({"p": p, "nd": nd, "ns": ns,
                      "new_dims": [gen_prog(rng, nd, ns, rng.randint(0, 2)) for _ in range(k1)],
                      "new_syms": [gen_prog(rng, nd, ns, rng.randint(0, 2)) for _ in range(k2)]})
    differential(ctx, DSpec("replace", REQ, cases, replace_impl, replace_coq, replace_holds, None, replace_nontrivial))

    # compose: expression with map
    cases = []
    for _ in range(250 * scale):
        nd, ns = shape(rng)
        nres = rng.choice([1, 2, 2, 3])
        p = gen_prog(rng, nres, ns, rng.randint(1, 3))          # its dims are the map's results
        cases.append({"p": p, "nd": nd, "ns": ns,
                      "results": [gen_prog(rng, nd, ns, rng.randint(0, 2)) for _ in range(nres - (rng.random() < 0.1))]})
    differential(ctx, DSpec("compose-expr-map", REQ, cases, cexpr_impl, cexpr_coq, cexpr_holds, None, replace_nontrivial_c))

    # compose: map with map
    cases = []
    for _ in range(250 * scale):
        nd2, ns2 = shape(rng)
        nd1 = rng.choice([1, 2, 2, 3])
        ns1 = rng.choice([0, 1, 1, 2])
        n2 = nd1 if rng.random() < 0.93 else nd1 + 1
        m1 = [nd1, ns1, [gen_prog(rng, nd1, ns1, rng.randint(0, 3)) for _ in range(rng.randint(1, 3))]]
        m2 = [nd2, ns2, [gen_prog(rng, nd2, ns2, rng.randint(0, 2)) for _ in range(n2)]]
        cases.append({"m1": m1, "m2": m2})
    differential(ctx, DSpec("compose-map-map", REQ, cases, cmap_impl, cmap_coq, cmap_holds, None,
                               lambda c, r: repr(c) if r[0] == 0 else None))

    # simplify
    simp_fixed = [
        ["sub", ["sub", ["op", 0, ["op", 0, d0, ["opi", 1, d1, 3]], d0], ["opi", 1, d1, 2]], d0],
        ["opi", 2, ["op", 0, ["sub", d0, ["opi", 2, d0, 4]], ["c", 4]], 4],
        ["op", 0, ["opi", 3, ["op", 0, ["op", 0, ["opi", 1, d0, 3], ["opi", 1, d1, 2]], d0], 2], d1],
        ["op", 0, ["opi", 2, d0, 4], ["opi", 3, d0, 4]], ["op", 0, ["opi", 4, d0, 4], ["opi", 4, d0, 4]],
        ["opi", 2, ["opi", 1, d0, 6], 4], ["opi", 3, ["opi", 1, d0, 6], 4], ["opi", 4, ["opi", 1, d0, 6], 3],
        ["raw", 3, ["c", 7], ["c", 2]], ["raw", 2, d0, ["c", 0]], ["raw", 3, d0, ["c", -2]], ["raw", 1, ["c", 2], d0],
        ["raw", 2, d0, ["c", -3]], ["raw", 4, d0, ["c", 0]], ["raw", 1, d0, d1], ["opi", 2, ["opi", 2, d0, 6], 4],
    ]
    cases = [{"p": p, "nd": 2, "ns": 1} for p in simp_fixed]
    for _ in range(500 * scale):
        nd, ns = shape(rng)
        wild = 0.02 if rng.random() < 0.8 else 0.15
        p = gen_prog(rng, nd, ns, rng.randint(1, 4), wild=wild, raw=rng.choice([0.0, 0.1, 0.6]))
        a, b = nd, ns
        if rng.random() < 0.05:
            a = max(0, nd - 1)                      # "Inconsistent number of dims" assertion
        cases.append({"p": p, "nd": a, "ns": b})
    differential(ctx, DSpec("simplify", REQ, cases, simp_impl, simp_coq, simp_holds, None, simp_nontrivial))

    # print -> lex -> parse
    cases = [{"p": p, "nd": 2, "ns": 1} for p in fixed]
    for _ in range(400 * scale):
        nd, ns = shape(rng)
        p = gen_prog(rng, nd, ns, rng.randint(1, 4), wild=0.03, raw=rng.choice([0.0, 0.2, 1.0]))
        a = nd if rng.random() < 0.95 else max(0, nd - 1)      # printed dim not in the space -> ParseError
        cases.append({"p": p, "nd": a, "ns": ns})
    differential(ctx, DSpec("print-lex-parse", REQ, cases, pp_impl, pp_coq, pp_holds, None, pp_nontrivial))

    # token streams through AffineParser._parse_affine_expr
    cases = []
    for i in range(500 * scale):
        nd, ns = shape(rng)
        toks = gen_infix(rng, nd, ns, rng.randint(1, 4))
        if rng.random() < 0.3:
            toks = mutate(rng, toks)
        if rng.random() < 0.3:
            toks = toks + [rng.choice([1, 12, 12, [5, 3], [6, 0]])]
        cases.append({"toks": toks, "nd": nd, "ns": ns, "bits": rng.getrandbits(30)})
    cases.append({"toks": [], "nd": 1, "ns": 0, "bits": 0})
    differential(ctx, DSpec("parse-token-streams", REQ, cases, ps_impl, ps_coq, None, None, ps_nontrivial))

    run_specs(ctx)
    rsub_note(ctx)
    ctx.coverage["rule"] = __doc__.split("\n\n", 1)[1][:1500]
    ctx.coverage["generator"] = {
        "dims": "0..3", "symbols": "0..2", "program depth": "1..4", "constants": sorted(set(CONSTS)),
        "positive divisors": sorted(set(POS)), "wild (zero/negative/non-constant divisor, non-constant product)": "2-20% per node",
        "raw AffineBinaryOpExpr nodes": "0-100% per family", "box": "up to 343 points, values per variable " + str(BOX_VALUES)}


def replace_nontrivial_c(case, res):
    return repr(case) if res[0] == 0 and case["p"][0] not in "dsc" else None


FAMILIES = {
    "build": (build_impl, build_coq, build_holds), "eval": (eval_impl, eval_coq, eval_holds),
    "replace": (replace_impl, replace_coq, replace_holds),
    "compose-expr-map": (cexpr_impl, cexpr_coq, cexpr_holds), "compose-map-map": (cmap_impl, cmap_coq, cmap_holds),
    "simplify": (simp_impl, simp_coq, simp_holds), "print-lex-parse": (pp_impl, pp_coq, pp_holds),
    "parse-token-streams": (ps_impl, ps_coq, None),
}


def replay_case(ctx: Ctx, witness: dict) -> int:
    """./check C26 --replay file: the recorded case on the implementation, the oracle and the model"""
    fam, case = witness.get("family"), witness.get("case")
    if fam not in FAMILIES or case is None:
        print("witness names no single case (model/proof breakage); see its `no_longer_checks` entries")
        return 0
    impl, coq, holds = FAMILIES[fam]
    r = common.to_jsonable(impl(case))
    print("implementation:", r)
    ok, why = holds(case, r) if holds else (True, "no oracle for this family (correspondence only)")
    print("oracle:", "holds" if ok else "VIOLATED", "-", why)
    try:
        print("model:         ", ctx.coq_eval(REQ, [coq(case)])[0])
    except ModelUnavailable as e:
        print("model unavailable:", str(e)[:300])
    return 0 if ok else 1
