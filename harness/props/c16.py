"""C16 -- Control-flow and loop lowerings preserve program results.

Tie: hand-written Coq kernels (coq/C16/Model.v) of what each pass does to the iteration space / CFG,
compared with the REAL pass (ModulePass.apply on a parsed module) on generated loops: the transform
output is read back from the rewritten IR (CFG shape and operand wiring for convert-scf-to-cf; the new
lb/ub/step observed when the rewritten scf.for executes for range folding and flattening; the inserted
induction-variable constants for unrolling; the sequence of hoisted ops for licm; the emitted arith ops
for lower-affine) and the rewritten program is executed by an independent reference evaluator whose
result must equal the model's execution of its own transform output.
Oracle (independent of the model AND of xDSL's interpreter): a reference evaluator for the
func/arith/scf/cf/affine.apply subset under MLIR semantics (scf.for = iterate while iv < ub, signed;
division by zero traps) runs the program before and after the real pass on boundary + random inputs;
return values and the log of calls to the external @eff must agree.  A mismatch is only reported when it
also persists under the xDSL interpreter's Python-`range` reading of scf.for (the two anchored mechanisms
disagree on non-positive steps); source programs that are invalid (non-positive step), trap or run out of
fuel are skipped.
Non-trivial: the pass fired (changed the IR) and the loop ran at least once on some input; distinct =
distinct case description.
"""
from __future__ import annotations

import json

from harness.common import (Ctx, DiffSpec, _report, coq_bool, coq_list, coq_nat, coq_Z, coq_Zs, differential,
                            eval_cases, exc_code, replay_findings)

META = {
    "id": "C16",
    "title": "Control-flow and loop lowerings preserve program results",
    "design_ref": "DESIGN.md section 8.C16",
    "technique": "Coq proofs of per-pass iteration-space / CFG kernels over an abstract loop body + "
                 "model-vs-real-pass correspondence + independent reference evaluator before/after each pass",
    "level_text": (
        "Theorems in coq/Props/C16.v, for EVERY loop body (a Section variable body : Z -> st -> st), every "
        "lb/ub/step in Z and every initial state: the trip-count form of scf.for is the unique result of the "
        "big-step 'iterate while iv < ub' relation; the block-argument CFG built by convert-scf-to-cf "
        "(ForLowering, IfLowering) computes it (step > 0) and never exits for step <= 0 with lb < ub; range "
        "folding by addi always, by muli for multiplier > 0, whole use-chains; flattening (both variants, as "
        "repaired by commits 1ebef56/51aee64) at FULL strength for steps > 0: any bounds, empty and negative "
        "ranges, no divisibility hypothesis; full unrolling via Python range for step > 0; hoisting a non-trapping invariant op out of "
        "any (also zero-trip) loop; the licm worklist terminates and only hoists table-hoistable ops whose "
        "operands are outside; lower-affine expressions when every mod has a non-negative dividend. "
        "Refuted (with witnesses, all valid programs): range folding by a multiplier 0, hoisting arith.remsi/floordivsi/ceildivsi (declared Pure) out of a zero-trip loop, "
        "affine mod lowered to arith.remsi; the pre-repair flatten code (floor instead of ceiling trip count, "
        "empty/negative ranges, non-divisible fused range) is kept as recorded `_old_refuted` theorems. Model tied to the code by running the real passes on generated "
        "loops and comparing transform output and executed result."),
    "level_note": (
        "Trusted: Coq kernel; hand-written kernels (integers are Z: index wrap-around at 2^63 is not "
        "modelled, generated values stay far below it; the i32 cast of scf.index_switch IS modelled); the "
        "reference evaluator in harness/props/c16.py; correspondence harness. Modelled (model + theorem + "
        "correspondence family): convert-scf-to-cf (scf.for, scf.if, scf.index_switch; the pass has NO scf.while "
        "lowering in this tree: an scf.while is left untouched, and an scf.for/scf.if nested in a while body is "
        "left as a multi-block region the verifier rejects), scf-for-loop-range-folding, scf-for-loop-flatten "
        "(both variants), scf-for-loop-unroll, licm (trait table + worklist on flat bodies), control-flow-hoist "
        "(scf.if and affine.if: all-or-nothing hoist decided by the trait table; the driver's dead-op removal and "
        "the CSE run are not modelled, generated branches contain neither dead nor duplicate ops), lower-affine (affine.apply expressions; affine.for with the single closed-expression bounds "
        "the pass supports -- max/min maps assert, bounds with operands raise IndexError, both modelled as "
        "raises; affine.load/store index maps over dims -- maps with symbols raise; the pass has no affine.if "
        "lowering), frontend-desymrefy on a single block without nested regions (prune_definitions AND "
        "prune_uses_without_definitions, i.e. symbols declared in the block and symbols of an enclosing scope; "
        "the binary search lower_positional_bound is modelled by its specification, the iteration order of the "
        "symbol set is not modelled; theorems: the forwarded update is the cell content, and the reference "
        "forwardings `forward`/`forward2` preserve every computed value and the final content of enclosing-scope "
        "cells on every block in SSA form; the modelled pass result equals `forward` on every generated block "
        "whose symbols are all declared, and is validated per case against the theorems' store semantics "
        "otherwise; nested regions are not modelled: they are the "
        "known finding C16-kf-9). Not covered by a model: "
        "nested/pipelined programs (before/after evaluator only), the IR-manipulation lines of every pass "
        "(that is C01/C11)."),
}
COQ_TARGETS = ["C16/Enc.vo", "C16/ProofsFor.vo", "C16/ProofsLoops.vo", "C16/ProofsLicm.vo", "C16/ProofsMore.vo",
               "Props/C16.vo"]
REQ = ["C16.Model", "C16.Enc"]
ASSUMPTIONS = [
    "index arithmetic does not overflow 64 bits in the compared runs (kernels are over Z)",
    "scf.for of the SOURCE program has step > 0 (MLIR requirement); programs violating it are skipped by the oracle",
    "calls to the external symbol @eff are the only observable effects of generated programs",
]
TRUSTED = ["reference evaluator (python, this module) for func/arith/scf/cf/affine.apply under MLIR semantics"]

N_ARGS = 4
FUEL_PY = 2000          # block/iteration executions of the reference evaluator

# ============================================================================ reference evaluator


class Trap(Exception):
    pass


class Fuel(Exception):
    pass


class Unsupported(Exception):
    pass


def _wrap64(x):
    x &= (1 << 64) - 1
    return x - (1 << 64) if x >> 63 else x


def _wrapw(x, w):
    if w >= 64:
        return _wrap64(x)
    x &= (1 << w) - 1
    return x - (1 << w) if (w > 0 and x >> (w - 1)) else x


def _width(t):
    n = getattr(t, "name", "")
    if n == "index":
        return 64
    w = getattr(getattr(t, "width", None), "data", None)
    return w if isinstance(w, int) else 64


def _aff(e, dims, syms):
    k = type(e).__name__
    if k == "AffineConstantExpr":
        return e.value
    if k == "AffineDimExpr":
        return dims[e.position]
    if k == "AffineSymExpr":
        return syms[e.position]
    if k == "AffineBinaryOpExpr":
        a, b = _aff(e.lhs, dims, syms), _aff(e.rhs, dims, syms)
        kind = e.kind.name
        if kind == "Add":
            return a + b
        if kind == "Mul":
            return a * b
        if b == 0:
            raise Trap("affine division by zero")
        if kind == "Mod":
            if b < 0:
                raise Trap("affine mod by a negative value is not defined")
            return a - b * (a // b)            # floor remainder: in [0, b) for b > 0
        if kind == "FloorDiv":
            return a // b
        if kind == "CeilDiv":
            return -((-a) // b)
    raise Unsupported(k)


class Ev:
    """Independent evaluator over xDSL IR objects (reads structure only: names, operands, regions)."""

    def __init__(self, module, sem="mlir", fuel=FUEL_PY):
        self.module, self.sem, self.fuel = module, sem, fuel
        self.log, self.loops, self.nonpos = [], [], False
        self.mem_trace, self.syms, self.outer, self.outer_read = [], {}, set(), set()
        self.funcs = {}
        for op in module.body.block.ops:
            if op.name == "func.func":
                self.funcs[op.sym_name.data] = op

    def tick(self):
        self.fuel -= 1
        if self.fuel < 0:
            raise Fuel()

    def call(self, name, args):
        f = self.funcs[name]
        if name == "eff" or not f.body.blocks:      # @eff is the observable effect (declared, or defined empty)
            self.log.append(list(args))
            return []
        kind, vals = self.region(f.body, list(args), {})
        if kind != "return":
            raise Unsupported("function ended with " + kind)
        return vals

    def region(self, region, args, env):
        block = region.blocks[0]
        while True:
            self.tick()
            if len(block.args) != len(args):
                raise Unsupported("block arity")
            for a, v in zip(block.args, args):
                env[a] = v
            out = self.block(block, env)
            if out[0] == "br":
                block, args = out[1], out[2]
                continue
            return out[0], out[1]

    def block(self, block, env):
        for op in block.ops:
            r = self.op(op, env)
            if r is not None:
                return r
        raise Unsupported("block without terminator")

    def op(self, op, env):
        n = op.name
        g = lambda v: env[v]
        if n == "arith.constant":
            env[op.results[0]] = op.value.value.data
            return None
        if n in BIN:
            a, b = g(op.operands[0]), g(op.operands[1])
            env[op.results[0]] = _wrapw(BIN[n](a, b), _width(op.results[0].type))
            return None
        if n == "arith.cmpi":
            a, b = g(op.operands[0]), g(op.operands[1])
            p = op.predicate.value.data
            w = _width(op.operands[0].type)
            ua, ub = a & ((1 << w) - 1), b & ((1 << w) - 1)
            env[op.results[0]] = int([a == b, a != b, a < b, a <= b, a > b, a >= b,
                                      ua < ub, ua <= ub, ua > ub, ua >= ub][p])
            return None
        if n == "arith.select":
            env[op.results[0]] = g(op.operands[1]) if g(op.operands[0]) != 0 else g(op.operands[2])
            return None
        if n == "func.call":
            vals = self.call(op.callee.root_reference.data, [g(v) for v in op.operands])
            for r, v in zip(op.results, vals):
                env[r] = v
            return None
        if n == "func.return":
            return ("return", [g(v) for v in op.operands])
        if n in ("scf.yield", "affine.yield"):
            return ("yield", [g(v) for v in op.operands])
        if n == "scf.condition":
            return ("cond", [g(v) for v in op.operands])
        if n == "cf.br":
            return ("br", op.successors[0], [g(v) for v in op.operands])
        if n == "cf.cond_br":
            if g(op.operands[0]) != 0:
                return ("br", op.then_block, [g(v) for v in op.then_arguments])
            return ("br", op.else_block, [g(v) for v in op.else_arguments])
        if n == "scf.for":
            lb, ub, step = (g(v) for v in op.operands[:3])
            carried = [g(v) for v in op.operands[3:]]
            if len(self.loops) < 4:
                self.loops.append([lb, ub, step])
            if step <= 0:
                self.nonpos = True
            if self.sem == "range":
                if step == 0:
                    raise Trap("range() arg 3 must not be zero")
                ivs = iter(range(lb, ub, step))
                for iv in ivs:
                    self.tick()
                    kind, carried = self.region(op.regions[0], [iv] + carried, env)
                    if kind != "yield":
                        raise Unsupported(kind)
            else:
                iv = lb
                while iv < ub:
                    self.tick()
                    kind, carried = self.region(op.regions[0], [iv] + carried, env)
                    if kind != "yield":
                        raise Unsupported(kind)
                    iv = _wrap64(iv + step)
            for r, v in zip(op.results, carried):
                env[r] = v
            return None
        if n == "scf.if":
            reg = op.regions[0] if g(op.operands[0]) != 0 else op.regions[1]
            vals = []
            if reg.blocks:
                kind, vals = self.region(reg, [], env)
                if kind != "yield":
                    raise Unsupported(kind)
            for r, v in zip(op.results, vals):
                env[r] = v
            return None
        if n == "scf.while":
            vals = [g(v) for v in op.operands]
            while True:
                self.tick()
                kind, out = self.region(op.regions[0], vals, env)
                if kind != "cond":
                    raise Unsupported(kind)
                if out[0] == 0:
                    vals = out[1:]
                    break
                kind, vals = self.region(op.regions[1], out[1:], env)
                if kind != "yield":
                    raise Unsupported(kind)
            for r, v in zip(op.results, vals):
                env[r] = v
            return None
        if n == "arith.index_cast":
            env[op.results[0]] = _wrapw(g(op.operands[0]), _width(op.results[0].type))
            return None
        if n == "scf.index_switch":
            v = g(op.operands[0])
            reg = op.regions[0]                                  # default region
            for c, r in zip(op.cases.iter_values(), op.regions[1:]):
                if c == v:
                    reg = r
                    break
            kind, vals = self.region(reg, [], env)
            if kind != "yield":
                raise Unsupported(kind)
            for r, x in zip(op.results, vals):
                env[r] = x
            return None
        if n == "cf.switch":
            v = g(op.operands[0])
            cvals = [] if op.case_values is None else list(op.case_values.iter_values())
            segs = list(op.case_operand_segments.iter_values())
            nd = len(op.default_operands)
            rest = [g(x) for x in op.operands[1 + nd:]]
            off = 0
            for c, blk, k in zip(cvals, op.successors[1:], segs):
                if c == v:
                    return ("br", blk, rest[off:off + k])
                off += k
            return ("br", op.successors[0], [g(x) for x in op.operands[1:1 + nd]])
        if n == "symref.declare":
            self.syms[op.sym_name.data] = None
            return None
        if n == "symref.update":
            name = op.symbol.root_reference.data
            if name not in self.syms or name in self.outer_read:
                self.outer.add(name)               # a WRITTEN cell of an enclosing scope: observable afterwards
            self.syms[name] = g(op.operands[0])
            return None
        if n == "symref.fetch":
            name = op.symbol.root_reference.data
            if name not in self.syms:
                self.outer_read.add(name)          # a cell of an enclosing scope: defined content on entry
                self.syms[name] = 100 + sum(map(ord, name)) % 50
            if self.syms[name] is None:
                raise Trap("fetch of a declared but uninitialised symbol")
            env[op.results[0]] = self.syms[name]
            return None
        if n == "memref.alloc":
            shape = tuple(op.results[0].type.get_shape())
            if any(d < 0 for d in shape):
                raise Unsupported("dynamic memref")
            env[op.results[0]] = {"shape": shape, "data": {}}
            return None
        if n in ("memref.load", "affine.load", "memref.store", "affine.store"):
            st = n.endswith("store")
            mem = g(op.operands[1 if st else 0])
            vs = [g(v) for v in op.operands[(2 if st else 1):]]
            if n.startswith("affine"):
                m = op.map.data
                vs = [_aff(r, vs[:m.num_dims], vs[m.num_dims:]) for r in m.results]
            if len(vs) != len(mem["shape"]) or any(not (0 <= i < d) for i, d in zip(vs, mem["shape"])):
                raise Trap("memref access out of bounds")
            self.mem_trace.append(vs[0])
            if st:
                mem["data"][tuple(vs)] = g(op.operands[0])
            else:
                env[op.results[0]] = mem["data"].get(tuple(vs), 0)
            return None
        if n == "affine.for":
            lbm, ubm = op.lowerBoundMap.data, op.upperBoundMap.data
            lo = [g(v) for v in op.lowerBoundOperands]
            uo = [g(v) for v in op.upperBoundOperands]
            # several results: the lower bound is their maximum, the upper bound their minimum
            lb = max(_aff(r, lo[:lbm.num_dims], lo[lbm.num_dims:]) for r in lbm.results)
            ub = min(_aff(r, uo[:ubm.num_dims], uo[ubm.num_dims:]) for r in ubm.results)
            step = op.step.value.data
            carried = [g(v) for v in op.inits]
            if step <= 0:
                self.nonpos = True
            iv = lb
            while iv < ub:
                self.tick()
                kind, carried = self.region(op.regions[0], [iv] + carried, env)
                if kind != "yield":
                    raise Unsupported(kind)
                iv += step
            for r, v in zip(op.results, carried):
                env[r] = v
            return None
        if n == "affine.if":
            st_ = op.condition.data
            vs = [g(v) for v in op.operands]
            dims, syms = vs[:st_.num_dims], vs[st_.num_dims:]
            sat = True
            for c in st_.constraints:
                l, r = _aff(c.lhs, dims, syms), _aff(c.rhs, dims, syms)
                sat = sat and {"ge": l >= r, "le": l <= r, "eq": l == r}[c.kind.name]
            reg = op.regions[0] if sat else op.regions[1]
            vals = []
            if reg.blocks:
                kind, vals = self.region(reg, [], env)
                if kind != "yield":
                    raise Unsupported(kind)
            for r, x in zip(op.results, vals):
                env[r] = x
            return None
        if n == "affine.apply":
            m = op.map.data
            vs = [g(v) for v in op.operands]
            env[op.results[0]] = _aff(m.results[0], vs[:m.num_dims], vs[m.num_dims:])
            return None
        raise Unsupported(n)


def _divsi(a, b):
    if b == 0:
        raise Trap("divsi by zero")
    q = abs(a) // abs(b)
    return q if (a >= 0) == (b >= 0) else -q


def _remsi(a, b):
    if b == 0:
        raise Trap("remsi by zero")
    return a - b * _divsi(a, b)


def _floordiv(a, b):
    if b == 0:
        raise Trap("floordivsi by zero")
    return a // b


def _ceildiv(a, b):
    if b == 0:
        raise Trap("ceildivsi by zero")
    return -((-a) // b)


def _remui(a, b):
    if b == 0:
        raise Trap("remui by zero")
    return (a & ((1 << 64) - 1)) % (b & ((1 << 64) - 1))


BIN = {
    "arith.addi": lambda a, b: a + b, "arith.subi": lambda a, b: a - b, "arith.muli": lambda a, b: a * b,
    "arith.divsi": _divsi, "arith.remsi": _remsi, "arith.floordivsi": _floordiv, "arith.ceildivsi": _ceildiv,
    "arith.remui": lambda a, b: _remui(a, b), "arith.minsi": min, "arith.maxsi": max,
    "arith.andi": lambda a, b: a & b, "arith.ori": lambda a, b: a | b, "arith.xori": lambda a, b: a ^ b,
}


def evaluate(module, args, sem="mlir", fname="f"):
    """-> dict(status ok|trap|fuel|unsupported, ret, log, loops, nonpos)"""
    ev = Ev(module, sem)
    try:
        ret = ev.call(fname, list(args))
        st = "ok"
    except Trap:
        ret, st = [], "trap"
    except Fuel:
        ret, st = [], "fuel"
    except RecursionError:
        ret, st = [], "fuel"
    for name in sorted(ev.outer):          # the final content of enclosing-scope cells is observable
        ev.log.append([ev.syms[name]])
    return {"status": st, "ret": ret, "log": ev.log, "loops": ev.loops, "nonpos": ev.nonpos, "mem": ev.mem_trace}


def enc_eval(e):
    """canonical nested ints: [0, ret0, [log...]] | [1] trap | [2] out of fuel"""
    if e["status"] == "ok":
        return [0, (e["ret"] or [0])[0], [x[0] if x else 0 for x in e["log"]]]
    return [1] if e["status"] == "trap" else [2]


def same_behaviour(a, b):
    if a["status"] != b["status"]:
        return False
    if a["status"] == "ok":
        return a["ret"] == b["ret"] and a["log"] == b["log"]
    return True


def compare(before, after, inputs, fname="f"):
    """Statement-level oracle on one (before, after) module pair.
    -> (ok, why, failing_input_indices, notes)   notes = inputs that only differ under MLIR semantics"""
    failing, notes, why = [], 0, ""
    for i, inp in enumerate(inputs):
        o = evaluate(before, inp, "mlir", fname)
        if o["status"] != "ok" or o["nonpos"]:
            continue                                   # invalid / trapping / too long source run: no demand
        t = evaluate(after, inp, "mlir", fname)
        if same_behaviour(o, t):
            continue
        o2, t2 = evaluate(before, inp, "range", fname), evaluate(after, inp, "range", fname)
        if o2["status"] == "ok" and same_behaviour(o2, t2):
            notes += 1                                 # semantics-dependent (non-positive step after the pass)
            continue
        failing.append(i)
        if not why:
            why = (f"input {inp}: before the pass returns {o['ret']} with effects {o['log'][:12]}; after the pass "
                   f"status={t['status']} returns {t['ret']} with effects {t['log'][:12]} "
                   f"(Python-range reading: status={t2['status']} returns {t2['ret']} effects {t2['log'][:12]})")
    return (not failing), why, failing, notes


# ============================================================================ building programs

_CTX = None


def mlctx():
    global _CTX
    if _CTX is None:
        from xdsl.context import Context
        from xdsl.dialects import affine, arith, builtin, cf, func, scf, symref
        _CTX = Context()
        for d in (arith.Arith, builtin.Builtin, func.Func, scf.Scf, cf.Cf, affine.Affine, symref.Symref):
            _CTX.load_dialect(d)
    return _CTX


def parse(text):
    from xdsl.parser import Parser
    m = Parser(mlctx(), text).parse_module()
    m.verify()
    return m


def get_pass(name):
    if name == "convert-scf-to-cf":
        from xdsl.transforms.convert_scf_to_cf import ConvertScfToCf as P
    elif name == "scf-for-loop-range-folding":
        from xdsl.transforms.scf_for_loop_range_folding import ScfForLoopRangeFoldingPass as P
    elif name == "scf-for-loop-flatten":
        from xdsl.transforms.scf_for_loop_flatten import ScfForLoopFlattenPass as P
    elif name == "scf-for-loop-unroll":
        from xdsl.transforms.scf_for_loop_unroll import ScfForLoopUnrollPass as P
    elif name == "licm":
        from xdsl.transforms.loop_invariant_code_motion import LoopInvariantCodeMotionPass as P
    elif name == "lower-affine":
        from xdsl.transforms.lower_affine import LowerAffinePass as P
    elif name == "frontend-desymrefy":
        from xdsl.transforms.desymref import FrontendDesymrefyPass as P
    elif name == "control-flow-hoist":
        from xdsl.transforms.control_flow_hoist import ControlFlowHoistPass as P
    else:
        raise KeyError(name)
    return P()


def apply_pass(module, name):
    get_pass(name).apply(mlctx(), module)
    module.verify()


def func_f(module):
    for op in module.body.block.ops:
        if op.name == "func.func" and op.sym_name.data == "f":
            return op
    raise KeyError("f")


def val(spec, inp):
    """run-time value of a value spec ["c", k] (constant) or ["a", i] (function argument i)"""
    return spec[1] if spec[0] == "c" else inp[spec[1]]


class Txt:
    """tiny MLIR text builder for one function @f(%a0..%a3 : index) -> index"""

    def __init__(self, eff_defined=False):
        self.consts, self.lines, self.n = {}, [], 0
        self.eff_defined = eff_defined   # frontend-desymrefy rejects a body-less func (region with 0 blocks)

    def fresh(self, p="t"):
        self.n += 1
        return f"%{p}{self.n}"

    def ref(self, spec):
        if spec[0] == "a":
            return f"%a{spec[1]}"
        k = spec[1]
        name = f"%k{k}" if k >= 0 else f"%km{-k}"
        self.consts[k] = name
        return name

    def emit(self, line, ind=1):
        self.lines.append("  " * ind + line)

    def module(self, ret):
        args = ", ".join(f"%a{i} : index" for i in range(N_ARGS))
        eff = ("func.func @eff(%x : index) {\n  func.return\n}" if self.eff_defined
               else "func.func private @eff(index) -> ()")
        head = [eff, f"func.func @f({args}) -> index {{"]
        cs = [f"  {n} = arith.constant {k} : index" for k, n in sorted(self.consts.items())]
        return "\n".join(head + cs + self.lines + [f"  func.return {ret} : index", "}"])


def norm_body(p, k):
    """defaults for body descriptions written before multi-iter_args support (corpus, known findings)"""
    q = dict(p)
    q.setdefault("h", 0)
    if "sel" not in q or len(q["sel"]) != k:
        q["sel"] = ([-1] + list(range(1, k)))[:k]
    return q


def body_lines(t: Txt, p, x, accs, ind):
    """the generated loop body over k = len(accs) loop-carried values v0..v(k-1):
         eff(d*x + e*v0 + h*v1 + g);  new = a*v0 + b*x + c;
         yield position j = new if sel[j] == -1 else v_sel[j]       (a SIMULTANEOUS assignment)
       x None = iv-independent.  Returns the SSA names to yield."""
    k = len(accs)
    p = norm_body(p, k)

    def kc(v):
        return t.ref(["c", v])
    ev_terms = []
    if x is not None:
        e1 = t.fresh()
        t.emit(f"{e1} = arith.muli {x}, {kc(p['d'])} : index", ind)
        ev_terms.append(e1)
    if k >= 1:
        e2 = t.fresh()
        t.emit(f"{e2} = arith.muli {accs[0]}, {kc(p['e'])} : index", ind)
        ev_terms.append(e2)
    if k >= 2:
        e3 = t.fresh()
        t.emit(f"{e3} = arith.muli {accs[1]}, {kc(p['h'])} : index", ind)
        ev_terms.append(e3)
    ev = kc(p["g"])
    for term in ev_terms:
        nv = t.fresh()
        t.emit(f"{nv} = arith.addi {term}, {ev} : index", ind)
        ev = nv
    t.emit(f"func.call @eff({ev}) : (index) -> ()", ind)
    if k == 0:
        return []
    t1 = t.fresh()
    t.emit(f"{t1} = arith.muli {accs[0]}, {kc(p['a'])} : index", ind)
    if x is not None:
        t2, t3 = t.fresh(), t.fresh()
        t.emit(f"{t2} = arith.muli {x}, {kc(p['b'])} : index", ind)
        t.emit(f"{t3} = arith.addi {t1}, {t2} : index", ind)
        t1 = t3
    new = t.fresh()
    t.emit(f"{new} = arith.addi {t1}, {kc(p['c'])} : index", ind)
    return [new if sj == -1 else accs[sj] for sj in p["sel"]]


def for_open(t: Txt, res, iv, lb, ub, st, inits, accs, ind=1):
    k = len(accs)
    if k:
        it = ", ".join(f"{a} = {i}" for a, i in zip(accs, inits))
        t.emit(f"{res}{':%d' % k if k > 1 else ''} = scf.for {iv} = {lb} to {ub} step {st} iter_args({it}) -> "
               f"({', '.join(['index'] * k)}) {{", ind)
    else:
        t.emit(f"scf.for {iv} = {lb} to {ub} step {st} {{", ind)


def yield_line(t: Txt, names, ind):
    if names:
        t.emit(f"scf.yield {', '.join(names)} : {', '.join(['index'] * len(names))}", ind)


def res_names(res, k):
    return [res] if k == 1 else [f"{res}#{j}" for j in range(k)]


def finish(t: Txt, res, k):
    """every loop result is observable: results 1.. through @eff, result 0 is returned"""
    names = res_names(res, k)
    for n in names[1:]:
        t.emit(f"func.call @eff({n}) : (index) -> ()")
    return t.module(names[0] if k else t.ref(["c", 0]))


def case_k(case):
    return case.get("n_iter", 1)


def init_specs(case):
    k = case_k(case)
    return ([case["init"]] + list(case.get("init_more", [])) + [["c", 0]] * k)[:k]


def coq_inits(case, inp):
    return coq_Zs(val(sp, inp) for sp in init_specs(case))


def coq_body(p, use_x=True, k=1):
    """Coq term `mbody a b c d e g h sel` equal to what body_lines emits for k loop-carried values"""
    p = norm_body(p, k)
    b, d = (p["b"], p["d"]) if use_x else (0, 0)
    return ("(mbody " + " ".join(coq_Z(v) for v in (p["a"], b, p["c"], d, p["e"], p["g"], p["h"])) + " "
            + coq_Zs(p["sel"]) + ")")


def rand_body(rng, k=1):
    p = {"a": rng.choice([0, 1, 1, 2]), "b": rng.choice([0, 1, 2, -1, 3]), "c": rng.randint(-2, 3),
         "d": rng.choice([1, 1, 2, -1, 0]), "e": rng.choice([0, 0, 1]), "g": rng.randint(0, 3),
         "h": rng.choice([0, 1, 1, 2]) if k >= 2 else 0}
    if k <= 1:
        p["sel"] = [-1] * k
    else:
        r = rng.random()
        if r < 0.3:                                    # swap / rotation of the carried values
            rot = rng.randint(1, k - 1)
            p["sel"] = [(j + rot) % k for j in range(k)]
        elif r < 0.5:                                  # arbitrary pass-through (also duplicates)
            p["sel"] = [rng.randrange(k) for _ in range(k)]
        elif r < 0.8:                                  # mixed: one new value, the others permuted
            p["sel"] = [rng.randrange(k) for _ in range(k)]
            p["sel"][rng.randrange(k)] = -1
        else:                                          # accumulator first, rest straight through
            p["sel"] = [-1] + list(range(1, k))
    return p


def rand_k(rng):
    return rng.choice([0, 1, 1, 2, 2, 3])


def rand_more(rng, k, consts=(0, 1, 2, 5, -3)):
    return [rand_spec(rng, list(consts)) for _ in range(max(0, k - 1))]


def rand_spec(rng, consts, p_arg=0.4):
    if rng.random() < p_arg:
        return ["a", rng.randrange(N_ARGS)]
    return ["c", rng.choice(consts)]


def rand_inputs(rng, n, lo=-6, hi=12):
    fixed = [[0, 0, 0, 0], [1, 1, 1, 1], [0, 5, 1, 2], [3, 0, 2, -1], [-2, 7, 3, 0], [4, 4, 1, 1]]
    out = rng.sample(fixed, min(len(fixed), max(1, n // 2)))
    while len(out) < n:
        out.append([rng.randint(lo, hi) for _ in range(N_ARGS)])
    return out


_CACHE: dict = {}


def ckey(case):
    return json.dumps(case, sort_keys=True)


def remember(case, before, after, inputs):
    ok, why, failing, notes = compare(before, after, inputs)
    _CACHE[ckey(case)] = (ok, why, failing, notes)
    if len(_CACHE) > 20000:
        _CACHE.clear()


def recall(case):
    return _CACHE.get(ckey(case))


NOTES = {"semantics_dependent_inputs": 0}


def generic_holds(run_impl):
    def holds(case, res):
        r = recall(case)
        if r is None:
            run_impl(case)
            r = recall(case)
        if r is None:        # the pass raised: nothing to compare (reported through the result code)
            return True, ""
        ok, why, failing, notes = r
        NOTES["semantics_dependent_inputs"] += notes
        return ok, why
    return holds


def guarded(f):
    """exceptions deliberately raised by the pass become result codes"""
    def g(case):
        try:
            return f(case)
        except (ValueError, ZeroDivisionError, AssertionError, IndexError, KeyError) as e:
            _CACHE.pop(ckey(case), None)
            return [-1, exc_code(e) if not isinstance(e, ZeroDivisionError) else 14]
    return g


# ============================================================================ family 1: convert-scf-to-cf

def s2c_text(case):
    t = Txt()
    if case["kind"] == "for":
        lb, ub, st = (t.ref(case[k]) for k in ("lb", "ub", "step"))
        k = case_k(case)
        accs = [f"%acc{j}" for j in range(k)]
        for_open(t, "%r", "%iv", lb, ub, st, [t.ref(sp) for sp in init_specs(case)], accs)
        yield_line(t, body_lines(t, case["body"], "%iv", accs, 2), 2)
        t.emit("}")
        return finish(t, "%r", k)
    # scf.if: condition a0 < a1
    t.emit("%cond = arith.cmpi slt, %a0, %a1 : index")
    init = t.ref(case["init"])
    p = case["body"]
    if case["has_results"]:
        t.emit("%r = scf.if %cond -> (index) {")
        new = body_lines(t, p, "%a2", [init], 2)[0]
        t.emit(f"scf.yield {new} : index", 2)
        t.emit("} else {")
        new = body_lines(t, case["body2"], "%a3", [init], 2)[0]
        t.emit(f"scf.yield {new} : index", 2)
        t.emit("}")
        return t.module("%r")
    t.emit("scf.if %cond {")
    body_lines(t, p, "%a2", [], 2)
    if case["has_else"]:
        t.emit("} else {")
        body_lines(t, case["body2"], "%a3", [], 2)
    t.emit("}")
    return t.module(t.ref(["c", 0]))


def s2c_readback(f, marks):
    """CFG shape of the lowered function: per block [payload, term, t, f_or_arg]; -9 = unexpected wiring"""
    blocks = list(f.body.blocks)
    idx = {id(b): i for i, b in enumerate(blocks)}
    out = []
    for b in blocks:
        ops = list(b.ops)
        term = ops[-1]
        rest = ops[:-1]
        pay = 0
        kinds = {marks.get(id(o)) for o in rest} - {None}
        if kinds == {"body"}:
            pay = 1
        elif kinds == {"then"}:
            pay = 2
        elif kinds == {"else"}:
            pay = 3
        elif kinds:
            pay = -9
        unmarked = [o for o in rest if id(o) not in marks]
        if term.name == "cf.br":
            tgt = blocks[idx[id(term.successors[0])]]
            a = 2                                                   # ArgSame: no iv argument passed
            if tgt.args and term.operands:
                v = term.operands[0]
                if getattr(v, "owner", None) is not None and getattr(v.owner, "name", "") == "arith.addi" \
                        and v.owner in unmarked and v.owner.operands[0] is tgt.args[0] \
                        and marks.get("step") is v.owner.operands[1]:
                    a = 1                                           # ArgStepped
                    unmarked = [o for o in unmarked if o is not v.owner]
                elif v is marks.get("lb"):
                    a = 0                                           # ArgLb
                else:
                    a = 2 if pay in (2, 3) or not marks.get("lb") else -9
            row = [pay, 0, idx[id(term.successors[0])], a]
        elif term.name == "cf.cond_br":
            c = term.operands[0]
            if getattr(c.owner, "name", "") == "arith.cmpi" and c.owner in unmarked \
                    and c.owner.predicate.value.data == 2 and b.args and c.owner.operands[0] is b.args[0] \
                    and c.owner.operands[1] is marks.get("ub"):
                unmarked = [o for o in unmarked if o is not c.owner]
                row = [pay, 1, idx[id(term.then_block)], idx[id(term.else_block)]]
            elif c is marks.get("cond"):
                row = [pay, 2, idx[id(term.then_block)], idx[id(term.else_block)]]
            else:
                row = [pay, -9, 0, 0]
            if len(term.operands) != 1:
                row[1] = -9
        elif term.name == "func.return":
            row = [pay, 3, 0, 0]
        else:
            row = [pay, -9, 0, 0]
        # unmarked leftovers may only be the pre-existing straight-line setup (constants, cmpi of the if)
        # ... and, in the exit block, the calls that make loop results 1.. observable
        allowed = ("arith.constant", "arith.cmpi") + (("func.call",) if term.name == "func.return" else ())
        if any(o.name not in allowed for o in unmarked):
            row[0] = -9
        out.append(row)
    return out


@guarded
def s2c_impl(case):
    m = parse(s2c_text(case))
    before = m.clone()
    f = func_f(m)
    marks = {}
    for op in f.walk():
        if op.name == "scf.for":
            marks["lb"], marks["ub"], marks["step"] = op.operands[0], op.operands[1], op.operands[2]
            for o in op.regions[0].block.ops:
                if o.name != "scf.yield":
                    marks[id(o)] = "body"
        if op.name == "scf.if":
            marks["cond"] = op.operands[0]
            for reg, tag in ((op.regions[0], "then"), (op.regions[1], "else")):
                for blk in reg.blocks:
                    for o in blk.ops:
                        if o.name != "scf.yield":
                            marks[id(o)] = tag
    apply_pass(m, "convert-scf-to-cf")
    left = sum(1 for o in f.walk() if o.name.startswith("scf."))
    shape = s2c_readback(f, marks)
    remember(case, before, m, case["inputs"])
    return [left, shape, [enc_eval(evaluate(m, inp)) for inp in case["inputs"]]]


def s2c_coq(case):
    p = case["body"]
    if case["kind"] == "for":
        k = case_k(case)
        runs = []
        for inp in case["inputs"]:
            lb, ub, st = (val(case[k_], inp) for k_ in ("lb", "ub", "step"))
            runs.append(f"c16_run_for {coq_body(p, True, k)} {coq_Z(lb)} {coq_Z(ub)} {coq_Z(st)} {coq_inits(case, inp)}")
        return f"L [I 0; c16_shape_for; L {coq_list(runs)}]"
    runs = []
    hr, he = case["has_results"], case["has_else"]
    for inp in case["inputs"]:
        inits = coq_Zs([val(case["init"], inp)] if hr else [])
        cond = inp[0] < inp[1]
        # then-body reads x = a2, else-body x = a3; with results the incoming acc is `init`
        bt = f"(fun s => {coq_body(p, True, int(hr))} {coq_Z(inp[2])} s)"
        be = f"(fun s => {coq_body(case['body2'], True, int(hr))} {coq_Z(inp[3])} s)"
        runs.append(f"c16_run_if {bt} {be} {coq_bool(cond)} {coq_bool(he)} {coq_bool(hr)} {inits}")
    return f"L [I 0; c16_shape_if {coq_bool(he)} {coq_bool(hr)}; L {coq_list(runs)}]"


def s2c_cases(rng, n):
    cases = []
    consts = [0, 1, 2, 3, 5, 7, -1, -3, 10]
    for i in range(n):
        inputs = rand_inputs(rng, 3)
        if rng.random() < 0.65:
            step = rng.choice([["c", 1], ["c", 2], ["c", 3], ["a", 2], ["c", 0], ["c", -1]]) if rng.random() < 0.9 \
                else rand_spec(rng, consts)
            k = rand_k(rng)
            cases.append({"kind": "for", "lb": rand_spec(rng, consts), "ub": rand_spec(rng, consts), "step": step,
                          "init": rand_spec(rng, consts), "init_more": rand_more(rng, k), "n_iter": k,
                          "body": rand_body(rng, k), "inputs": inputs})
        else:
            hr = rng.random() < 0.5
            cases.append({"kind": "if", "has_results": hr, "has_else": hr or rng.random() < 0.5,
                          "init": rand_spec(rng, consts), "body": rand_body(rng), "body2": rand_body(rng),
                          "inputs": inputs})
    return cases


def ran_loop(case, res):
    """the pass fired and some execution produced at least one effect"""
    if not isinstance(res, list) or (res and res[0] == -1):
        return None
    return ckey({k: v for k, v in case.items() if k != "inputs"})


# ============================================================================ family 2: scf-for-loop-range-folding

def fold_text(case):
    t = Txt()
    lb, ub, st = (t.ref(case[k]) for k in ("lb", "ub", "step"))
    k = case_k(case)
    accs = [f"%acc{j}" for j in range(k)]
    for_open(t, "%r", "%iv", lb, ub, st, [t.ref(sp) for sp in init_specs(case)], accs)
    cur = "%iv"
    for j, l in enumerate(case["chain"]):
        if l["src"][0] == "in":
            c = f"%in{j}"
            t.emit(f"{c} = arith.constant {l['src'][1]} : index", 2)
        else:
            c = t.ref(l["src"])
        if l["extra"]:
            t.emit(f"%dead{j} = arith.addi {cur}, {t.ref(['c', 0])} : index", 2)
        opn = {"add": "arith.addi", "mul": "arith.muli", "sub": "arith.subi"}[l["kind"]]
        a, b = (cur, c) if (l["pos"] == 0 or l["kind"] == "sub") else (c, cur)
        t.emit(f"%v{j} = {opn} {a}, {b} : index", 2)
        cur = f"%v{j}"
    yield_line(t, body_lines(t, case["body"], cur, accs, 2), 2)
    t.emit("}")
    return finish(t, "%r", k)


def the_for(f):
    for op in f.walk():
        if op.name == "scf.for":
            return op
    return None


def fold_impl(case):
    m = parse(fold_text(case))
    before = m.clone()
    f = func_f(m)
    loop = the_for(f)
    chain_ids = set()
    for o in loop.regions[0].block.ops:
        h = o.results[0].name_hint if o.results else None
        if h and h.startswith("v") and h[1:].isdigit():
            chain_ids.add(id(o))
    apply_pass(m, "scf-for-loop-range-folding")
    loop = the_for(f)
    left = sum(1 for o in loop.regions[0].block.ops if id(o) in chain_ids)
    folded = len(case["chain"]) - left
    remember(case, before, m, case["inputs"])
    out = []
    for inp in case["inputs"]:
        e = evaluate(m, inp)
        out.append([folded, (e["loops"] or [[0, 0, 0]])[0], enc_eval(e)])
    return out


def link_c(l, inp):
    return l["src"][1] if l["src"][0] in ("c", "in") else inp[l["src"][1]]


def fold_coq(case):
    outs = []
    for inp in case["inputs"]:
        links = []
        for l in case["chain"]:
            k = {"add": "FAdd", "mul": "FMul", "sub": "FOther"}[l["kind"]]
            links.append(f"mkLink {coq_nat(2 if l['extra'] else 1)} {k} {coq_bool(l['src'][0] != 'in')} {coq_Z(link_c(l, inp))}")
        lb, ub, st = (val(case[k], inp) for k in ("lb", "ub", "step"))
        outs.append(f"c16_fold {coq_body(case['body'], True, case_k(case))} {coq_list(links)} {coq_Z(lb)} {coq_Z(ub)} "
                    f"{coq_Z(st)} {coq_inits(case, inp)}")
    return f"L {coq_list(outs)}"


def fold_cases(rng, n):
    cases = []
    consts = [0, 1, 2, 3, 5, 8, -2]

    def link(kind, src):
        return {"kind": kind, "src": src, "pos": rng.randint(0, 1), "extra": False}

    def pos_mul():
        return ["c", rng.choice([2, 3, 5])] if rng.random() < 0.7 else ["a", rng.choice([2, 3])]

    def addend():
        return ["c", rng.choice([1, 4, -3, 7])] if rng.random() < 0.7 else ["a", rng.randrange(N_ARGS)]
    for i in range(n):
        kk = rng.choice([1, 1, 2, 3])
        if i % 3 == 0:
            # structured chains with TWO multiplications and >= 3 trips: (i*a)*c, (i*a+b)*c, ((i+b)*a)*c+b,
            # multipliers != 1 so that a stale / partial step update changes the result
            shape = rng.choice(["mm", "mam", "amma", "mma"])
            chain = {"mm": [link("mul", pos_mul()), link("mul", pos_mul())],
                     "mam": [link("mul", pos_mul()), link("add", addend()), link("mul", pos_mul())],
                     "amma": [link("add", addend()), link("mul", pos_mul()), link("mul", pos_mul()), link("add", addend())],
                     "mma": [link("mul", pos_mul()), link("mul", pos_mul()), link("add", addend())]}[shape]
            lbv = rng.choice([0, 1, -2])
            stv = rng.choice([1, 2, 3])
            cases.append({"lb": ["c", lbv], "ub": ["c", lbv + stv * rng.randint(3, 6) - rng.randint(0, stv - 1)],
                          "step": ["c", stv], "init": rand_spec(rng, consts), "init_more": rand_more(rng, kk),
                          "n_iter": kk, "chain": chain, "body": rand_body(rng, kk),
                          "inputs": [[1, 2, 2, 3], [3, 1, 5, 2], [0, 4, 3, 3]] + rand_inputs(rng, 1, 1, 6)})
            continue
        chain = []
        for _ in range(rng.choice([0, 1, 1, 2, 2, 3])):
            kind = rng.choice(["add", "mul", "mul", "add", "sub"])
            r = rng.random()
            if r < 0.55:
                src = ["c", rng.choice([1, 2, 3, 2, 3, 5, -1, -2, 0] if kind == "mul" else [0, 1, 4, -3, 7])]
            elif r < 0.9:
                src = ["a", rng.randrange(N_ARGS)]
            else:
                src = ["in", rng.choice([2, 3])]
            chain.append({"kind": kind, "src": src, "pos": rng.randint(0, 1), "extra": rng.random() < 0.1})
        cases.append({"lb": rand_spec(rng, consts), "ub": rand_spec(rng, consts),
                      "step": rng.choice([["c", 1], ["c", 2], ["c", 3], ["a", 2]]),
                      "init": rand_spec(rng, consts), "init_more": rand_more(rng, kk), "n_iter": kk,
                      "chain": chain, "body": rand_body(rng, kk), "inputs": rand_inputs(rng, 4)})
    return cases


def folded_zero_multiplier(case, inp, folded):
    return any(l["kind"] == "mul" and link_c(l, inp) == 0 for l in case["chain"][:folded])


def fold_known(case, res):
    r = recall(case)
    if not r or not r[2] or not isinstance(res, list) or not res or not isinstance(res[0], list):
        return None
    folded = res[0][0]
    if all(folded_zero_multiplier(case, case["inputs"][i], folded) for i in r[2]):
        return "C16-kf-1"
    return None


def fold_nontrivial(case, res):
    if isinstance(res, list) and res and isinstance(res[0], list) and res[0][0] > 0:
        return ckey({k: v for k, v in case.items() if k != "inputs"})
    return None


# ============================================================================ family 3: scf-for-loop-flatten

def flat_text(case):
    t = Txt()
    olb, oub, ost, ilb, iub, ist = (t.ref(case[k]) for k in ("olb", "oub", "ostep", "ilb", "iub", "istep"))
    w, use = case["wiring"], case["use"]
    k = case_k(case)
    inits = [t.ref(sp) for sp in init_specs(case)]
    ko = 0 if w == "inner_only" else k          # loop-carried values of the outer / inner loop
    oas = [f"%oa{j}" for j in range(ko)]
    ias = [f"%ia{j}" for j in range(k)]
    for_open(t, "%r", "%o", olb, oub, ost, inits, oas)
    if case["perfect"] == "pre":
        t.emit(f"%pre = arith.addi {t.ref(['c', 1])}, {t.ref(['c', 0])} : index", 2)
    iin = list(oas) if ko else list(inits)
    if ko and w == "inner_init_other":
        iin[-1] = inits[-1]                       # one inner init is not the outer block argument
    if ko and w == "inner_init_swapped" and k >= 2:
        iin[0], iin[1] = iin[1], iin[0]           # outer arguments forwarded in a different order
    for_open(t, "%ri", "%i", ilb, iub, ist, iin, ias, 2)
    x = None
    if use in ("add", "add_extra"):
        t.emit("%x = arith.addi %o, %i : index", 3)
        x = "%x"
    elif use == "add_rev":
        t.emit("%x = arith.addi %i, %o : index", 3)
        x = "%x"
    elif use == "outer_only":
        x = "%o"
    elif use == "sub":
        t.emit("%x = arith.subi %o, %i : index", 3)
        x = "%x"
    if use == "add_extra":
        t.emit(f"%dead = arith.addi %o, {t.ref(['c', 0])} : index", 3)
    yield_line(t, body_lines(t, case["body"], x, ias, 3), 3)
    t.emit("}", 2)
    if case["perfect"] == "post":
        t.emit(f"%post = arith.addi {t.ref(['c', 1])}, {t.ref(['c', 0])} : index", 2)
    if ko:
        ys = res_names("%ri", k)
        if w == "yield_other":
            ys[-1] = oas[-1]
        if w == "yield_swapped" and k >= 2:
            ys[0], ys[1] = ys[1], ys[0]
        yield_line(t, ys, 2)
    t.emit("}")
    return finish(t, "%r", ko)


def flat_impl(case):
    m = parse(flat_text(case))
    before = m.clone()
    f = func_f(m)
    try:
        apply_pass(m, "scf-for-loop-flatten")
    except ZeroDivisionError:
        _CACHE.pop(ckey(case), None)
        return [[-1, 14] for _ in case["inputs"]]
    nfor = sum(1 for o in f.walk() if o.name == "scf.for")
    remember(case, before, m, case["inputs"])
    if nfor != 1:
        return [[0] for _ in case["inputs"]]
    out = []
    for inp in case["inputs"]:
        e = evaluate(m, inp)
        out.append([1, (e["loops"] or [[0, 0, 0]])[0], enc_eval(e)])
    return out


def coq_optZ(spec):
    return f"(Some {coq_Z(spec[1])})" if spec[0] == "c" else "None"


def flat_coq(case):
    use = {"none": "UNone", "add": "UAddBoth", "add_rev": "UAddBoth"}.get(case["use"], "UOther")
    body = coq_body(case["body"], case["use"] != "none", case_k(case))
    outs = []
    for inp in case["inputs"]:
        init = coq_inits(case, inp)
        outs.append(
            f"c16_flat {body} {coq_bool(case['perfect'] == 'yes')} {coq_bool(case['wiring'] == 'ok')} "
            f"{coq_Z(val(case['olb'], inp))} {coq_bool(case['olb'][0] == 'c')} {coq_Z(val(case['oub'], inp))} "
            f"{coq_bool(case['oub'][0] == 'c')} "
            f"{coq_optZ(case['ostep'])} {coq_optZ(case['ilb'])} {coq_optZ(case['iub'])} {coq_optZ(case['istep'])} "
            f"{use} {init}")
    return f"L {coq_list(outs)}"


def flat_cases(rng, n):
    cases = []
    for _ in range(n):
        use = rng.choice(["none", "none", "none", "add", "add", "add_rev", "outer_only", "add_extra", "sub"])
        n_iter = rand_k(rng)
        wiring = "ok"
        if n_iter and rng.random() < 0.2:
            wiring = rng.choice(["inner_init_other", "yield_other", "inner_only"]
                                + (["inner_init_swapped", "yield_swapped"] * 2 if n_iter >= 2 else []))
        ostep = rng.choice([["c", 1], ["c", 2], ["c", 3], ["c", 4], ["c", 6], ["a", 2]]) if rng.random() < 0.95 else ["c", 0]
        if use != "none" and rng.random() < 0.75 and ostep[0] == "c" and ostep[1] > 0:
            # bias towards the shape the pass fuses: inner 0 .. outer_step step K with K | outer_step
            divs = [k for k in (1, 2, 3, 4, 6) if ostep[1] % k == 0]
            ilb, iub, istep = ["c", 0], ["c", ostep[1]], ["c", rng.choice(divs)]
        else:
            ilb = rng.choice([["c", 0], ["c", 0], ["c", 1], ["c", 5], ["a", 3]])
            iub = rng.choice([["c", 0], ["c", 2], ["c", 4], ["c", 5], ["c", 6], ["c", 9], ["a", 3]])
            istep = rng.choice([["c", 1], ["c", 2], ["c", 3], ["c", 4], ["a", 2]]) if rng.random() < 0.95 else ["c", 0]
        body = rand_body(rng, n_iter)
        body["a"] = min(body["a"], 1)      # up to ~160 iterations: keep the accumulator far from 2^63
        olb = rng.choice([["c", 0], ["c", 0], ["c", 0], ["c", 1], ["a", 0], ["c", -2]])
        oub = rng.choice([["c", 3], ["c", 4], ["c", 6], ["c", 8], ["c", 9], ["a", 1], ["a", 1], ["c", -2], ["c", 0]])
        cases.append({"olb": olb, "oub": oub, "ostep": ostep, "ilb": ilb, "iub": iub, "istep": istep,
                      "init": rand_spec(rng, [0, 1, 3]), "init_more": rand_more(rng, n_iter), "use": use,
                      "n_iter": n_iter, "wiring": wiring,
                      "perfect": rng.choice(["yes"] * 8 + ["pre", "post"]), "body": body,
                      "inputs": rand_inputs(rng, 4)})
    return cases


def flat_known(case, res):
    """the flatten defects (C16-kf-2/3/6) are repaired in /repo (1ebef56, 51aee64): no failing flatten case is
    a known finding any more"""
    return None


def flat_nontrivial(case, res):
    if isinstance(res, list) and res and res[0] and res[0][0] == 1:
        return ckey({k: v for k, v in case.items() if k != "inputs"})
    return None


# ============================================================================ family 4: scf-for-loop-unroll

def unroll_text(case):
    t = Txt()
    lb, ub, st = (t.ref(case[k]) for k in ("lb", "ub", "step"))
    k = case_k(case)
    accs = [f"%acc{j}" for j in range(k)]
    for_open(t, "%r", "%iv", lb, ub, st, [t.ref(sp) for sp in init_specs(case)], accs)
    yield_line(t, body_lines(t, case["body"], "%iv", accs, 2), 2)
    t.emit("}")
    return finish(t, "%r", k)


@guarded
def unroll_impl(case):
    m = parse(unroll_text(case))
    before = m.clone()
    f = func_f(m)
    keep_alive = list(f.walk())              # erased ops must stay alive, or CPython may reuse their id()
    old = {id(o) for o in keep_alive}
    apply_pass(m, "scf-for-loop-unroll")
    fired = 0 if the_for(f) is not None else 1
    ivs = [o.value.value.data for o in f.body.blocks[0].ops if o.name == "arith.constant" and id(o) not in old]
    remember(case, before, m, case["inputs"])
    return [fired, ivs, [enc_eval(evaluate(m, inp)) for inp in case["inputs"]]]


def unroll_coq(case):
    fire = all(case[k][0] == "c" for k in ("lb", "ub", "step"))
    runs = []
    for inp in case["inputs"]:
        lb, ub, st = (val(case[k], inp) for k in ("lb", "ub", "step"))
        runs.append(f"({coq_Z(lb)}, {coq_Z(ub)}, {coq_Z(st)}, {coq_inits(case, inp)})")
    return f"c16_unroll {coq_bool(fire)} {coq_body(case['body'], True, case_k(case))} {coq_list(runs)}"


def unroll_cases(rng, n):
    cases = []
    for i in range(n):
        if i % 3 == 0:
            # constant bounds, >= 2 trips, 2-3 loop-carried values with distinct inits whose yield permutes /
            # rotates / mixes them: the unrolled code must realise the yield as a simultaneous assignment
            kk = rng.choice([2, 2, 3])
            body = rand_body(rng, kk)
            rot = rng.randint(1, kk - 1)
            body["sel"] = [(j + rot) % kk for j in range(kk)]
            if rng.random() < 0.4:
                body["sel"][rng.randrange(kk)] = -1
            if rng.random() < 0.3:
                body["sel"] = list(reversed(range(kk)))
            body["h"] = rng.choice([1, 2])
            lbv, stv = rng.choice([0, 1, -2]), rng.choice([1, 2, 3])
            inits = rng.sample([1, 2, 5, -3, 7, 11], kk)
            cases.append({"lb": ["c", lbv], "ub": ["c", lbv + stv * rng.randint(2, 5)], "step": ["c", stv],
                          "init": ["c", inits[0]], "init_more": [["c", v] for v in inits[1:]], "n_iter": kk,
                          "body": body, "inputs": rand_inputs(rng, 2)})
            continue
        allc = rng.random() < 0.8
        sp = (lambda cs: ["c", rng.choice(cs)]) if allc else (lambda cs: rand_spec(rng, cs, 0.5))
        step = sp([1, 1, 2, 3, 5, -1, -2]) if rng.random() < 0.93 else ["c", 0]
        kk = rand_k(rng)
        cases.append({"lb": sp([0, 0, 1, 4, -3, 9]), "ub": sp([0, 3, 6, 10, 17, -5, 1]), "step": step,
                      "init": rand_spec(rng, [0, 1, 2]), "init_more": rand_more(rng, kk), "n_iter": kk,
                      "body": rand_body(rng, kk), "inputs": rand_inputs(rng, 2)})
    return cases


def unroll_nontrivial(case, res):
    if isinstance(res, list) and len(res) == 3 and res[0] == 1 and res[1]:
        return ckey({k: v for k, v in case.items() if k != "inputs"})
    return None


# ============================================================================ family 5: licm

KINDS = ["addi", "subi", "muli", "divsi", "remsi", "floordivsi", "ceildivsi", "remui", "call"]
COQ_KIND = {"addi": "KAddi", "subi": "KSubi", "muli": "KMuli", "divsi": "KDivsi", "remsi": "KRemsi",
            "floordivsi": "KFloordivsi", "ceildivsi": "KCeildivsi", "remui": "KRemui", "call": "KCall"}
PURE_DIV = ("remsi", "floordivsi", "ceildivsi")


def licm_text(case):
    t = Txt()
    lb, ub, st, init = (t.ref(case[k]) for k in ("lb", "ub", "step", "init"))
    t.emit(f"%r = scf.for %iv = {lb} to {ub} step {st} iter_args(%acc = {init}) -> (index) {{")

    def r(ref):
        if ref[0] in ("a", "c"):
            return t.ref(ref)
        return {"iv": "%iv", "acc": "%acc"}.get(ref[0]) or f"%o{ref[1]}"
    last = "%iv"
    for j, o in enumerate(case["ops"]):
        if o["k"] == "call":
            t.emit(f"func.call @eff({r(o['a'])}) : (index) -> ()", 2)
        else:
            t.emit(f"%o{j} = arith.{o['k']} {r(o['a'])}, {r(o['b'])} : index", 2)
            last = f"%o{j}"
    for j, o in enumerate(case["ops"]):
        if o["k"] != "call":
            t.emit(f"func.call @eff(%o{j}) : (index) -> ()", 2)
    t.emit(f"%new = arith.addi %acc, {last} : index", 2)
    t.emit("scf.yield %new : index", 2)
    t.emit("}")
    return t.module("%r")


def licm_impl(case):
    m = parse(licm_text(case))
    before = m.clone()
    f = func_f(m)
    loop = the_for(f)
    ids = {}
    body_ops = [o for o in loop.regions[0].block.ops]
    for j in range(len(case["ops"])):
        ids[id(body_ops[j])] = j
    apply_pass(m, "licm")
    order = []
    for o in f.body.blocks[0].ops:
        if o is loop:
            break
        if id(o) in ids:
            order.append(ids[id(o)])
    stay = [ids[id(o)] for o in loop.regions[0].block.ops if id(o) in ids]
    remember(case, before, m, case["inputs"])
    return [order, stay]


def licm_coq(case):
    def oref(ref):
        if ref[0] in ("a", "c"):
            return "OOut"
        if ref[0] == "op":
            return f"(OOp {coq_nat(ref[1])})"
        return "OLoop"
    ops = []
    for o in case["ops"]:
        rc = f"(Some {coq_Z(o['b'][1])})" if o["b"][0] == "c" else "None"
        ops.append(f"mkBop {COQ_KIND[o['k']]} {oref(o['a'])} {oref(o['b'])} {rc}")
    return f"c16_licm {coq_list(ops)}"


def licm_cases(rng, n):
    cases = []
    for _ in range(n):
        ops = []
        for j in range(rng.randint(1, 6)):
            k = rng.choice(["addi", "muli", "subi", "addi", "muli", "divsi", "remsi", "floordivsi", "ceildivsi",
                            "remui", "call"])
            prev = [i for i, o in enumerate(ops) if o["k"] != "call"]

            def ref(p_loop=0.25):
                x = rng.random()
                if x < p_loop:
                    return [rng.choice(["iv", "acc"])]
                if x < 0.55 and prev:
                    return ["op", rng.choice(prev)]
                return ["a", rng.randrange(N_ARGS)] if rng.random() < 0.5 else ["c", rng.choice([1, 2, 3, 5, -1, 0, 4])]
            a = ref()
            if k in ("divsi", "remsi", "floordivsi", "ceildivsi", "remui"):
                b = ["a", rng.randrange(N_ARGS)] if rng.random() < 0.45 else ["c", rng.choice([1, 2, 3, 5, -1, 0, 4, 7])]
            else:
                b = ref()
            ops.append({"k": k, "a": a, "b": b})
        cases.append({"lb": rand_spec(rng, [0, 1, 3]), "ub": rand_spec(rng, [0, 2, 4, 6]),
                      "step": rng.choice([["c", 1], ["c", 2], ["a", 2]]), "init": rand_spec(rng, [0, 1]),
                      "ops": ops, "inputs": rand_inputs(rng, 5, -3, 6)})
    return cases


def licm_known(case, res):
    r = recall(case)
    if not r or not r[2] or not isinstance(res, list) or len(res) != 2:
        return None
    hoisted = res[0]
    for i in r[2]:
        inp = case["inputs"][i]
        if not any(case["ops"][j]["k"] in PURE_DIV and val(case["ops"][j]["b"], inp) == 0 for j in hoisted):
            return None
    return "C16-kf-4"


def licm_nontrivial(case, res):
    if isinstance(res, list) and len(res) == 2 and res[0]:
        return ckey({"ops": case["ops"]})
    return None


# ============================================================================ family 6: lower-affine (affine.apply)

AFF_OPS = {"add": "Add", "mul": "Mul", "mod": "Mod", "floordiv": "FloorDiv", "ceildiv": "CeilDiv"}


def aff_expr(e, api=False):
    """direct construction (no simplification) or, with api=True, through AffineExpr's own operators
    (`-`, `+`, `*`, `//`, `%`), i.e. whatever structure xDSL's simplification produces"""
    from xdsl.ir.affine import (AffineBinaryOpExpr, AffineBinaryOpKind, AffineConstantExpr, AffineDimExpr,
                                AffineExpr, AffineSymExpr)
    if e[0] == "c":
        return AffineExpr.constant(e[1]) if api else AffineConstantExpr(e[1])
    if e[0] == "d":
        return AffineExpr.dimension(e[1]) if api else AffineDimExpr(e[1])
    if e[0] == "s":
        return AffineExpr.symbol(e[1]) if api else AffineSymExpr(e[1])
    if api:
        if e[0] == "neg":
            return -aff_expr(e[1], True)
        a, b = aff_expr(e[1], True), aff_expr(e[2], True)
        if e[0] == "add":
            return a + b
        if e[0] == "sub":
            return a - b
        if e[0] == "mul":
            return a * b
        if e[0] == "mod":
            return a % b
        if e[0] == "floordiv":
            return a // b
        return a.ceil_div(b)
    return AffineBinaryOpExpr(getattr(AffineBinaryOpKind, AFF_OPS[e[0]]), aff_expr(e[1]), aff_expr(e[2]))


def aff_struct(x):
    """AffineExpr object -> nested-list description (the structure the lowering will see)"""
    k = type(x).__name__
    if k == "AffineConstantExpr":
        return ["c", x.value]
    if k == "AffineDimExpr":
        return ["d", x.position]
    if k == "AffineSymExpr":
        return ["s", x.position]
    name = {v: kk for kk, v in AFF_OPS.items()}[x.kind.name]
    return [name, aff_struct(x.lhs), aff_struct(x.rhs)]


def case_expr(case):
    """the expression tree actually present in the IR (after xDSL's simplification for api cases)"""
    if case.get("api"):
        return aff_struct(aff_expr(case["expr"], True))
    return case["expr"]


def aff_module(case):
    from xdsl.dialects import affine, func
    from xdsl.dialects.builtin import AffineMapAttr, IndexType, ModuleOp
    from xdsl.ir import Block, Region
    from xdsl.ir.affine import AffineMap
    nd, ns = case["nd"], case["ns"]
    idx = IndexType()
    block = Block(arg_types=[idx] * N_ARGS)
    ap = affine.ApplyOp(block.args[:nd + ns],
                        AffineMapAttr(AffineMap(nd, ns, (aff_expr(case["expr"], bool(case.get("api"))),))))
    block.add_ops([ap, func.ReturnOp(ap.result)])
    f = func.FuncOp("f", ([idx] * N_ARGS, [idx]), Region(block))
    m = ModuleOp([f])
    m.verify()
    return m


AFF_CODE = {"arith.constant": 0, "arith.addi": 1, "arith.muli": 2, "arith.remsi": 3, "arith.floordivsi": 4,
            "arith.ceildivsi": 5}


@guarded
def aff_impl(case):
    m = aff_module(case)
    before = m.clone()
    apply_pass(m, "lower-affine")
    f = func_f(m)
    codes = [AFF_CODE.get(o.name, -9) for o in f.body.blocks[0].ops if o.name != "func.return"]
    remember(case, before, m, case["inputs"])
    return [codes, [enc_eval(evaluate(m, inp)) for inp in case["inputs"]]]


def coq_aexpr(e):
    if e[0] == "c":
        return f"(AConst {coq_Z(e[1])})"
    if e[0] == "d":
        return f"(ADim {coq_nat(e[1])})"
    if e[0] == "s":
        return f"(ASym {coq_nat(e[1])})"
    k = {"add": "AAdd", "mul": "AMul", "mod": "AMod", "floordiv": "AFloorDiv", "ceildiv": "ACeilDiv"}[e[0]]
    return f"({k} {coq_aexpr(e[1])} {coq_aexpr(e[2])})"


def aff_coq(case):
    nd = case["nd"]
    runs = [f"({coq_Zs(inp[:nd])}, {coq_Zs(inp[nd:nd + case['ns']])})" for inp in case["inputs"]]
    return f"c16_affine {coq_aexpr(case_expr(case))} {coq_list(runs)}"


def aff_cases(rng, n):
    cases = []
    for i in range(n):
        nd = rng.randint(1, 3)
        ns = rng.randint(0, min(2, N_ARGS - nd))

        def leaf():
            x = rng.random()
            if x < 0.45:
                return ["d", rng.randrange(nd)]
            if x < 0.6 and ns:
                return ["s", rng.randrange(ns)]
            return ["c", rng.choice([0, 1, 2, 3, 4, 7, -1, -5])]

        def term(d=1):
            return leaf() if d == 0 or rng.random() < 0.5 else ["mul", leaf(), ["c", rng.choice([2, 3, 5])]]

        if i % 3 == 1:
            # subtractions / negations written through AffineExpr's operators, in BOTH operand orders,
            # constants on the left, reverse indexing (7 - d0, N-1-i), (d0-d1)*3 - (d2-d0)
            def sgen(d):
                if d == 0 or rng.random() < 0.2:
                    return leaf()
                k = rng.choice(["sub", "sub", "neg", "add", "mul"])
                if k == "neg":
                    return ["add", ["neg", sgen(d - 1)], sgen(d - 1)] if rng.random() < 0.7 else ["neg", sgen(d - 1)]
                if k == "mul":
                    return ["mul", sgen(d - 1), ["c", rng.choice([2, 3, -1, -2])]]
                if k == "sub" and rng.random() < 0.35:
                    return ["sub", ["c", rng.choice([7, 15, 1, 0])], sgen(d - 1)]
                return [k, sgen(d - 1), sgen(d - 1)]
            cases.append({"nd": nd, "ns": ns, "api": True, "expr": sgen(rng.randint(1, 3)),
                          "inputs": rand_inputs(rng, 5, -9, 20)})
            continue
        if i % 3 == 2:
            # the same shapes built directly: a negated term as LEFT or RIGHT addend of an add
            neg = ["mul", term(), ["c", -1]]
            other = rng.choice([term(), ["c", rng.choice([7, 15, -2])], ["add", term(), term()]])
            e = ["add", neg, other] if rng.random() < 0.6 else ["add", other, neg]
            if rng.random() < 0.4:
                e = rng.choice([["mul", e, ["c", 3]], ["add", e, ["mul", term(), ["c", -1]]],
                                ["add", ["mul", term(), ["c", -1]], e], ["floordiv", e, ["c", 2]]])
            cases.append({"nd": nd, "ns": ns, "expr": e, "inputs": rand_inputs(rng, 5, -9, 20)})
            continue

        def gen(d):
            if d == 0 or rng.random() < 0.25:
                return leaf()
            k = rng.choice(["add", "add", "mul", "mod", "mod", "floordiv", "ceildiv"])
            if k in ("mod", "floordiv", "ceildiv"):
                rhs = ["c", rng.choice([1, 2, 3, 4, 8])] if (rng.random() < 0.85 or not ns) else ["s", rng.randrange(ns)]
                return [k, gen(d - 1), rhs]
            if k == "mul":
                return [k, gen(d - 1), ["c", rng.choice([2, 3, -1, 0, 5])]]
            return [k, gen(d - 1), gen(d - 1)]
        cases.append({"nd": nd, "ns": ns, "expr": gen(rng.randint(1, 3)), "inputs": rand_inputs(rng, 5, -9, 20)})
    return cases


def aff_neg_mod(e, dims, syms):
    """(value, saw a mod with negative dividend) under affine semantics; value None = division by zero"""
    if e[0] == "c":
        return e[1], False
    if e[0] == "d":
        return dims[e[1]], False
    if e[0] == "s":
        return syms[e[1]], False
    a, fa = aff_neg_mod(e[1], dims, syms)
    b, fb = aff_neg_mod(e[2], dims, syms)
    if a is None or b is None:
        return None, fa or fb
    if e[0] == "add":
        return a + b, fa or fb
    if e[0] == "mul":
        return a * b, fa or fb
    if b == 0:
        return None, fa or fb
    if e[0] == "mod":
        return (a % b if b > 0 else None), fa or fb or a < 0
    return (a // b if e[0] == "floordiv" else -((-a) // b)), fa or fb


def aff_known(case, res):
    r = recall(case)
    if not r or not r[2]:
        return None
    nd = case["nd"]
    for i in r[2]:
        inp = case["inputs"][i]
        if not aff_neg_mod(case_expr(case), inp[:nd], inp[nd:nd + case["ns"]])[1]:
            return None
    return "C16-kf-5"


def aff_nontrivial(case, res):
    if isinstance(res, list) and len(res) == 2 and len(res[0]) >= 2:
        return ckey({"e": case["expr"], "api": bool(case.get("api"))})
    return None


# ---------------------------------------------------------------------------- lower-affine: for / load / store (oracle only)

def affmem_module(case):
    """%m = alloc memref<16xindex>; fill with -1; affine.for i = 0 to N step s { store (i*p + a0*q) -> m[st(i, a1)] };
    x = load m[ld(a2, a3)]; eff(x); dump every cell through @eff; return x"""
    from xdsl.dialects import affine, arith, func, memref
    from xdsl.dialects.builtin import AffineMapAttr, IndexType, IntegerAttr, ModuleOp
    from xdsl.ir import Block, Region
    from xdsl.ir.affine import AffineMap
    idx = IndexType()
    api = bool(case.get("api"))

    def amap(e):
        return AffineMapAttr(AffineMap(2, 0, (aff_expr(e, api),)))

    def const(v):
        return arith.ConstantOp(IntegerAttr.from_index_int_value(v))
    entry = Block(arg_types=[idx] * N_ARGS)
    a0, a1, a2, a3 = entry.args
    alloc = memref.AllocOp.get(idx, shape=[16])
    cm1, cp, cq = const(-1), const(case["p"]), const(case["q"])
    b0 = Block(arg_types=[idx])
    b0.add_ops([affine.StoreOp(cm1.result, alloc.memref, [b0.args[0]]), affine.YieldOp.get()])
    fill = affine.ForOp.from_region([], [], [], [], 0, 16, Region(b0))
    b1 = Block(arg_types=[idx])
    v1 = arith.MuliOp(b1.args[0], cp.result)
    v2 = arith.MuliOp(a0, cq.result)
    v = arith.AddiOp(v1.result, v2.result)
    b1.add_ops([v1, v2, v, affine.StoreOp(v.result, alloc.memref, [b1.args[0], a1], amap(case["st"])),
                affine.YieldOp.get()])
    lbs = case.get("lbs") or [["c", case["lo"]]]
    ubs = case.get("ubs") or [["c", case["N"]]]

    def bmap(es):
        nd = 1 if any("d" in json.dumps(e) for e in es) else 0
        return AffineMapAttr(AffineMap(nd, 0, tuple(aff_expr(e) for e in es))), nd
    (lbm, lnd), (ubm, und) = bmap(lbs), bmap(ubs)
    main = affine.ForOp.from_region([a0] * lnd, [a0] * und, [], [], lbm, ubm, Region(b1), case["step"])
    ld = affine.LoadOp(alloc.memref, [a2, a3], amap(case["ld"]))
    call = func.CallOp("eff", [ld.result], [])
    b2 = Block(arg_types=[idx])
    l2 = affine.LoadOp(alloc.memref, [b2.args[0]])
    b2.add_ops([l2, func.CallOp("eff", [l2.result], []), affine.YieldOp.get()])
    dump = affine.ForOp.from_region([], [], [], [], 0, 16, Region(b2))
    entry.add_ops([alloc, cm1, cp, cq, fill, main, ld, call, dump, func.ReturnOp(ld.result)])
    m = ModuleOp([func.FuncOp.external("eff", [idx], []), func.FuncOp("f", ([idx] * N_ARGS, [idx]), Region(entry))])
    m.verify()
    return m


@guarded
def affmem_impl(case):
    m = affmem_module(case)
    before = m.clone()
    f = func_f(m)
    keep_alive = list(m.walk())              # erased ops must stay alive, or CPython may reuse their id()
    old_ids = {id(o) for o in keep_alive}
    apply_pass(m, "lower-affine")
    left = sum(1 for o in m.walk() if o.name.startswith("affine."))
    loops = [o for o in f.body.blocks[0].ops if o.name == "scf.for"]
    st_codes = [AFF_CODE.get(o.name, -9) for o in loops[1].regions[0].block.ops
                if id(o) not in old_ids and not o.name.startswith("memref.") and o.name != "scf.yield"] \
        if len(loops) == 3 else [-9]
    ld_codes, seen_main = [], False
    for o in f.body.blocks[0].ops:
        if len(loops) == 3 and o is loops[1]:
            seen_main = True
        elif seen_main and o.name == "memref.load":
            break
        elif seen_main and id(o) not in old_ids:
            ld_codes.append(AFF_CODE.get(o.name, -9))
    remember(case, before, m, case["inputs"])
    runs = []
    rng3 = None
    for inp in case["inputs"]:
        e = evaluate(m, inp)
        if rng3 is None and len(e["loops"]) >= 2:
            rng3 = e["loops"][1]
        runs.append([0, e["mem"]] if e["status"] == "ok" else [1])
    if left:
        return [-9, left]
    return [rng3 or [0, 0, 0], st_codes, ld_codes, runs]


def affmem_coq(case):
    lbs = case.get("lbs") or [["c", case["lo"]]]
    ubs = case.get("ubs") or [["c", case["N"]]]
    st, ld = (aff_struct(aff_expr(case[k], True)) if case.get("api") else case[k] for k in ("st", "ld"))
    runs = [f"({coq_Z(i[1])}, {coq_Z(i[2])}, {coq_Z(i[3])})" for i in case["inputs"]]
    return (f"c16_affmem {coq_list(coq_aexpr(e) for e in lbs)} {coq_list(coq_aexpr(e) for e in ubs)} "
            f"{coq_Z(case['step'])} {coq_aexpr(st)} {coq_aexpr(ld)} {coq_list(runs)}")


def affmem_cases(rng, n):
    cases = []
    for _ in range(n):
        api = rng.random() < 0.6

        def rev(i, o):          # index expressions over d0 = i (or a2), d1 = a1 (or a3), mostly in 0..15
            c = rng.choice([7, 9, 12, 15])
            forms = [["sub", ["c", c], i], ["sub", o, i], ["add", ["neg", i], o], ["add", ["neg", i], ["c", c]],
                     ["sub", ["sub", ["c", c], ["c", 1]], i], ["add", i, o], ["add", i, ["c", rng.choice([0, 1, 4])]],
                     ["sub", ["add", o, ["c", 3]], i], ["add", ["mul", i, ["c", -1]], o]]
            e = rng.choice(forms)
            return e

        def direct(e):          # the same expression in the direct (operator-free) description
            if e[0] == "sub":
                return ["add", direct(e[1]), ["mul", direct(e[2]), ["c", -1]]]
            if e[0] == "neg":
                return ["mul", direct(e[1]), ["c", -1]]
            if e[0] in ("c", "d", "s"):
                return e
            return [e[0], direct(e[1]), direct(e[2])]
        st, ld = rev(["d", 0], ["d", 1]), rev(["d", 0], ["d", 1])
        if not api:
            st, ld = direct(st), direct(ld)
        inputs = [[rng.randint(0, 3), rng.randint(4, 12), rng.randint(0, 9), rng.randint(4, 15)] for _ in range(4)]
        inputs.append([rng.randint(-2, 3), rng.randint(-3, 15), rng.randint(-3, 15), rng.randint(-3, 15)])
        c = {"api": api, "st": st, "ld": ld, "lo": rng.choice([0, 0, 1]), "N": rng.randint(3, 7),
             "step": rng.choice([1, 1, 2]), "p": rng.choice([1, 3, 5]), "q": rng.choice([0, 1, 2]), "inputs": inputs}
        x = rng.random()
        if x < 0.25:        # bounds given by closed constant EXPRESSIONS
            c["lbs"] = [rng.choice([["add", ["c", 0], ["c", c["lo"]]], ["mul", ["c", c["lo"]], ["c", 1]]])]
            c["ubs"] = [rng.choice([["add", ["c", 2], ["c", c["N"] - 2]], ["floordiv", ["c", 2 * c["N"] + 1], ["c", 2]],
                                    ["mod", ["c", c["N"] + 16], ["c", 16]], ["ceildiv", ["c", 3 * c["N"] - 2], ["c", 3]]])]
        elif x < 0.32:      # max/min bounds (several map results): the pass asserts
            c["lbs"] = [["c", c["lo"]], ["c", 0]]
        elif x < 0.38:
            c["ubs"] = [["c", c["N"]], ["c", 9]]
        elif x < 0.45:      # a bound that depends on an operand: the pass lowers bounds without operands
            c["ubs"] = [["add", ["d", 0], ["c", c["N"]]]]
        cases.append(c)
    return cases


def affmem_nontrivial(case, res):
    ok = isinstance(res, list) and len(res) == 4 and any(r[0] == 0 for r in res[3])
    return ckey({k: v for k, v in case.items() if k != "inputs"}) if ok else None


# ============================================================================ family: scf.index_switch lowering

def switch_text(case):
    t = Txt()
    nres = case["n_res"]
    init = t.ref(case["init"])
    head = f"%r = scf.index_switch %a0 -> index" if nres else "scf.index_switch %a0"
    t.emit(head)
    regs = [(f"case {c} {{", b, x) for c, b, x in zip(case["cases"], case["bodies"], case["xs"])]
    regs.append(("default {", case["bodies"][-1], case["xs"][-1]))
    for hd, b, x in regs:
        t.emit(hd)
        ys = body_lines(t, b, t.ref(["c", x]), [init] if nres else [], 2)
        if nres:
            t.emit(f"scf.yield {ys[0]} : index", 2)
        else:
            t.emit("scf.yield", 2)
        t.emit("}")
    return t.module("%r" if nres else t.ref(["c", 0]))


def switch_readback(f, marks, arg):
    blocks = list(f.body.blocks)
    idx = {id(b): i for i, b in enumerate(blocks)}
    out = []
    for b in blocks:
        ops = list(b.ops)
        term, rest = ops[-1], ops[:-1]
        kinds = {marks.get(id(o)) for o in rest} - {None}
        pay = kinds.pop() if len(kinds) == 1 else (-1 if not kinds else -9)
        unmarked = [o for o in rest if id(o) not in marks]
        if term.name == "cf.switch":
            fl = term.operands[0]
            ok = (getattr(fl.owner, "name", "") == "arith.index_cast" and fl.owner.operands[0] is arg
                  and _width(fl.type) == 32 and len(term.operands) == 1)
            unmarked = [o for o in unmarked if o is not fl.owner]
            cvals = [] if term.case_values is None else list(term.case_values.iter_values())
            row = [pay, 0 if ok else -9, idx[id(term.successors[0])],
                   [[c, idx[id(sb)]] for c, sb in zip(cvals, term.successors[1:])]]
        elif term.name == "cf.br":
            row = [pay, 1, idx[id(term.successors[0])]]
        elif term.name == "func.return":
            row = [pay, 2]
        else:
            row = [pay, -9]
        if any(o.name != "arith.constant" for o in unmarked):
            row[0] = -9
        out.append(row)
    return out


@guarded
def switch_impl(case):
    m = parse(switch_text(case))
    before = m.clone()
    f = func_f(m)
    marks, arg = {}, None
    for op in f.walk():
        if op.name == "scf.index_switch":
            arg = op.operands[0]
            regs = list(op.regions[1:]) + [op.regions[0]]          # cases in order, then default
            for i, reg in enumerate(regs):
                for o in reg.block.ops:
                    if o.name != "scf.yield":
                        marks[id(o)] = i
    apply_pass(m, "convert-scf-to-cf")
    remember(case, before, m, case["inputs"])
    return [switch_readback(f, marks, arg), [enc_eval(evaluate(m, inp)) for inp in case["inputs"]]]


def switch_coq(case):
    k = 1 if case["n_res"] else 0
    fs = [f"({coq_body(b, True, k)} {coq_Z(x)})" for b, x in zip(case["bodies"], case["xs"])]
    runs = [f"({coq_Z(inp[0])}, {coq_Zs([val(case['init'], inp)] if k else [])})" for inp in case["inputs"]]
    return f"c16_switch {coq_Zs(case['cases'])} {coq_list(fs)} {coq_list(runs)}"


def switch_cases(rng, n):
    out = []
    for _ in range(n):
        nc = rng.randint(0, 4)
        cases = rng.sample([0, 1, 2, 3, 5, 7, 10, 4096], nc)
        k = rng.choice([0, 1, 1])
        inputs = rand_inputs(rng, 3, -2, 11)
        for c in cases[:2]:
            inputs.append([c, rng.randint(0, 5), rng.randint(0, 5), rng.randint(0, 5)])
        if rng.random() < 0.25 and cases:      # an index that does not survive the cast to i32
            inputs.append([rng.choice(cases) + (1 << 32) * rng.choice([1, -1, 2]), 0, 0, 0])
        out.append({"cases": cases, "n_res": k, "init": rand_spec(rng, [0, 1, 3]),
                    "bodies": [rand_body(rng, k) for _ in range(nc + 1)],
                    "xs": [rng.randint(-2, 6) for _ in range(nc + 1)], "inputs": inputs})
    return out


def trunc32(z):
    return _wrapw(z, 32)


def switch_known(case, res):
    r = recall(case)
    if not r or not r[2]:
        return None
    return "C16-kf-7" if all(trunc32(case["inputs"][i][0]) != case["inputs"][i][0] for i in r[2]) else None


def switch_nontrivial(case, res):
    return ckey({"c": case["cases"], "k": case["n_res"]}) if case["cases"] else None


# ============================================================================ family: control-flow-hoist

def cfh_text(case):
    t = Txt()

    def r(ref, pre):
        return t.ref(ref) if ref[0] in ("a", "c") else f"%{pre}{ref[1]}"
    t.emit("%cond = arith.cmpi slt, %a0, %a1 : index")
    t.emit("%r = scf.if %cond -> (index) {")
    for pre, ops, dflt in (("t", case["then"], ["a", 2]), ("e", case["else"], ["a", 3])):
        last = t.ref(dflt)
        for j, o in enumerate(ops):
            if o["k"] == "call":
                t.emit(f"func.call @eff({r(o['a'], pre)}) : (index) -> ()", 2)
            else:
                t.emit(f"%{pre}{j} = arith.{o['k']} {r(o['a'], pre)}, {r(o['b'], pre)} : index", 2)
                last = f"%{pre}{j}"
        t.emit(f"scf.yield {last} : index", 2)
        if pre == "t":
            t.emit("} else {")
    t.emit("}")
    t.emit("func.call @eff(%r) : (index) -> ()")
    return t.module("%r")


def cfh_module_affine(case):
    """the same program as cfh_text with an affine.if on the set (d0, d1) : (d1 - d0 - 1 >= 0), i.e. a0 < a1"""
    from xdsl.dialects import affine, arith, func
    from xdsl.dialects.builtin import AffineSetAttr, IndexType, IntegerAttr, ModuleOp
    from xdsl.ir import Block, Region
    from xdsl.ir.affine import AffineConstraintExpr, AffineConstraintKind, AffineExpr, AffineSet
    idx = IndexType()
    entry = Block(arg_types=[idx] * N_ARGS)
    consts = {}

    def cst(k):
        if k not in consts:
            consts[k] = arith.ConstantOp(IntegerAttr.from_index_int_value(k))
        return consts[k].result
    cls = {"addi": arith.AddiOp, "subi": arith.SubiOp, "muli": arith.MuliOp, "divsi": arith.DivSIOp,
           "remsi": arith.RemSIOp, "floordivsi": arith.FloorDivSIOp, "ceildivsi": arith.CeilDivSIOp,
           "remui": arith.RemUIOp}
    regions = []
    for ops, dflt in ((case["then"], 2), (case["else"], 3)):
        blk, res, last = Block(), {}, entry.args[dflt]

        def r(ref):
            return entry.args[ref[1]] if ref[0] == "a" else cst(ref[1]) if ref[0] == "c" else res[ref[1]]
        for j, o in enumerate(ops):
            if o["k"] == "call":
                blk.add_op(func.CallOp("eff", [r(o["a"])], []))
            else:
                op = cls[o["k"]](r(o["a"]), r(o["b"]))
                blk.add_op(op)
                res[j] = last = op.results[0]
        blk.add_op(affine.YieldOp.get(last))
        regions.append(Region(blk))
    d0, d1 = AffineExpr.dimension(0), AffineExpr.dimension(1)
    cond = AffineSetAttr(AffineSet(2, 0, (AffineConstraintExpr(AffineConstraintKind.ge, d1 - d0 - 1,
                                                               AffineExpr.constant(0)),)))
    ifop = affine.IfOp.build(operands=[[entry.args[0], entry.args[1]]], result_types=[[idx]],
                             properties={"condition": cond}, regions=regions)
    entry.add_ops([c.owner for c in (consts[k].result for k in sorted(consts))])
    entry.add_ops([ifop, func.CallOp("eff", [ifop.results[0]], []), func.ReturnOp(ifop.results[0])])
    m = ModuleOp([func.FuncOp.external("eff", [idx], []), func.FuncOp("f", ([idx] * N_ARGS, [idx]), Region(entry))])
    m.verify()
    return m


def cfh_impl(case):
    m = cfh_module_affine(case) if case.get("affine") else parse(cfh_text(case))
    before = m.clone()
    f = func_f(m)
    apply_pass(m, "control-flow-hoist")
    ifop = next(o for o in f.walk() if o.name in ("scf.if", "affine.if"))
    left = sum(1 for reg in ifop.regions for o in reg.block.ops if o.name not in ("scf.yield", "affine.yield"))
    codes = []
    for o in f.body.blocks[0].ops:
        if o is ifop:
            break
        if o.name.startswith("arith.") and o.name not in ("arith.constant", "arith.cmpi"):
            codes.append(KINDS.index(o.name[6:]))
    remember(case, before, m, case["inputs"])
    fired = 1 if (left == 0 and (case["then"] or case["else"])) else 0
    return [fired, codes if fired else []]


def cfh_coq(case):
    def enc(ops):
        return coq_list(f"({COQ_KIND[o['k']]}, " + (f"Some {coq_Z(o['b'][1])}" if o["b"][0] == "c" else "None") + ")"
                        for o in ops)
    if not case["then"] and not case["else"]:
        return "L [I 0; L []]"
    return f"c16_cfh {enc(case['then'])} {enc(case['else'])}"


def cfh_cases(rng, n):
    out = []
    for _ in range(n):
        seen = set()

        def branch():
            ops = []
            for _ in range(rng.randint(0, 3)):
                for _try in range(20):
                    k = rng.choice(["addi", "muli", "subi", "addi", "muli", "divsi", "remsi", "floordivsi",
                                    "ceildivsi"] + (["remui", "call"] if rng.random() < 0.25 else []))
                    prev = [i for i, o in enumerate(ops) if o["k"] != "call"]
                    # every op feeds the next one (and the last one the yield): nothing is trivially dead, so the
                    # rewrite driver's dead-code removal (not modelled) has nothing to erase
                    a = ["op", prev[-1]] if prev else \
                        (["a", rng.randrange(N_ARGS)] if rng.random() < 0.6 else ["c", rng.choice([1, 2, 3, 5, -1, 4])])
                    if k in ("divsi", "remsi", "floordivsi", "ceildivsi", "remui"):
                        b = ["a", rng.randrange(N_ARGS)] if rng.random() < 0.4 else ["c", rng.choice([1, 2, 3, 5, 0, 4, 7])]
                    else:
                        b = ["a", rng.randrange(N_ARGS)] if rng.random() < 0.6 else ["c", rng.choice([1, 2, 3, 5, -1, 4])]
                    # CSE (not modelled) runs after the hoist: keep all ops structurally distinct
                    key = (k, tuple(a) if a[0] != "op" else ("op", len(ops), a[1]), tuple(b))
                    if a[0] == "op" or key not in seen:
                        seen.add(key)
                        ops.append({"k": k, "a": a, "b": b})
                        break
            return ops
        # both branch directions with zero divisors among the arguments (the op of the branch NOT taken must not trap)
        zs = [[0, 1, rng.randint(0, 4), 0], [1, 0, 0, rng.randint(0, 4)], [0, 1, 0, 0], [2, 1, 0, 0]]
        out.append({"then": branch(), "else": branch(), "affine": rng.random() < 0.35,
                    "inputs": rand_inputs(rng, 3, -3, 6) + zs})
    return out


def cfh_known(case, res):
    r = recall(case)
    if not r or not r[2] or not isinstance(res, list) or res[0] != 1:
        return None
    for i in r[2]:
        inp = case["inputs"][i]
        if not any(o["k"] in PURE_DIV and val(o["b"], inp) == 0 for o in case["then"] + case["else"]):
            return None
    return "C16-kf-8"


def cfh_nontrivial(case, res):
    return (ckey({"t": case["then"], "e": case["else"], "aff": bool(case.get("affine"))})
            if isinstance(res, list) and res[0] == 1 else None)


# ============================================================================ family: frontend-desymrefy (single block)

def desym_text(case):
    """ops: ["decl", s] | ["upd", s, v] | ["fetch", s, r] | ["use", id, v1, v2]; v = ["k", c] | ["a", i] | ["f", r] | ["u", id];
    the function returns the last use (or 0)"""
    t = Txt(eff_defined=True)

    def v(x):
        if x[0] == "k":
            return t.ref(["c", x[1]])
        if x[0] == "a":
            return f"%a{x[1]}"
        return f"%f{x[1]}" if x[0] == "f" else f"%u{x[1]}"
    last = t.ref(["c", 0])
    for o in case["ops"]:
        if o[0] == "decl":
            t.emit(f'symref.declare "s{o[1]}"')
        elif o[0] == "upd":
            t.emit(f"symref.update @s{o[1]} = {v(o[2])} : index")
        elif o[0] == "fetch":
            t.emit(f"%f{o[2]} = symref.fetch @s{o[1]} : index")
        else:
            t.emit(f"%u{o[1]} = arith.addi {v(o[2])}, {v(o[3])} : index")
            t.emit(f"func.call @eff(%u{o[1]}) : (index) -> ()")
            last = f"%u{o[1]}"
    return t.module(last)


def sval_code(x):
    """sval of the model: VOut n with constants 1000+c, arguments 2000+i, use results id; VFetch r"""
    if x[0] == "k":
        return [0, 1000 + x[1]]
    if x[0] == "a":
        return [0, 2000 + x[1]]
    return [1, x[1]] if x[0] == "f" else [0, x[1]]


def desym_impl(case):
    m = parse(desym_text(case))
    before = m.clone()
    f = func_f(m)
    names = {}
    for a in f.body.blocks[0].args:
        names[a] = [0, 2000 + a.index]
    for o in f.body.blocks[0].ops:
        if o.name == "arith.constant":
            names[o.results[0]] = [0, 1000 + o.value.value.data]
        elif o.name == "symref.fetch":
            names[o.results[0]] = [1, int(o.results[0].name_hint[1:])]
        elif o.name == "arith.addi":
            names[o.results[0]] = [0, int(o.results[0].name_hint[1:])]
    try:
        apply_pass(m, "frontend-desymrefy")
    except Exception as e:  # noqa: BLE001  (FrontendProgramException)
        _CACHE.pop(ckey(case), None)
        return [-1, exc_code(e)]
    out = []
    for o in f.body.blocks[0].ops:
        if o.name == "symref.declare":
            out.append([0, int(o.sym_name.data[1:])])
        elif o.name == "symref.update":
            out.append([1, int(o.symbol.root_reference.data[1:]), names[o.operands[0]]])
        elif o.name == "symref.fetch":
            out.append([2, int(o.symbol.root_reference.data[1:]), names[o.results[0]][1]])
        elif o.name == "arith.addi":
            out.append([3, names[o.results[0]][1], [names[x] for x in o.operands]])
    remember(case, before, m, case["inputs"])
    return [out, out, 1, 1, 1]


def desym_coq(case):
    def sv(x):
        c = sval_code(x)
        return f"(VOut {coq_nat(c[1])})" if c[0] == 0 else f"(VFetch {coq_nat(c[1])})"
    ops = []
    for o in case["ops"]:
        if o[0] == "decl":
            ops.append(f"SDeclare {coq_nat(o[1])}")
        elif o[0] == "upd":
            ops.append(f"SUpdate {coq_nat(o[1])} {sv(o[2])}")
        elif o[0] == "fetch":
            ops.append(f"SFetch {coq_nat(o[1])} {coq_nat(o[2])}")
        else:
            ops.append(f"SUse {coq_nat(o[1])} [{sv(o[2])}; {sv(o[3])}]")
    return f"c16_desym {coq_list(ops)}"


def desym_cases(rng, n):
    out = []
    for _ in range(n):
        nsym = rng.randint(1, 3)
        ops, vals, init, nf, nu = [], [["k", 0], ["k", 3], ["a", 0], ["a", 1]], set(), 0, 0
        declared = [s for s in range(nsym) if rng.random() < 0.65]      # the others live in an enclosing scope
        for s in declared:
            ops.append(["decl", s])
        for _ in range(rng.randint(2, 10)):
            x = rng.random()
            s = rng.randrange(nsym)
            if x < 0.4 or (s in declared and s not in init):
                ops.append(["upd", s, rng.choice(vals)])
                init.add(s)
            elif x < 0.75:
                ops.append(["fetch", s, nf])
                vals.append(["f", nf])
                nf += 1
            else:
                ops.append(["use", nu, rng.choice(vals), rng.choice(vals)])
                vals.append(["u", nu])
                nu += 1
        fetched = [v for v in vals if v[0] == "f"]
        if fetched:
            ops.append(["use", nu, fetched[-1], rng.choice(vals)])
        out.append({"ops": ops, "inputs": rand_inputs(rng, 2, -3, 6)})
    return out


def desym_nontrivial(case, res):
    return ckey(case["ops"]) if any(o[0] == "fetch" for o in case["ops"]) else None


# ---------------------------------------------------------------------------- desymref with nested regions (oracle only)

def desymn_text(case):
    t = Txt(eff_defined=True)
    t.emit('symref.declare "a"')
    t.emit(f"symref.update @a = {t.ref(case['init'])} : index")
    if case["kind"] == "for":
        t.emit(f"scf.for %i = {t.ref(['c', 0])} to {t.ref(case['n'])} step {t.ref(['c', 1])} {{")
    else:
        t.emit("%cond = arith.cmpi slt, %a0, %a1 : index")
        t.emit("scf.if %cond {")
    t.emit("%t1 = symref.fetch @a : index", 2)
    t.emit(f"%t2 = arith.addi %t1, {t.ref(['c', case['inc']])} : index", 2)
    t.emit("symref.update @a = %t2 : index", 2)
    t.emit("}")
    if case["read_after"]:
        t.emit("%t3 = symref.fetch @a : index")
        t.emit("func.call @eff(%t3) : (index) -> ()")
        return t.module("%t3")
    return t.module(t.ref(["c", 0]))


def desymn_impl(case):
    m = parse(desymn_text(case))
    before = m.clone()
    try:
        apply_pass(m, "frontend-desymrefy")
    except Exception as e:  # noqa: BLE001
        _CACHE.pop(ckey(case), None)
        return [-1, exc_code(e)]
    left = sum(1 for o in m.walk() if o.name.startswith("symref."))
    remember(case, before, m, case["inputs"])
    return [left]


def desymn_cases(rng, n):
    return [{"kind": rng.choice(["for", "if"]), "init": rand_spec(rng, [0, 1, 5]), "n": rand_spec(rng, [0, 2, 3]),
             "inc": rng.choice([1, 2, 7]), "read_after": rng.random() < 0.8, "inputs": rand_inputs(rng, 4, -2, 5)}
            for _ in range(n)]


def desymn_known(case, res):
    r = recall(case)
    return "C16-kf-9" if (r and r[2]) else None        # every generated case accesses @a in a nested region


# ============================================================================ family 7: nested programs (oracle only)

PIPELINES = [["convert-scf-to-cf"], ["licm"], ["scf-for-loop-range-folding"], ["scf-for-loop-unroll"],
             ["control-flow-hoist"], ["licm", "scf-for-loop-range-folding", "convert-scf-to-cf"],
             ["control-flow-hoist", "licm", "convert-scf-to-cf"], ["scf-for-loop-unroll", "convert-scf-to-cf"]]


def prog_text(case):
    """Deterministic random structured program from case["seed"]: nested scf.for / scf.if / scf.while carrying one
    accumulator, pure arith on loop-variant and loop-invariant values, calls to @eff.  Stays outside the
    known-finding classes: multipliers are positive constants, divisors are positive constants, steps > 0."""
    import random
    rng = random.Random(case["seed"])
    t = Txt()
    cnt = [0]

    def nm(p):
        cnt[0] += 1
        return f"%{p}{cnt[0]}"

    def expr(vals, ind, depth=2):
        if depth == 0 or rng.random() < 0.35:
            return rng.choice(vals) if rng.random() < 0.75 else t.ref(["c", rng.choice([0, 1, 2, 3, 5, -1, -4])])
        k = rng.choice(["addi", "addi", "subi", "muli", "divsi", "remsi", "floordivsi", "ceildivsi", "minsi", "maxsi"])
        a = expr(vals, ind, depth - 1)
        if k == "muli":
            b = t.ref(["c", rng.choice([1, 2, 3])])
            if rng.random() < 0.5:
                a, b = b, a
        elif k in ("divsi", "remsi", "floordivsi", "ceildivsi"):
            b = t.ref(["c", rng.choice([1, 2, 3, 4, 7])])
        else:
            b = expr(vals, ind, depth - 1)
        r = nm("e")
        t.emit(f"{r} = arith.{k} {a}, {b} : index", ind)
        return r

    def block(vals, acc, ind, depth):
        for _ in range(rng.randint(1, 3 if depth else 2)):
            k = rng.choice(["eff", "acc", "for", "for", "if", "while"] if depth else ["eff", "acc", "acc"])
            if k == "eff":
                t.emit(f"func.call @eff({expr(vals + [acc], ind)}) : (index) -> ()", ind)
            elif k == "acc":
                v = expr(vals + [acc], ind)
                n = nm("s")
                t.emit(f"{n} = arith.addi {acc}, {v} : index", ind)
                # keep the accumulator bounded (no 64-bit overflow): acc mod 1009 via a positive constant
                n2 = nm("s")
                t.emit(f"{n2} = arith.remsi {n}, {t.ref(['c', 1009])} : index", ind)
                acc = n2
            elif k == "for":
                lb = rng.choice([t.ref(["c", 0]), t.ref(["c", 1]), t.ref(["c", -2]), "%a0", t.ref(["c", 4])])
                ub = rng.choice([t.ref(["c", 3]), t.ref(["c", 5]), t.ref(["c", 0]), "%a1", "%a1", t.ref(["c", -3])])
                st = t.ref(["c", rng.choice([1, 1, 2, 3])])
                r, iv, a2 = nm("r"), nm("iv"), nm("acc")
                t.emit(f"{r} = scf.for {iv} = {lb} to {ub} step {st} iter_args({a2} = {acc}) -> (index) {{", ind)
                out = block(vals + [iv], a2, ind + 1, depth - 1)
                t.emit(f"scf.yield {out} : index", ind + 1)
                t.emit("}", ind)
                acc = r
            elif k == "if":
                c = nm("c")
                pred = rng.choice(["slt", "sle", "eq", "ne", "sgt", "ult"])
                x, y = expr(vals + [acc], ind, 1), expr(vals, ind, 1)
                t.emit(f"{c} = arith.cmpi {pred}, {x}, {y} : index", ind)
                r = nm("r")
                t.emit(f"{r} = scf.if {c} -> (index) {{", ind)
                o1 = block(vals, acc, ind + 1, depth - 1)
                t.emit(f"scf.yield {o1} : index", ind + 1)
                t.emit("} else {", ind)
                o2 = block(vals, acc, ind + 1, depth - 1) if rng.random() < 0.7 else acc
                t.emit(f"scf.yield {o2} : index", ind + 1)
                t.emit("}", ind)
                acc = r
            else:
                n = rng.choice([t.ref(["c", 2]), t.ref(["c", 4]), "%a2", t.ref(["c", 0])])
                r, i1, w1, i2, w2, cc, i3 = nm("w"), nm("i"), nm("wa"), nm("i"), nm("wa"), nm("c"), nm("i")
                t.emit(f"{r}:2 = scf.while ({i1} = {t.ref(['c', 0])}, {w1} = {acc}) : (index, index) -> (index, index) {{", ind)
                t.emit(f"{cc} = arith.cmpi slt, {i1}, {n} : index", ind + 1)
                t.emit(f"scf.condition({cc}) {i1}, {w1} : index, index", ind + 1)
                t.emit("} do {", ind)
                t.emit(f"^bb0({i2} : index, {w2} : index):", ind)
                # xDSL's convert-scf-to-cf has no scf.while lowering: an scf.for/scf.if nested in a while body
                # would leave a multi-block region inside scf.while (rejected by the verifier; not a C16 matter)
                out = block(vals + [i2], w2, ind + 1, 0 if case.get("while_leaf") else depth - 1)
                t.emit(f"{i3} = arith.addi {i2}, {t.ref(['c', 1])} : index", ind + 1)
                t.emit(f"scf.yield {i3}, {out} : index, index", ind + 1)
                t.emit("}", ind)
                acc = f"{r}#1"
        return acc
    out = block(["%a0", "%a1", "%a2", "%a3"], "%a3", 1, case["depth"])
    return t.module(out)


def prog_impl(case):
    m = parse(prog_text(case))
    before = m.clone()
    n0 = sum(1 for _ in m.walk())
    s0 = str(m)
    for p in case["passes"]:
        apply_pass(m, p)
    remember(case, before, m, case["inputs"])
    changed = int(str(m) != s0)
    return [changed, sum(1 for _ in m.walk()) - n0]


def prog_cases(rng, n):
    out = []
    for _ in range(n):
        passes = rng.choice(PIPELINES)
        out.append({"seed": rng.randrange(1 << 30), "depth": rng.choice([1, 2, 2, 3]), "passes": passes,
                    "while_leaf": "convert-scf-to-cf" in passes, "inputs": rand_inputs(rng, 4, -4, 7)})
    return out


def prog_nontrivial(case, res):
    return (case["seed"], tuple(case["passes"])) if res and res[0] == 1 else None


def oracle_only(ctx, name, cases, impl, holds, known=None, nontrivial=None):
    import time
    t = time.time()
    ev = eval_cases(cases, impl, holds, known, nontrivial, parallel=False)
    ctx.evaluations += len(cases)
    fails, known_hits = [], {}
    active = ctx.active_known_ids()
    for c, (r, ok, why, kid, nt) in zip(cases, ev):
        if nt is not None:
            ctx.nontrivial.add((name, nt))
        if not ok:
            if kid and kid in active:
                known_hits[kid] = known_hits.get(kid, 0) + 1
            else:
                fails.append((c, r, why))
    fam = _report(ctx, name, len(cases), fails, [], known_hits, None, False, t)
    fam["model"] = "none (before/after reference evaluator only)"
    return fam


# ============================================================================ run

FAMILIES = {
    "scf-to-cf": (s2c_cases, s2c_impl, s2c_coq, None, ran_loop),
    "range-folding": (fold_cases, fold_impl, fold_coq, fold_known, fold_nontrivial),
    "flatten": (flat_cases, flat_impl, flat_coq, flat_known, flat_nontrivial),
    "unroll": (unroll_cases, unroll_impl, unroll_coq, None, unroll_nontrivial),
    "licm": (licm_cases, licm_impl, licm_coq, licm_known, licm_nontrivial),
    "lower-affine": (aff_cases, aff_impl, aff_coq, aff_known, aff_nontrivial),
    "lower-affine-for-load-store": (affmem_cases, affmem_impl, affmem_coq, None, affmem_nontrivial),
    "index-switch": (switch_cases, switch_impl, switch_coq, switch_known, switch_nontrivial),
    "control-flow-hoist": (cfh_cases, cfh_impl, cfh_coq, cfh_known, cfh_nontrivial),
    "desymref": (desym_cases, desym_impl, desym_coq, None, desym_nontrivial),
}
SIZES = {"quick": {"scf-to-cf": 50, "range-folding": 75, "flatten": 80, "unroll": 70, "licm": 70,
                   "lower-affine": 100, "programs": 40, "lower-affine-for-load-store": 50, "index-switch": 50,
                   "control-flow-hoist": 70, "desymref": 70, "desymref-nested": 20},
         "thorough": {"scf-to-cf": 900, "range-folding": 1500, "flatten": 2000, "unroll": 1200, "licm": 1500,
                      "lower-affine": 3000, "programs": 1500, "lower-affine-for-load-store": 1200,
                      "index-switch": 900, "control-flow-hoist": 1500, "desymref": 1500, "desymref-nested": 200}}

# hand-picked seeds that always run first (DESIGN section 11 witnesses and boundary shapes)
CORPUS = {
    "flatten": [
        {"olb": ["c", 0], "oub": ["c", 3], "ostep": ["c", 2], "ilb": ["c", 0], "iub": ["c", 5], "istep": ["c", 2],
         "init": ["c", 0], "use": "none", "n_iter": 1, "wiring": "ok", "perfect": "yes",
         "body": {"a": 1, "b": 0, "c": 1, "d": 0, "e": 0, "g": 0}, "inputs": [[0, 0, 0, 0]]},
        {"olb": ["c", 0], "oub": ["c", 3], "ostep": ["c", 2], "ilb": ["c", 0], "iub": ["c", 2], "istep": ["c", 1],
         "init": ["c", 0], "use": "add", "n_iter": 0, "wiring": "ok", "perfect": "yes",
         "body": {"a": 1, "b": 0, "c": 0, "d": 1, "e": 0, "g": 0}, "inputs": [[0, 0, 0, 0]]},
        {"olb": ["c", 0], "oub": ["a", 1], "ostep": ["c", 1], "ilb": ["c", 5], "iub": ["c", 0], "istep": ["c", 1],
         "init": ["c", 0], "use": "none", "n_iter": 1, "wiring": "ok", "perfect": "yes",
         "body": {"a": 1, "b": 0, "c": 1, "d": 0, "e": 0, "g": 0}, "inputs": [[0, -2, 0, 0], [0, 3, 0, 0]]},
        {"olb": ["c", 0], "oub": ["c", 4], "ostep": ["c", 2], "ilb": ["c", 1], "iub": ["c", 7], "istep": ["c", 3],
         "init": ["c", 0], "use": "none", "n_iter": 1, "wiring": "ok", "perfect": "yes",
         "body": {"a": 1, "b": 0, "c": 1, "d": 0, "e": 0, "g": 0}, "inputs": [[0, 0, 0, 0]]},
    ],
    "range-folding": [
        {"lb": ["c", 0], "ub": ["c", 2], "step": ["c", 1], "init": ["c", 0],
         "chain": [{"kind": "mul", "src": ["a", 0], "pos": 0, "extra": False}],
         "body": {"a": 1, "b": 1, "c": 0, "d": 1, "e": 0, "g": 0}, "inputs": [[0, 0, 0, 0], [-1, 0, 0, 0], [3, 0, 0, 0]]},
    ],
    "licm": [
        {"lb": ["c", 0], "ub": ["a", 0], "step": ["c", 1], "init": ["c", 0],
         "ops": [{"k": "remsi", "a": ["c", 3], "b": ["a", 1]}], "inputs": [[0, 0, 0, 0], [2, 0, 0, 0], [2, 2, 0, 0]]},
    ],
    "lower-affine": [
        {"nd": 1, "ns": 0, "expr": ["mod", ["d", 0], ["c", 4]], "inputs": [[-1, 0, 0, 0], [5, 0, 0, 0]]},
    ],
}


def multi_differential(ctx: Ctx, specs: list):
    """`harness.common.differential` for several families at once: the implementation/oracle side runs family by
    family, then ALL model expressions are evaluated in one parallel batch of coqc shards (one start-up cost)."""
    import time
    from harness.common import ModelUnavailable
    evs, t0 = [], time.time()
    for sp in specs:
        t = time.time()
        ev = eval_cases(sp.cases, sp.impl, sp.holds, sp.known, sp.nontrivial, parallel=False)
        evs.append((ev, time.time() - t))
        ctx.evaluations += len(sp.cases)
    exprs = [sp.coq_expr(c) for sp in specs for c in sp.cases]
    model_err, model = None, None
    try:
        model = ctx.coq_eval(REQ, exprs, shard=max(150, (len(exprs) + 15) // 16))
    except ModelUnavailable as e:
        model_err = str(e)
    t_model = time.time() - t0 - sum(d for _, d in evs)
    off = 0
    for sp, (ev, dt) in zip(specs, evs):
        fails, diverge, known_hits = [], [], {}
        active = ctx.active_known_ids()
        for i, (c, (r, ok, why, kid, nt)) in enumerate(zip(sp.cases, ev)):
            if nt is not None:
                ctx.nontrivial.add((sp.name, nt))
            if not ok:
                if kid and kid in active:
                    known_hits[kid] = known_hits.get(kid, 0) + 1
                else:
                    fails.append((c, r, why))
            if model is not None and model[off + i] != r:
                diverge.append((c, r, model[off + i]))
        for c, e in list(zip(sp.cases, ev))[:1]:
            ctx.sample({"family": sp.name, "case": c, "impl": e[0]}, limit=8)
        fam = _report(ctx, sp.name, len(sp.cases), fails, diverge, known_hits, model_err, False, time.time() - dt)
        off += len(sp.cases)
    ctx.coverage["model_batch_wall_s"] = round(t_model, 2)


def run(ctx: Ctx):
    sizes = SIZES[ctx.tier]
    rng = ctx.rng
    specs = []
    for fam, (gen, impl, coq, known, nontriv) in FAMILIES.items():
        holds = generic_holds(impl)
        replay_findings(ctx, fam, impl, holds)
        cases = list(CORPUS.get(fam, [])) + gen(rng, sizes[fam])
        specs.append(DiffSpec(fam, REQ, cases, impl, coq, holds, known, nontriv))
    multi_differential(ctx, specs)
    pcases = prog_cases(rng, sizes["programs"])
    oracle_only(ctx, "nested-programs", pcases, prog_impl, generic_holds(prog_impl), None, prog_nontrivial)
    replay_findings(ctx, "desymref-nested", desymn_impl, generic_holds(desymn_impl))
    oracle_only(ctx, "desymref-nested", desymn_cases(rng, sizes["desymref-nested"]), desymn_impl,
                generic_holds(desymn_impl), desymn_known, lambda c, r: ckey({k: v for k, v in c.items() if k != "inputs"}))
    ctx.coverage["rule"] = __doc__.split("\n\n", 1)[1][:1400]
    ctx.coverage["semantics_dependent_inputs_not_listed"] = (
        f"{NOTES['semantics_dependent_inputs']} input(s) differed only under the cmpi-slt reading of a non-positive "
        "step produced by the pass (range folding by a negative multiplier) and agree under Python-range semantics")
    ctx.coverage["not_modelled"] = ["scf.while lowering (absent from convert-scf-to-cf)", "affine.if lowering (absent from lower-affine)", "desymref: nested regions (C16-kf-9), multi-block regions (the pass raises)",
                                    "CSE / dead-op removal inside control-flow-hoist"]
    ctx.coverage["pipelines_nested_programs"] = PIPELINES


def replay_case(ctx, witness):
    fam = witness.get("family")
    case = witness.get("case")
    if fam in FAMILIES and case is not None:
        gen, impl, coq, known, nontriv = FAMILIES[fam]
        r = impl(case)
        ok, why = generic_holds(impl)(case, r)
        print("implementation result:", r)
        print("oracle:", "holds" if ok else "FAILS: " + why)
        try:
            print("model result:", ctx.coq_eval(REQ, [coq(case)])[0])
        except Exception as e:  # noqa: BLE001
            print("model unavailable:", e)
        return 0 if ok else 1
    if fam == "desymref-nested" and case is not None:
        r = desymn_impl(case)
        ok, why = generic_holds(desymn_impl)(case, r)
        print(desymn_text(case))
        print("oracle:", "holds" if ok else "FAILS: " + why)
        return 0 if ok else 1
    if fam == "nested-programs" and case is not None:
        r = prog_impl(case)
        ok, why = generic_holds(prog_impl)(case, r)
        print(prog_text(case))
        print("oracle:", "holds" if ok else "FAILS: " + why)
        return 0 if ok else 1
    print("witness is self-describing")
    return 0
