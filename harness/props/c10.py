"""C10 -- IRDL operation verification matches the operation definition.

Tie: hand-written Coq model (coq/C10/Model.v) of verify_variadic_same_size / verify_variadic_attr_size,
the nine accessor classes, irdl_op_arg_definition, irdl_op_verify_arg_list / irdl_op_verify_regions /
OpDef.verify, irdl_build_arg_list / irdl_op_init vs the real xdsl.irdl.operations code, on
(a) an exhaustive sweep: every definition list of length <= 3 (quick: <= 2 plus a sample of length 3)
over {single, optional, variadic} x {no option, SameVariadic*Size, AttrSized*Segments} x 0..5 arguments
x (attr-sized) every size vector over {-1,0,1,2,3}, on real dynamically created @irdl_op_definition classes,
rotating over operands/results/regions/successors and attribute/property storage;
(b) random whole definitions (operands, results, regions, successors, properties, attributes, shared
constraint variables, options) with mostly-valid and mutated instances made by Operation.create
(wrong counts, wrong types, segment-size attributes with wrong sums / negatives / wrong lengths /
wrong element type / missing), comparing the OpDef.verify outcome (exception class) and every accessor's
returned positions;
(c) the generated constructor on random arguments (None / single / sequences, also ill-shaped), comparing
the built operation, its verification and its accessors;
(d) every operation of every registered dialect: the real OpDef's kinds/options are fed to the model and
verify_variadic_size + every accessor are compared on synthesised instances.
Oracle (independent of the model): brute-force enumeration of all size vectors allowed by the definition
(single=1, optional=0|1, variadic>=0, same-size option => all variadic/optional sizes equal, attr-sized
=> the vector is the attribute, sum = number of arguments) and a direct check of constraints with
consistent variables on the resulting pieces.
(b') integer variables: definitions in which several variadic/optional segments (operands, results,
region entry arguments) and IntAttr properties share a length variable, with EVERY mix of lengths 0..3
(quick: a seeded half of them); the random definitions of (b)/(c) also carry length constraints.
Non-trivial: the construct has a variadic/optional definition or a segment option, or a constraint
variable is used twice; distinct = distinct (definition, instance) pair.
"""
from __future__ import annotations

import inspect
import itertools
import json

from harness.common import (Ctx, DiffSpec, coq_bool, coq_list, coq_nat, coq_Z, coq_Zs, differential,
                            replay_findings, sweep_differential)

META = {
    "id": "C10",
    "title": "IRDL operation verification matches the operation definition",
    "design_ref": "DESIGN.md section 8.C10",
    "technique": "Coq proof of segment-size verification, accessor arithmetic and constructor against a "
                 "segmentation spec + exhaustive/random model-vs-code correspondence on generated IRDL classes",
    "level_text": (
        "Theorems in coq/Props/C10.v, for EVERY definition list, argument count and instance: without the "
        "attr-sized option the modelled size verification accepts exactly when a segmentation exists (and it is "
        "unique); the accessors then return exactly the segments, whose concatenation is the argument list; the "
        "modelled constructor's output verifies and its accessors return the constructor's inputs; OpDef.verify "
        "accepts exactly when all four lists segment and all pieces/properties/attributes satisfy their "
        "constraints under one variable assignment. For AttrSized*Segments the full statement is REFUTED on the "
        "faithful model (sum of sizes never compared with the argument count, negative sizes accepted) and the "
        "partial statement (sizes non-negative and summing to the count) is proved; a SameVariadic*Size option "
        "without any variadic definition makes verification raise ZeroDivisionError (refuted, partial proved). "
        "The model carries a `version` (which of the two proposed repairs C10-1/C10-2 the code contains, "
        "determined on every run from the code's behaviour on the two known-finding witnesses and validated by "
        "the whole correspondence); for the repaired version the FULL statements are proved "
        "(C10_verify_sizes_attr_repaired_iff, C10_verify_iff_repaired), so the check keeps deciding the property "
        "after the repairs are applied. "
        "The model is tied to xdsl/irdl/operations.py by an exhaustive sweep over small definitions, random "
        "whole definitions/instances/constructor calls on dynamically created IRDL classes, and all registered "
        "dialect operations."),
    "level_note": (
        "Trusted: Coq kernel; hand-written model; correspondence harness. Constraints on individual pieces are "
        "abstract predicates plus VarConstraint equality (AnyAttr/EqAttrConstraint/AnyOf/VarConstraint are "
        "exercised); hypothesis of the whole-verify theorem: all uses of one constraint variable carry the same "
        "base constraint. Integer constraint variables are covered: IntVarConstraint through "
        "RangeOf(c).of_length(..) on variadic/optional operand/result segments and region entry arguments and "
        "through IntAttr.constr(..) on properties/attributes (bind on first occurrence, 0 included, compare later). "
        "Not covered: traits, custom verify_, RangeVarConstraint, ArrayAttr.constr(..of_length..) properties, "
        "AtLeast/AtMost int bases (AnyInt/IntSetConstraint are exercised), default property values, definitions declaring both options for one construct, "
        "Operation.verify's own structural checks (terminators, successors' parents)."),
}
COQ_TARGETS = ["C10/Enc.vo", "C10/Proofs.vo", "C10/ProofsAcc.vo", "C10/ProofsVerify.vo", "Props/C10.vo"]
REQ = ["C10.Model", "C10.Enc"]
ASSUMPTIONS = ["operand/result/region/successor lists contain pairwise distinct objects in the harness "
               "(positions are recovered by identity)",
               "all uses of one constraint variable in a definition carry the same base constraint "
               "(C10_verify_iff only)"]
TRUSTED = []

CONSTRUCTS = ["operands", "results", "regions", "successors"]
KIND = {"S": "Single", "O": "Optional", "V": "Variadic"}
OPT = {"none": "NoOption", "same": "SameSize", "attr": "AttrSized"}
XC = {"VerifyException": 2, "ValueError": 3, "KeyError": 4, "IndexError": 5, "PyRDLOpDefinitionError": 12,
      "ZeroDivisionError": 21, "AttributeError": 22}
NTYPES = 5


def xcode(e: BaseException) -> list:
    for cls in type(e).__mro__:
        if cls.__name__ in XC:
            return [-1, XC[cls.__name__]]
    return [-1, 99]


_STATS: dict = {}


def _stat(key: str):
    _STATS[key] = _STATS.get(key, 0) + 1


def _outcome_name(v) -> str:
    if v == 0 or v == [0]:
        return "ok"
    code = v[0][1] if isinstance(v[0], list) else v[1]
    return next((k for k, c in XC.items() if c == code), f"code{code}")


# ---------------------------------------------------------------------------- real-code side
_TYPES = None
_CLASSES: dict = {}


def types():
    global _TYPES
    if _TYPES is None:
        from xdsl.dialects.builtin import IndexType, f32, i1, i32, i64
        _TYPES = [i1, i32, i64, f32, IndexType()]
    return _TYPES


def py_constr(allowed, var):
    from xdsl.dialects.builtin import IntegerType
    from xdsl.irdl import AnyAttr, AnyOf, AttrSetConstraint, BaseAttr, EqAttrConstraint, VarConstraint
    T = types()
    if allowed is None:
        base = AnyAttr()
    elif len(allowed) == 1:
        base = EqAttrConstraint(T[allowed[0]])
    elif sorted(allowed) == [0, 1, 2]:
        base = BaseAttr(IntegerType)          # i1, i32, i64 are the IntegerTypes of the universe
    elif len({type(T[a]) for a in allowed}) == len(allowed):
        base = AnyOf([EqAttrConstraint(T[a]) for a in allowed])
    else:
        base = AttrSetConstraint(frozenset(T[a] for a in allowed))
    return base if var is None else VarConstraint(f"V{var}", base)


def d_arg(e):
    """operand/result entry -> (kind, allowed, var, length) ; length = None | [int_allowed, int_var]"""
    return e[0], e[1], e[2], (e[3] if len(e) > 3 else None)


def d_reg(e):
    return e[0], e[1], e[2], e[3], (e[4] if len(e) > 4 else None)


def d_named(e):
    """property/attribute entry -> (optional, allowed, var, is_int): is_int = IntAttr.constr(<int constraint>),
    allowed/var then describe the INT constraint"""
    return e[0], e[1], e[2], (len(e) > 3 and e[3] == "int")


def py_iconstr(lc):
    """[allowed ints | None, int variable | None] -> IntConstraint (IntVarConstraint("N<i>", base) / base)"""
    from xdsl.irdl import AnyInt, IntSetConstraint, IntVarConstraint
    allowed, ivar = lc
    base = AnyInt() if allowed is None else IntSetConstraint(frozenset(allowed))
    return base if ivar is None else IntVarConstraint(f"N{ivar}", base)


def py_range(allowed, var, length):
    """the constraint handed to var_/opt_ definitions: a plain constraint or RangeOf(c).of_length(<int constr>)"""
    from xdsl.irdl import RangeOf
    c = py_constr(allowed, var)
    return c if length is None else RangeOf(c).of_length(py_iconstr(length))


def val(v):
    """value id -> attribute: type ids < 1000, 1000 + k = IntAttr(k)"""
    if v >= 1000:
        from xdsl.dialects.builtin import IntAttr
        return IntAttr(v - 1000)
    return types()[v]


def option_obj(construct: int, opt: str, as_prop: bool):
    from xdsl.irdl import operations as O
    if opt == "same":
        return [O.SameVariadicOperandSize, O.SameVariadicResultSize, O.SameVariadicRegionSize,
                O.SameVariadicSuccessorSize][construct]()
    if opt == "attr":
        return [O.AttrSizedOperandSegments, O.AttrSizedResultSegments, O.AttrSizedRegionSegments,
                O.AttrSizedSuccessorSegments][construct](as_property=as_prop)
    return None


SEG_NAME = ["operandSegmentSizes", "resultSegmentSizes", "regionSegmentSizes", "successorSegmentSizes"]


def make_class(defn: dict):
    """a real @irdl_op_definition class for a generated definition (cached)"""
    key = json.dumps(defn, sort_keys=True)
    if key in _CLASSES:
        r = _CLASSES[key]
        if isinstance(r, BaseException):
            raise r
        return r
    from xdsl import irdl as I
    from xdsl.irdl import RangeOf
    ns: dict = {"name": "c10.op", "__annotations__": {}}
    options = []
    for ci, (fld, optk) in enumerate([("operands", "opopt"), ("results", "resopt"), ("regions", "regopt"),
                                      ("succs", "sucopt")]):
        opt, as_prop = defn[optk]
        o = option_obj(ci, opt, as_prop)
        if o is not None:
            options.append(o)
    if defn.get("options_first", True):
        ns["irdl_options"] = tuple(options)
    for i, e in enumerate(defn["operands"]):
        k, allowed, var, length = d_arg(e)
        f = {"S": I.operand_def, "O": I.opt_operand_def, "V": I.var_operand_def}[k]
        ns[f"o{i}"] = f(py_range(allowed, var, length))
    for i, e in enumerate(defn["results"]):
        k, allowed, var, length = d_arg(e)
        f = {"S": I.result_def, "O": I.opt_result_def, "V": I.var_result_def}[k]
        ns[f"r{i}"] = f(py_range(allowed, var, length))
    for i, e in enumerate(defn["regions"]):
        k, single, allowed, var, length = d_reg(e)
        f = {"S": I.region_def, "O": I.opt_region_def, "V": I.var_region_def}[k]
        ea = RangeOf(py_constr(allowed, var))
        ns[f"g{i}"] = f("single_block" if single else None,
                        entry_args=ea if length is None else ea.of_length(py_iconstr(length)))
    for i, k in enumerate(defn["succs"]):
        f = {"S": I.successor_def, "O": I.opt_successor_def, "V": I.var_successor_def}[k]
        ns[f"s{i}"] = f()
    from xdsl.dialects.builtin import IntAttr
    for i, e in enumerate(defn["props"]):
        optional, allowed, var, is_int = d_named(e)
        c = IntAttr.constr(py_iconstr([allowed, var])) if is_int else py_constr(allowed, var)
        ns[f"p{i}"] = (I.opt_prop_def if optional else I.prop_def)(c)
    for i, e in enumerate(defn["attrs"]):
        optional, allowed, var, is_int = d_named(e)
        c = IntAttr.constr(py_iconstr([allowed, var])) if is_int else py_constr(allowed, var)
        ns[f"a{i}"] = (I.opt_attr_def if optional else I.attr_def)(c)
    if not defn.get("options_first", True):
        ns["irdl_options"] = tuple(options)
    try:
        cls = I.irdl_op_definition(type("C10Op", (I.IRDLOperation,), ns))
    except BaseException as e:  # PyRDLOpDefinitionError is the expected one
        _CLASSES[key] = e
        raise
    _CLASSES[key] = cls
    return cls


def seg_attr_obj(enc):
    from xdsl.dialects.builtin import DenseArrayBase, UnitAttr, i32, i64
    if enc[0] == "missing":
        return None
    if enc[0] == "notdense":
        return UnitAttr()
    return DenseArrayBase.from_list(i32 if enc[1] else i64, enc[2])


def mk_values(tids):
    from xdsl.dialects.test import TestOp
    T = types()
    return list(TestOp(result_types=[T[t] for t in tids]).results)


def mk_region(blocks):
    from xdsl.ir import Block, Region
    T = types()
    return Region([Block(arg_types=[T[t] for t in b]) for b in blocks])


def create_instance(cls, defn, inst):
    """Operation.create-style construction: no shape checking at all"""
    from xdsl.ir import Block
    T = types()
    props, attrs = {}, {}
    for i, v in enumerate(inst["props"]):
        if v is not None:
            props[f"p{i}"] = val(v)
    for i, v in enumerate(inst["attrs"]):
        if v is not None:
            attrs[f"a{i}"] = val(v)
    if inst["extra_prop"]:
        props["zz_extra"] = T[1]
    for ci, (segk, optk) in enumerate([("opseg", "opopt"), ("resseg", "resopt"), ("regseg", "regopt"),
                                       ("sucseg", "sucopt")]):
        a = seg_attr_obj(inst[segk])
        if a is None:
            continue
        opt, as_prop = defn[optk]
        (props if (opt == "attr" and as_prop) else attrs)[SEG_NAME[ci]] = a
    return cls.create(operands=mk_values(inst["operands"]), result_types=[T[t] for t in inst["results"]],
                      regions=[mk_region(r) for r in inst["regions"]],
                      successors=[Block() for _ in range(inst["nsucc"])], properties=props, attributes=attrs)


def _pos(seq, x):
    for i, y in enumerate(seq):
        if y is x:
            return i
    return -7


def observe_accessor(op, name, seq):
    try:
        r = getattr(op, name)
    except BaseException as e:
        return xcode(e)
    if r is None:
        return [0]
    if isinstance(r, tuple):
        return [2, [_pos(seq, x) for x in r]]
    return [1, _pos(seq, r)]


def observe(op, defn):
    """OpDef.verify outcome + every accessor (positions in the operand/... lists)"""
    od = type(op).get_irdl_definition()
    try:
        od.verify(op)
        out = [0]
    except BaseException as e:
        out = [xcode(e)]
    for fld, pre, seq in [("operands", "o", tuple(op.operands)), ("results", "r", tuple(op.results)),
                          ("regions", "g", tuple(op.regions)), ("succs", "s", tuple(op.successors))]:
        out.append([observe_accessor(op, f"{pre}{i}", seq) for i in range(len(defn[fld]))])
    return out


def verify_impl(case):
    defn = case["def"]
    try:
        cls = make_class(defn)
    except BaseException as e:
        _stat("verify: class definition raises " + type(e).__name__)
        return xcode(e)
    op = create_instance(cls, defn, case["op"])
    r = observe(op, defn)
    _stat("verify: " + _outcome_name(r[0]))
    return r


def seg_enc_of(op, ci, defn):
    from xdsl.dialects.builtin import DenseArrayBase, i32
    opt, as_prop = defn[["opopt", "resopt", "regopt", "sucopt"][ci]]
    cont = op.properties if (opt == "attr" and as_prop) else op.attributes
    a = cont.get(SEG_NAME[ci])
    if a is None:
        return [0]
    if not isinstance(a, DenseArrayBase):
        return [1]
    return [2, 1 if a.elt_type == i32 else 0, list(a.get_values())]


def build_impl(case):
    from xdsl.ir import Block
    defn, b = case["def"], case["args"]
    try:
        cls = make_class(defn)
    except BaseException as e:
        return xcode(e)
    T = types()
    tmap = {id(t): i for i, t in enumerate(T)}

    def conv(a, mk):
        if a is None:
            return None
        if a[0] == "one":
            return mk(a[1])
        return [mk(x) for x in a[1]]
    props = {f"p{i}": (None if v is None else val(v)) for i, v in enumerate(b["props"])}
    attrs = {f"a{i}": (None if v is None else val(v)) for i, v in enumerate(b["attrs"])}
    if b["extra_prop"]:
        props["zz_extra"] = T[1]
    for ci, (segk, optk) in enumerate([("opseg", "opopt"), ("resseg", "resopt"), ("regseg", "regopt"),
                                       ("sucseg", "sucopt")]):
        a = seg_attr_obj(b[segk])
        if a is not None:
            opt, as_prop = defn[optk]
            (props if (opt == "attr" and as_prop) else attrs)[SEG_NAME[ci]] = a
    try:
        op = cls.build(operands=[conv(a, lambda t: mk_values([t])[0]) for a in b["operands"]],
                       result_types=[conv(a, lambda t: T[t]) for a in b["results"]],
                       regions=[conv(a, mk_region) for a in b["regions"]],
                       successors=[conv(a, lambda _: Block()) for a in b["succs"]],
                       properties=props, attributes=attrs)
    except BaseException as e:
        _stat("build: constructor raises " + type(e).__name__)
        return [xcode(e)]
    shape = [[tmap[id(v.type)] for v in op.operands], seg_enc_of(op, 0, defn),
             [tmap[id(v.type)] for v in op.results], seg_enc_of(op, 1, defn),
             [[[tmap[id(t)] for t in blk.arg_types] for blk in r.blocks] for r in op.regions],
             seg_enc_of(op, 2, defn),
             [0] * len(op.successors), seg_enc_of(op, 3, defn)]
    obs = observe(op, defn)
    _stat("build: built, verify " + _outcome_name(obs[0]))
    return [shape, obs]


# ---- single-construct family (exhaustive sweep, registered dialects)
def sizes_defn(case):
    ci, kinds, opt, as_prop = case["construct"], case["defs"], case["opt"], case.get("as_prop", False)
    d = {"operands": [], "opopt": ["none", False], "results": [], "resopt": ["none", False],
         "regions": [], "regopt": ["none", False], "succs": "", "sucopt": ["none", False],
         "props": [], "attrs": []}
    fld, optk = [("operands", "opopt"), ("results", "resopt"), ("regions", "regopt"), ("succs", "sucopt")][ci]
    d[optk] = [opt, as_prop]
    if ci in (0, 1):
        d[fld] = [[k, None, None] for k in kinds]
    elif ci == 2:
        d[fld] = [[k, False, None, None] for k in kinds]
    else:
        d[fld] = kinds
    return d


def sizes_instance(cls, ci, n, attr, in_props):
    from xdsl.ir import Block, Region
    kw = {"operands": (), "result_types": (), "regions": (), "successors": ()}
    T = types()
    if ci == 0:
        kw["operands"] = mk_values([1] * n)
    elif ci == 1:
        kw["result_types"] = [T[1]] * n
    elif ci == 2:
        kw["regions"] = [Region() for _ in range(n)]
    else:
        kw["successors"] = [Block() for _ in range(n)]
    a = seg_attr_obj(attr)
    cont = {} if a is None else {SEG_NAME[ci]: a}
    return cls.create(properties=cont if in_props else {}, attributes={} if in_props else cont, **kw)


def sizes_observe(op, od, ci, names):
    from xdsl.irdl.operations import VarIRConstruct, verify_variadic_size
    construct = [VarIRConstruct.OPERAND, VarIRConstruct.RESULT, VarIRConstruct.REGION,
                 VarIRConstruct.SUCCESSOR][ci]
    try:
        verify_variadic_size(op, od, construct)
        v = 0
    except BaseException as e:
        v = xcode(e)
    seq = [tuple(op.operands), tuple(op.results), tuple(op.regions), tuple(op.successors)][ci]
    return [v, [observe_accessor(op, nm, seq) for nm in names]]


def sizes_impl(case):
    ci = case["construct"]
    try:
        cls = make_class(sizes_defn(case))
    except BaseException as e:
        return xcode(e)
    op = sizes_instance(cls, ci, case["n"], case["attr"], case["opt"] == "attr" and case.get("as_prop", False))
    names = [f"{'orgs'[ci]}{i}" for i in range(len(case["defs"]))]
    return sizes_observe(op, cls.get_irdl_definition(), ci, names)


_REG = None


def registered_ops():
    """name -> class for every IRDL op of every registered dialect"""
    global _REG
    if _REG is None:
        from xdsl.dialects import get_all_dialects
        from xdsl.irdl import IRDLOperation
        _REG = {}
        for dn, f in sorted(get_all_dialects().items()):
            try:
                d = f()
            except BaseException:
                continue
            for op in d.operations:
                if issubclass(op, IRDLOperation) and not inspect.isabstract(op):
                    _REG.setdefault(f"{dn}:{op.__name__}", op)
    return _REG


def registered_shape(cls, ci):
    """(kinds, opt, as_prop, names) of one construct of a real OpDef -- the translation of the real
    definition into the model's input"""
    from xdsl.irdl import operations as O
    od = cls.get_irdl_definition()
    construct = [O.VarIRConstruct.OPERAND, O.VarIRConstruct.RESULT, O.VarIRConstruct.REGION,
                 O.VarIRConstruct.SUCCESSOR][ci]
    defs = O.get_construct_defs(od, construct)
    kinds = "".join("O" if isinstance(d, O.OptionalDef) else "V" if isinstance(d, O.VariadicDef) else "S"
                    for _, d in defs)
    same = any(isinstance(o, O.get_same_variadic_size_option(construct)) for o in od.options)
    attr = next((o for o in od.options if isinstance(o, O.get_attr_size_option(construct))), None)
    if same and attr is not None:
        return None
    opt = "same" if same else "attr" if attr is not None else "none"
    return kinds, opt, bool(attr and attr.as_property), [n for n, _ in defs]


def registered_impl(case):
    """all registered ops sharing one (kinds, option) shape are run on the same synthesised argument
    list; the common result is returned (any op deviating from the first makes the result differ
    from the model's, naming the op)"""
    ci, first = case["construct"], None
    for name, names in case["ops"]:
        cls = registered_ops()[name]
        op = sizes_instance(cls, ci, case["n"], case["attr"], case["opt"] == "attr" and case["as_prop"])
        r = sizes_observe(op, cls.get_irdl_definition(), ci, names)
        if first is None:
            first = r
        elif r != first:
            return [-9, name, r, first]
    return first


# ---------------------------------------------------------------------------- the Spec, by brute force
def segmentations(kinds, opt, n, attr=None):
    """every size vector allowed by the property text for `n` arguments"""
    if opt == "attr":
        if attr is None or attr[0] != "dense" or not attr[1]:
            return []
        v = list(attr[2])
        if len(v) != len(kinds) or sum(v) != n or any(x < 0 for x in v):
            return []
        for k, x in zip(kinds, v):
            if (k == "S" and x != 1) or (k == "O" and x not in (0, 1)):
                return []
        return [v]
    out = []
    for v in itertools.product(*[[1] if k == "S" else [0, 1] if k == "O" else range(n + 1) for k in kinds]):
        if sum(v) != n:
            continue
        if opt == "same" and len({x for k, x in zip(kinds, v) if k != "S"}) > 1:
            continue
        out.append(list(v))
    return out


def expected_accessors(kinds, sizes):
    exp, start = [], 0
    for k, s in zip(kinds, sizes):
        seg = list(range(start, start + s))
        exp.append([1, seg[0]] if k == "S" else ([1, seg[0]] if seg else [0]) if k == "O" else [2, seg])
        start += s
    return exp


def check_construct(tag, kinds, opt, n, attr, verified, accs):
    """-> (ok, why, sizes)   `verified`: did verification accept; accs: observed accessor results"""
    segs = segmentations(kinds, opt, n, attr)
    if len(segs) > 1:
        return False, f"[spec] ambiguous segmentation of {n} {tag} for {kinds}/{opt}: {segs}", None
    if verified and not segs:
        return False, (f"[{opt}-size] verification accepts {n} {tag} for definitions {kinds} option {opt} "
                       f"segment sizes {attr}: no valid segmentation exists"), None
    if not verified:
        return True, "", (segs[0] if segs else None)
    exp = expected_accessors(kinds, segs[0])
    if accs != exp:
        return False, (f"[{opt}-acc] accessors of {tag} return {accs}, declared segments are {exp} "
                       f"(definitions {kinds}, option {opt}, sizes {segs[0]})"), segs[0]
    return True, "", segs[0]


def sizes_holds(case, res):
    if res[0] == -1:
        return True, ""     # the class could not be defined: nothing to verify
    if res[0] == -9:
        res = res[2]        # a registered op deviating from its siblings: judge its own result
    v, accs = res
    kinds, opt, n, attr = case["defs"], case["opt"], case["n"], case["attr"]
    segs = segmentations(kinds, opt, n, attr)
    if v != 0 and segs:
        return False, (f"[{opt}-reject] {n} arguments split as {segs[0]} for definitions {kinds} option {opt} "
                       f"but size verification raises code {v}")
    return check_construct(CONSTRUCTS[case["construct"]], kinds, opt, n, attr, v == 0, accs)[:2]


def allowed_ok(allowed, a):
    return allowed is None or a in allowed


def def_kinds(defn, ci):
    if ci == 3:
        return defn["succs"]
    return "".join(d[0] for d in defn[["operands", "results", "regions"][ci]])


def def_slots(defn):
    """every constraint of a definition as (space, allowed, var): space "V" = attribute constraint /
    attribute variable, "N" = int constraint / int variable (segment lengths, IntAttr payloads)"""
    out = []
    for fld in ("operands", "results"):
        for e in defn[fld]:
            k, a, v, ln = d_arg(e)
            out.append(("V", a, v))
            if ln is not None and k != "S":
                out.append(("N", ln[0], ln[1]))
    for e in defn["regions"]:
        k, single, a, v, ln = d_reg(e)
        out.append(("V", a, v))
        if ln is not None:
            out.append(("N", ln[0], ln[1]))
    for fld in ("props", "attrs"):
        for e in defn[fld]:
            o, a, v, is_int = d_named(e)
            out.append(("N" if is_int else "V", a, v))
    return out


def var_bases_consistent(defn):
    seen = {}
    for space, a, v in def_slots(defn):
        if v is None:
            continue
        key = None if a is None else tuple(sorted(a))
        if seen.setdefault((space, v), key) != key:
            return False
    return True


def pieces_ok(defn, segs, inst):
    """constraints on every piece, segment length, property and attribute with ONE assignment of the
    attribute variables and of the int variables (independent reference: collect (space, allowed, var,
    value) tuples, every value must be allowed and all values of one variable must coincide -- a variable
    whose first value is 0 is a bound variable like any other)"""
    pairs = []      # (space, allowed, var, value)
    for fld, sizes, vals in [("operands", segs[0], inst["operands"]), ("results", segs[1], inst["results"])]:
        start = 0
        for e, s in zip(defn[fld], sizes):
            k, allowed, var, ln = d_arg(e)
            if ln is not None and k != "S":
                pairs.append(("N", ln[0], ln[1], s))
            pairs += [("V", allowed, var, t) for t in vals[start:start + s]]
            start += s
    start = 0
    for e, s in zip(defn["regions"], segs[2]):
        k, single, allowed, var, ln = d_reg(e)
        for r in inst["regions"][start:start + s]:
            if single and len(r) != 1:
                return False, "a single-block region definition got a region with %d blocks" % len(r)
            if r:
                if ln is not None:
                    pairs.append(("N", ln[0], ln[1], len(r[0])))
                pairs += [("V", allowed, var, t) for t in r[0]]
        start += s
    for fld in ("props", "attrs"):
        for e, v in zip(defn[fld], inst[fld]):
            optional, allowed, var, is_int = d_named(e)
            if v is None:
                if not optional:
                    return False, f"required {fld[:-1]} missing"
            elif is_int:
                if v < 1000:
                    return False, f"{fld[:-1]} constrained to an IntAttr holds the non-IntAttr value {v}"
                pairs.append(("N", allowed, var, v - 1000))
            else:
                pairs.append(("V", allowed, var, v))
    if inst["extra_prop"]:
        return False, "undeclared property present"
    sigma = {}
    for space, allowed, var, t in pairs:
        if not allowed_ok(allowed, t):
            return False, f"value {t} not allowed by {allowed}"
        if var is not None and sigma.setdefault((space, var), t) != t:
            return False, f"variable {space}{var} bound to both {sigma[(space, var)]} and {t}"
    return True, ""


def inst_counts(inst):
    return [len(inst["operands"]), len(inst["results"]), len(inst["regions"]), inst["nsucc"]]


def op_holds(defn, inst, obs, built=False):
    """the property's statement on one (definition, instance, observation) triple"""
    if obs[0] == -1:
        return True, ""
    verified = obs[0] == [0] or obs[0] == 0
    counts = inst_counts(inst)
    segs, all_seg = [], True
    for ci in range(4):
        kinds, (opt, _) = def_kinds(defn, ci), defn[["opopt", "resopt", "regopt", "sucopt"][ci]]
        attr = inst[["opseg", "resseg", "regseg", "sucseg"][ci]]
        ok, why, s = check_construct(CONSTRUCTS[ci], kinds, opt, counts[ci], attr, verified or built, obs[1 + ci])
        if not ok:
            return False, why
        segs.append(s)
        all_seg = all_seg and s is not None
    if not var_bases_consistent(defn):
        return True, ""         # outside the hypothesis of the constraint clause; correspondence only
    if all_seg:
        pok, pwhy = pieces_ok(defn, segs, inst)
    else:
        pok, pwhy = False, "no segmentation"
    if verified and not pok:
        return False, f"[constraints] verification accepts although {pwhy}"
    if not verified and pok:
        return False, (f"[reject] all lists split as {segs} and every piece satisfies its constraint, "
                       f"but verification raises code {obs[0]}")
    return True, ""


def verify_holds(case, res):
    return op_holds(case["def"], case["op"], res)


def norm_arg(a):
    return [] if a is None else [a[1]] if a[0] == "one" else list(a[1])


def build_holds(case, res):
    if res[0] == -1 or len(res) == 1:
        return True, ""         # class not definable / constructor refused: no operation was built
    defn, b = case["def"], case["args"]
    shape, obs = res
    # the operation the constructor promises: its inputs, flattened, sizes recorded when attr-sized
    inst = {"props": b["props"], "attrs": b["attrs"], "extra_prop": b["extra_prop"]}
    for ci, (fld, key, segk) in enumerate([("operands", "operands", "opseg"), ("results", "results", "resseg"),
                                            ("regions", "regions", "regseg"), ("succs", "succs", "sucseg")]):
        pieces = [norm_arg(a) for a in b[fld]]
        flat = [x for p in pieces for x in p]
        got = shape[2 * ci]
        if ci == 3:
            flat = [0] * len(flat)
        if got != flat:
            return False, f"[build] constructor built {CONSTRUCTS[ci]} {got} from pieces {pieces}"
        opt = defn[["opopt", "resopt", "regopt", "sucopt"][ci]][0]
        if ci == 3:
            inst["nsucc"] = len(flat)
        else:
            inst[key] = flat
        if opt == "attr":
            if shape[2 * ci + 1] != [2, 1, [len(p) for p in pieces]]:
                return False, (f"[build] segment sizes {shape[2 * ci + 1]} do not record the piece sizes "
                               f"{[len(p) for p in pieces]}")
            inst[segk] = ["dense", True, [len(p) for p in pieces]]
        else:
            inst[segk] = ["missing"]
        # accessors must give back the constructor's inputs
        exp = expected_accessors(def_kinds(defn, ci), [len(p) for p in pieces])
        if obs[1 + ci] != exp:
            return False, (f"[{opt}-acc] accessors of built {CONSTRUCTS[ci]} return {obs[1 + ci]}, the "
                           f"constructor was given {exp}")
    return op_holds(defn, inst, obs, built=True)


# ---- known findings (classes)
def _construct_views(case):
    """(kinds, opt, n, attr) for every construct a case talks about"""
    if "defs" in case:
        return [(case["defs"], case["opt"], case["n"], case["attr"])]
    defn = case["def"]
    out = []
    for ci in range(4):
        kinds, opt = def_kinds(defn, ci), defn[["opopt", "resopt", "regopt", "sucopt"][ci]][0]
        if "op" in case:
            n = inst_counts(case["op"])[ci]
            attr = case["op"][["opseg", "resseg", "regseg", "sucseg"][ci]]
        else:
            n, attr = None, None
        out.append((kinds, opt, n, attr))
    return out


def in_kf1_class(kinds, opt, n, attr):
    """attr-sized construct whose size vector passes the per-definition checks of
    verify_variadic_attr_size but is negative somewhere or does not sum to the argument count"""
    if opt != "attr" or attr is None or attr[0] != "dense" or not attr[1]:
        return False
    v = attr[2]
    if len(v) != len(kinds):
        return False
    for k, x in zip(kinds, v):
        if (k == "S" and x != 1) or (k == "O" and x not in (0, 1)):
            return False
    return any(x < 0 for x in v) or sum(v) != n


def in_kf2_class(kinds, opt):
    """SameVariadic*Size option on a construct with definitions but no variadic/optional one"""
    return opt == "same" and len(kinds) > 0 and all(k == "S" for k in kinds)


def make_known(holds, active=("C10-kf-1", "C10-kf-2")):
    """`active`: ids of the findings still open in known_findings*.json; a finding marked `fixed`
    no longer excuses anything (a failure in its class is then a regression)"""
    def known(case, res):
        ok, why = holds(case, res)
        if ok or not active:
            return None
        views = _construct_views(case)
        flat = json.dumps(res)
        if any(in_kf2_class(k, o) for k, o, _, _ in views) and "[-1, 21]" in flat and \
                (why.startswith("[same-") or why.startswith("[reject]")):
            return "C10-kf-2" if "C10-kf-2" in active else None
        if "C10-kf-1" in active and any(in_kf1_class(*v) for v in views) and \
                (why.startswith("[attr-") or why.startswith("[constraints]")):
            return "C10-kf-1"
        return None
    return known


# ---------------------------------------------------------------------------- Coq literals
def coq_kinds(kinds):
    return coq_list(KIND[k] for k in kinds)


def coq_seg(enc):
    if enc is None or enc[0] == "missing":
        return "Missing"
    if enc[0] == "notdense":
        return "NotDense"
    return f"(Dense {coq_bool(bool(enc[1]))} {coq_Zs(enc[2])})"


def coq_optlist(a):
    return "None" if a is None else f"(Some {coq_Zs(a)})"


def coq_optnat(v):
    return "None" if v is None else f"(Some {coq_nat(v)})"


def coq_optZ(v):
    return "None" if v is None else f"(Some {coq_Z(v)})"


INT_KEY = 10      # model key of int variable N<i> is INT_KEY + i (attribute variable V<i> has key i)


def coq_ic(lc):
    """[allowed ints | None, int var | None] -> Coq int constraint (mkic), None -> None"""
    if lc is None:
        return "None"
    allowed, ivar = lc
    return f"(Some (mkic {coq_optlist(allowed)} {coq_optnat(None if ivar is None else INT_KEY + ivar)}))"


def coq_named(e):
    o, a, v, is_int = d_named(e)
    if is_int:
        return f"mknamed_int {coq_bool(o)} (mkic {coq_optlist(a)} {coq_optnat(None if v is None else INT_KEY + v)})"
    return f"mknamed {coq_bool(o)} {coq_optlist(a)} {coq_optnat(v)}"


def coq_def(defn):
    def arg(e):
        k, a, v, ln = d_arg(e)
        return f"mkarg {KIND[k]} {coq_optlist(a)} {coq_optnat(v)} {coq_ic(ln if k != 'S' else None)}"

    def reg(e):
        k, sb, a, v, ln = d_reg(e)
        return f"mkreg {KIND[k]} {coq_bool(sb)} {coq_optlist(a)} {coq_optnat(v)} {coq_ic(ln)}"
    ops = coq_list(arg(e) for e in defn["operands"])
    rs = coq_list(arg(e) for e in defn["results"])
    gs = coq_list(reg(e) for e in defn["regions"])
    ps = coq_list(coq_named(e) for e in defn["props"])
    as_ = coq_list(coq_named(e) for e in defn["attrs"])
    return (f"(Build_opdef Z {ops} {OPT[defn['opopt'][0]]} {rs} {OPT[defn['resopt'][0]]} {gs} "
            f"{OPT[defn['regopt'][0]]} {coq_kinds(defn['succs'])} {OPT[defn['sucopt'][0]]} {ps} {as_})")


def coq_regions(rs):
    return coq_list(coq_list(coq_Zs(b) for b in r) for r in rs)


def coq_inst(inst):
    return (f"(Build_opinst Z {coq_Zs(inst['operands'])} {coq_seg(inst['opseg'])} "
            f"{coq_Zs(inst['results'])} {coq_seg(inst['resseg'])} "
            f"{coq_regions(inst['regions'])} {coq_seg(inst['regseg'])} "
            f"{coq_Zs([0] * inst['nsucc'])} {coq_seg(inst['sucseg'])} "
            f"{coq_list(coq_optZ(v) for v in inst['props'])} {coq_bool(inst['extra_prop'])} "
            f"{coq_list(coq_optZ(v) for v in inst['attrs'])})")


def coq_barg(a, f):
    if a is None:
        return "BNone"
    if a[0] == "one":
        return f"(BOne {f(a[1])})"
    return f"(BSeq {coq_list(f(x) for x in a[1])})"


def coq_bargs(b):
    reg = lambda r: coq_list(coq_Zs(blk) for blk in r)
    return (f"(Build_buildargs Z {coq_list(coq_barg(a, coq_Z) for a in b['operands'])} "
            f"{coq_list(coq_barg(a, coq_Z) for a in b['results'])} "
            f"{coq_list(coq_barg(a, reg) for a in b['regions'])} "
            f"{coq_list(coq_barg(a, lambda _: '0') for a in b['succs'])} "
            f"{coq_list(coq_optZ(v) for v in b['props'])} {coq_bool(b['extra_prop'])} "
            f"{coq_list(coq_optZ(v) for v in b['attrs'])} "
            f"{coq_seg(b['opseg'])} {coq_seg(b['resseg'])} {coq_seg(b['regseg'])} {coq_seg(b['sucseg'])})")


_VER = None
KF1_WITNESS = {"defs": "VS", "opt": "attr", "n": 3, "attr": ["dense", True, [1, 1]], "construct": 0, "as_prop": False}
KF2_WITNESS = {"defs": "SS", "opt": "same", "n": 2, "attr": ["missing"], "construct": 0, "as_prop": False}


def code_version():
    """(fix_attr_sum, fix_same_novar): which of the two proposed repairs the code under test contains,
    decided by its behaviour on the two known-finding witnesses.  The selected model variant is then
    validated by the whole correspondence check (a half-applied repair matches neither variant and
    shows up as divergences)."""
    # Since fix commits 47d0183 and 30271a5 the tree contains both repairs, so the model is PINNED to the
    # repaired version: a tree that falls back to the old behaviour diverges from the model and fails the
    # oracle on the committed `fixed` witnesses (no behaviour sniffing).
    return (True, True)


def coq_ver():
    a, b = code_version()
    return f"(mkver {coq_bool(a)} {coq_bool(b)})"


def sizes_expr(c):
    return (f"c10_sizes {coq_ver()} {OPT[c['opt']]} {coq_kinds(c['defs'])} {coq_nat(c['n'])} "
            f"{coq_seg(c['attr'])}")


# ---------------------------------------------------------------------------- generators
def gen_kinds(rng, allow_multi):
    nd = rng.choices([0, 1, 2, 3, 4, 5], [2, 4, 5, 4, 2, 1])[0]
    ks = "".join(rng.choices("SOV", [5, 2, 3])[0] for _ in range(nd))
    if not allow_multi:
        # keep at most one variadic/optional definition
        seen, out = False, ""
        for k in ks:
            if k != "S" and seen:
                k = "S"
            seen = seen or k != "S"
            out += k
        ks = out
    return ks


def gen_constr(rng, var_base):
    var = rng.choice([None, None, None, 0, 1, 2])
    if var is not None and rng.random() < 0.93:
        return var_base[var], var
    allowed = rng.choice([None, None, [1], [2], [1, 2], [0, 1, 3], [4], [0, 1, 2], [1, 3]])
    return allowed, var


def gen_len(rng, ivar_base, p):
    """an optional length constraint [allowed ints | None, int variable | None]"""
    if rng.random() >= p:
        return None
    if rng.random() < 0.1:
        return [rng.choice([[0, 1, 2], [1, 2], [0, 2, 3]]), None]
    i = rng.choice([0, 0, 0, 1])
    return [ivar_base[i], i]


def gen_named(rng, var_base, ivar_base):
    if rng.random() < 0.3:      # prop_def(IntAttr.constr(IntVarConstraint("N<i>", base)))
        i = rng.choice([0, 0, 1])
        return [rng.random() < 0.3, ivar_base[i], i, "int"]
    return [rng.random() < 0.4, *gen_constr(rng, var_base)]


def gen_def(rng):
    var_base = [rng.choice([None, None, [1, 2], [1, 2, 3], [2], [0, 1, 2], [1, 3, 4]]) for _ in range(3)]
    ivar_base = [rng.choice([None, None, None, [0, 1, 2], [1, 2, 3], [0, 2]]) for _ in range(2)]
    plen = rng.choice([0.0, 0.5, 0.8])      # a third of the definitions without any length constraint
    d = {}
    for fld, optk, w in [("operands", "opopt", 1.0), ("results", "resopt", 0.8), ("regions", "regopt", 0.35),
                         ("succs", "sucopt", 0.3)]:
        opt = rng.choices(["none", "attr", "same"], [5, 3, 2])[0]
        if rng.random() > w:
            ks = rng.choice(["", "", "S"])
        else:
            ks = gen_kinds(rng, allow_multi=(opt != "none") or rng.random() < 0.04)
        if opt == "same" and ks and not ks.strip("S") and rng.random() < 0.85:
            opt = "none"     # keep the vacuous same-size option (known finding C10-kf-2) rare
        d[optk] = [opt, rng.random() < 0.5]
        if fld == "succs":
            d[fld] = ks
        elif fld == "regions":
            d[fld] = [[k, rng.random() < 0.4, *gen_constr(rng, var_base), gen_len(rng, ivar_base, plen / 2)]
                      for k in ks]
        else:
            d[fld] = [[k, *gen_constr(rng, var_base), gen_len(rng, ivar_base, plen) if k != "S" else None]
                      for k in ks]
    npa = rng.choice([0, 0, 1, 2])
    d["props"] = [gen_named(rng, var_base, ivar_base) if plen else [rng.random() < 0.4, *gen_constr(rng, var_base)]
                  for _ in range(npa)]
    d["attrs"] = [gen_named(rng, var_base, ivar_base) if plen else [rng.random() < 0.4, *gen_constr(rng, var_base)]
                  for _ in range(rng.choice([0, 0, 1, 2]))]
    d["options_first"] = rng.random() < 0.7
    return d


def gen_sizes(rng, kinds, opt, forced=None):
    """sizes obeying the kinds and the option; `forced` (parallel to kinds) = sizes wished by shared
    length variables, followed when the kind/option allows"""
    forced = forced or [None] * len(kinds)
    k = rng.choice([0, 1, 1, 2, 3])
    wish = [f for c, f in zip(kinds, forced) if c != "S" and f is not None]
    if wish:
        k = wish[0]
    if opt == "same" and "O" in kinds:
        k = k if k in (0, 1) else rng.choice([0, 1])
    out = []
    for c, f in zip(kinds, forced):
        if c == "S":
            out.append(1)
        elif opt == "same":
            out.append(k)
        elif c == "O":
            out.append(f if f in (0, 1) else rng.choice([0, 1]))
        else:
            out.append(f if f is not None else rng.choice([0, 1, 1, 2, 3]))
    return out


def pick_value(rng, allowed, var, sigma):
    if var is not None and var in sigma and rng.random() < 0.95:
        return sigma[var]
    t = rng.choice(allowed) if allowed is not None else rng.randrange(NTYPES)
    if var is not None:
        sigma.setdefault(var, t)
    return t


def gen_pieces(rng, defn):
    """a mostly valid family of pieces for every construct (sizes obey the definition; segments sharing
    a length variable mostly get the variable's value, drawn from 0..3)"""
    sigma = {}
    nvals = {i: rng.choice([0, 1, 2, 3]) for i in range(2)}

    def wish(ln):
        if ln is None or ln[1] is None or rng.random() < 0.15:
            return None
        return nvals[ln[1]]
    P = {}
    for fld, optk in [("operands", "opopt"), ("results", "resopt")]:
        ents = [d_arg(e) for e in defn[fld]]
        kinds = "".join(e[0] for e in ents)
        sizes = gen_sizes(rng, kinds, defn[optk][0], [wish(e[3]) for e in ents])
        P[fld] = [[pick_value(rng, a, v, sigma) for _ in range(s)] for (k, a, v, ln), s in zip(ents, sizes)]
    ents = [d_reg(e) for e in defn["regions"]]
    kinds = "".join(e[0] for e in ents)
    sizes = gen_sizes(rng, kinds, defn["regopt"][0])
    P["regions"] = []
    for (k, single, a, v, ln), s in zip(ents, sizes):
        seg = []
        for _ in range(s):
            nb = 1 if (single and rng.random() < 0.9) else rng.choice([0, 1, 1, 2])
            w = wish(ln)
            seg.append([[pick_value(rng, a, v, sigma) for _ in range(rng.choice([0, 1, 2]) if w is None else w)]
                        if bi == 0 else [rng.randrange(NTYPES) for _ in range(rng.choice([0, 1]))]
                        for bi in range(nb)])
        P["regions"].append(seg)
    sizes = gen_sizes(rng, defn["succs"], defn["sucopt"][0])
    P["succs"] = [[0] * s for s in sizes]
    for fld in ("props", "attrs"):
        P[fld] = []
        for e in defn[fld]:
            o, a, v, is_int = d_named(e)
            if o and rng.random() < 0.5:
                P[fld].append(None)
            elif is_int:
                r = rng.random()
                if r < 0.05:
                    P[fld].append(rng.randrange(NTYPES))                      # not an IntAttr
                elif r < 0.8 and v is not None:
                    P[fld].append(1000 + nvals[v])
                else:
                    P[fld].append(1000 + (rng.choice(a) if a is not None and rng.random() < 0.8
                                          else rng.randrange(4)))
            else:
                P[fld].append(pick_value(rng, a, v, sigma) if rng.random() < 0.97 else 1000 + rng.randrange(3))
    return P


def mutate_seg(rng, sizes):
    v = list(sizes)
    m = rng.choice(["neg", "inc", "dec", "short", "long", "swap", "notdense", "missing", "i64", "shift"])
    if m == "notdense":
        return ["notdense"]
    if m == "missing":
        return ["missing"]
    if m == "i64":
        return ["dense", False, v]
    if m == "short" and v:
        v.pop(rng.randrange(len(v)))
    elif m == "long":
        v.insert(rng.randrange(len(v) + 1), rng.choice([0, 1, 2]))
    elif v:
        i = rng.randrange(len(v))
        if m == "neg":
            v[i] = -rng.choice([1, 1, 2])
        elif m == "inc":
            v[i] += rng.choice([1, 1, 2, 4])
        elif m == "dec":
            v[i] -= 1
        elif m == "shift" and len(v) > 1:
            j = rng.randrange(len(v))
            v[i] += 1
            v[j] -= 1
        elif m == "swap":
            rng.shuffle(v)
    return ["dense", True, v]


def gen_instance(rng, defn):
    P = gen_pieces(rng, defn)
    inst = {"extra_prop": rng.random() < 0.04, "props": P["props"], "attrs": P["attrs"]}
    mutate = rng.random() < 0.55
    for fld, key, segk, optk in [("operands", "operands", "opseg", "opopt"), ("results", "results", "resseg", "resopt"),
                                 ("regions", "regions", "regseg", "regopt"), ("succs", "nsucc", "sucseg", "sucopt")]:
        flat = [x for p in P[fld] for x in p]
        sizes = [len(p) for p in P[fld]]
        opt = defn[optk][0]
        seg = ["dense", True, sizes] if opt == "attr" else rng.choice([["missing"]] * 6 + [["dense", True, sizes]])
        if mutate and rng.random() < 0.4:
            m = rng.choice(["drop", "add", "add2", "retype", "seg", "seg", "seg"] if opt == "attr"
                           else ["drop", "add", "add2", "retype"])
            if m == "drop" and flat:
                flat.pop(rng.randrange(len(flat)))
            elif m == "add":
                flat.insert(rng.randrange(len(flat) + 1), [[rng.randrange(NTYPES)]] if fld == "regions"
                            else rng.randrange(NTYPES))
            elif m == "add2":
                flat += [[[1]], [[1]]] if fld == "regions" else [rng.randrange(NTYPES)] * 2
            elif m == "retype" and flat and fld in ("operands", "results"):
                flat[rng.randrange(len(flat))] = rng.randrange(NTYPES)
            elif m == "seg":
                seg = mutate_seg(rng, sizes)
        inst[key] = len(flat) if fld == "succs" else flat
        inst[segk] = seg
    if mutate and rng.random() < 0.2:
        for fld in ("props", "attrs"):
            if inst[fld]:
                i = rng.randrange(len(inst[fld]))
                inst[fld] = list(inst[fld])
                inst[fld][i] = rng.choice([None, rng.randrange(NTYPES)])
    return inst


def gen_buildargs(rng, defn):
    P = gen_pieces(rng, defn)
    b = {"extra_prop": rng.random() < 0.03, "props": P["props"], "attrs": P["attrs"]}
    bad = rng.random() < 0.3
    for fld, optk in [("operands", "opopt"), ("results", "resopt"), ("regions", "regopt"), ("succs", "sucopt")]:
        kinds = def_kinds(defn, ["operands", "results", "regions", "succs"].index(fld))
        args = []
        for k, p in zip(kinds, P[fld]):
            if k == "S":
                a = ["one", p[0]] if rng.random() < 0.8 else ["seq", p]
            elif k == "O":
                a = (None if rng.random() < 0.6 else ["seq", []]) if not p else \
                    (["one", p[0]] if rng.random() < 0.6 else ["seq", p])
            else:
                a = ["seq", p] if (p or rng.random() < 0.8) else None
            if bad and rng.random() < 0.25:
                a = rng.choice([None, ["seq", []], ["seq", p + p], ["seq", p + [p[0] if p else ([[1]] if fld == "regions" else 1)]],
                                ["one", p[0]] if p else None])
            args.append(a)
        if bad and rng.random() < 0.1:
            if args and rng.random() < 0.5:
                args.pop()
            else:
                args.append(None)
        b[fld] = args
    for segk in ("opseg", "resseg", "regseg", "sucseg"):
        b[segk] = rng.choice([["missing"]] * 5 + [["dense", True, [7]]])
    return b


def len_family_defs(rng, n):
    """definitions in which several variadic/optional segments -- spread over operands, results and
    region entry arguments -- and possibly an IntAttr property share the length variable N0"""
    defs = []
    for j in range(n):
        base = rng.choice([None, None, None, [0, 1, 2, 3], [0, 2, 3]])
        ln = [base, 0]
        d = {"operands": [], "opopt": ["none", False], "results": [], "resopt": ["none", False],
             "regions": [], "regopt": ["none", False], "succs": "", "sucopt": ["none", False],
             "props": [], "attrs": [], "options_first": True}
        shape = j % 5 if j < 5 else rng.randrange(5)
        seg = lambda k, l=ln: [k, None, None, l]
        if shape == 0:      # three attr-sized variadic operand segments (the omp.* pattern)
            d["operands"] = [seg("V"), seg("V"), seg("V")]
            d["opopt"] = ["attr", rng.random() < 0.5]
        elif shape == 1:    # two operand segments + one variadic result
            d["operands"] = [seg("V"), ["S", None, None, None], seg("V")]
            d["opopt"] = ["attr", rng.random() < 0.5]
            d["results"] = [seg("V")]
        elif shape == 2:    # optional operand + variadic result + IntAttr property
            d["operands"] = [seg("O")]
            d["results"] = [["S", None, None, None], seg("V")]
            d["props"] = [[False, base, 0, "int"]]
        elif shape == 3:    # variadic operand + region entry arguments + IntAttr attribute
            d["operands"] = [seg("V")]
            d["regions"] = [["S", False, None, None, ln]]
            d["attrs"] = [[False, base, 0, "int"]]
        else:               # same-size operands with a second variable on the results
            d["operands"] = [seg("V"), seg("V")]
            d["opopt"] = ["same", False]
            d["results"] = [seg("V", [None, 1]), seg("V", [None, 1])]
            d["resopt"] = ["attr", False]
            d["props"] = [[False, None, 1, "int"]]
        defs.append(d)
    return defs


def len_family_cases(rng, ndefs):
    """every mix of lengths 0..3 (0/1 for optional segments, 0..3 block arguments, IntAttr payloads 0..3)"""
    cases = []
    for d in len_family_defs(rng, ndefs):
        slots = []      # (where, index, choices)
        for fld in ("operands", "results"):
            for i, e in enumerate(d[fld]):
                slots.append((fld, i, [1] if e[0] == "S" else [0, 1] if e[0] == "O" else [0, 1, 2, 3]))
        for i, e in enumerate(d["regions"]):
            slots.append(("regions", i, [0, 1, 2, 3, None]))       # block arguments; None = no block
        for fld in ("props", "attrs"):
            for i, e in enumerate(d[fld]):
                slots.append((fld, i, [1000, 1001, 1002, 1003]))
        if d["opopt"][0] == "same":        # operands all of one size
            slots = [s for s in slots if s[0] != "operands"] + [("operands*", 0, [0, 1, 2, 3])]
        for choice in itertools.product(*[c for _, _, c in slots]):
            pick = {(w, i): v for (w, i, _), v in zip(slots, choice)}
            inst = {"extra_prop": False, "nsucc": 0, "sucseg": ["missing"], "regseg": ["missing"]}
            for fld, segk, optk in [("operands", "opseg", "opopt"), ("results", "resseg", "resopt")]:
                sizes = [pick.get((fld, i), pick.get((fld + "*", 0))) for i in range(len(d[fld]))]
                inst[fld] = [1] * sum(sizes)
                inst[segk] = ["dense", True, sizes] if d[optk][0] == "attr" else ["missing"]
            inst["regions"] = [([] if pick[("regions", i)] is None else [[1] * pick[("regions", i)]])
                               for i in range(len(d["regions"]))]
            inst["props"] = [pick[("props", i)] for i in range(len(d["props"]))]
            inst["attrs"] = [pick[("attrs", i)] for i in range(len(d["attrs"]))]
            cases.append({"def": d, "op": inst})
    return cases


# ---------------------------------------------------------------------------- driver
SWEEP_VALS = [-1, 0, 1, 2, 3]
NMAX = 5


def sweep_cases(rng, kinds):
    cases = []
    for opt in ("none", "same", "attr"):
        for n in range(NMAX + 1):
            if opt == "attr":
                for v in itertools.product(SWEEP_VALS, repeat=len(kinds)):
                    cases.append({"defs": kinds, "opt": opt, "n": n, "attr": ["dense", True, list(v)]})
            else:
                cases.append({"defs": kinds, "opt": opt, "n": n, "attr": ["missing"]})
    for c in cases:
        c["construct"] = rng.randrange(4)
        c["as_prop"] = rng.random() < 0.5
    return cases


def sweep_shards(rng, lens, sample3=None):
    """one Coq expression per chunk of definition lists (<= ~800 cases each); the Coq side enumerates
    options, argument counts and size vectors itself, in the order of sweep_cases"""
    combos = ["".join(k) for ln in lens for k in itertools.product("SOV", repeat=ln)]
    if sample3 is not None:
        keep = set(rng.sample([k for k in combos if len(k) == 3], sample3))
        combos = [k for k in combos if len(k) < 3 or k in keep]
    shards, chunk, size = [], [], 0
    for kinds in combos + [None]:
        cs = sweep_cases(rng, kinds) if kinds is not None else None
        if kinds is None or (chunk and size + len(cs) > 800):
            expr = (f"c10_sweep_all {coq_ver()} {coq_list(coq_kinds(k) for k, _ in chunk)} {coq_nat(NMAX)} "
                    f"{coq_Zs(SWEEP_VALS)}")
            shards.append((expr, [c for _, x in chunk for c in x]))
            chunk, size = [], 0
        if kinds is not None:
            chunk.append((kinds, cs))
            size += len(cs)
    return shards


def sizes_nontrivial(case, res):
    if res[0] == -1:
        return None
    if case["opt"] != "none" or any(k != "S" for k in case["defs"]):
        return (case["defs"], case["opt"], case["n"], json.dumps(case["attr"]))
    return None


def op_nontrivial(case, res):
    if res[0] == -1:
        return None
    d = case["def"]
    interesting = any(def_kinds(d, ci).strip("S") or d[k][0] != "none"
                      for ci, k in enumerate(["opopt", "resopt", "regopt", "sucopt"]))
    return json.dumps(case, sort_keys=True) if interesting else None


def registered_cases(rng, per_construct):
    cases, skipped, stats, groups = [], 0, {}, {}
    for name, cls in registered_ops().items():
        for ci in range(4):
            sh = registered_shape(cls, ci)
            if sh is None:
                skipped += 1
                continue
            kinds, opt, as_prop, names = sh
            if not kinds:
                continue
            stats[(CONSTRUCTS[ci], opt)] = stats.get((CONSTRUCTS[ci], opt), 0) + 1
            groups.setdefault((ci, kinds, opt, as_prop), []).append([name, names])
    for (ci, kinds, opt, as_prop), ops in sorted(groups.items()):
        for j in range(per_construct):
            sizes = gen_sizes(rng, kinds, opt)
            n = sum(sizes)
            attr = ["dense", True, sizes] if opt == "attr" else ["missing"]
            if j % 2 == 1:
                if opt == "attr" and rng.random() < 0.7:
                    attr = mutate_seg(rng, sizes)
                else:
                    n = max(0, n + rng.choice([-2, -1, 1, 2, 3]))
            cases.append({"ops": ops, "construct": ci, "defs": kinds, "opt": opt, "as_prop": as_prop,
                          "n": n, "attr": attr})
    return cases, skipped, stats


def run(ctx: Ctx):
    thorough = ctx.tier == "thorough"
    rng = ctx.rng
    active = tuple(sorted({e["id"] for e in ctx.known_findings}))      # fixed findings excuse nothing
    k_sizes, k_verify, k_build = (make_known(sizes_holds, active), make_known(verify_holds, active),
                                  make_known(build_holds, active))
    replay_findings(ctx, "sizes", sizes_impl, sizes_holds)
    replay_findings(ctx, "verify", verify_impl, verify_holds)
    replay_findings(ctx, "build", build_impl, build_holds)
    # (a) exhaustive sweep over small definition lists
    shards = sweep_shards(rng, [0, 1, 2, 3], None if thorough else 4)
    sweep_differential(ctx, f"sizes-exhaustive-defs<=3-n<=5{'' if thorough else '-len3-sampled'}", REQ, shards,
                       sizes_impl, sizes_holds, k_sizes, sizes_nontrivial, exhaustive=True)
    # (b) random whole definitions and instances
    nd = 300 if thorough else 80
    per = 10 if thorough else 5
    vcases, bcases = [], []
    for _ in range(nd):
        d = gen_def(rng)
        for _ in range(per):
            vcases.append({"def": d, "op": gen_instance(rng, d)})
        for _ in range(per // 2 + 1):
            bcases.append({"def": d, "args": gen_buildargs(rng, d)})
    differential(ctx, DiffSpec("verify-random-definitions", REQ, vcases, verify_impl,
                               lambda c: f"c10_verify {coq_ver()} {coq_def(c['def'])} {coq_inst(c['op'])}",
                               verify_holds, k_verify, op_nontrivial, shard=150))
    # (b') integer variables: every mix of lengths 0..3 over segments sharing a length variable
    lcases = len_family_cases(rng, 12 if thorough else 5)
    if not thorough:
        lcases = [c for i, c in enumerate(lcases) if i % 2 == rng.randrange(2) or rng.random() < 0.25]
    differential(ctx, DiffSpec("length-variables-all-mixes-0..3", REQ, lcases, verify_impl,
                               lambda c: f"c10_verify {coq_ver()} {coq_def(c['def'])} {coq_inst(c['op'])}",
                               verify_holds, k_verify, op_nontrivial, shard=120))
    # (c) the generated constructor
    differential(ctx, DiffSpec("build-random-definitions", REQ, bcases, build_impl,
                               lambda c: f"c10_build {coq_ver()} {coq_def(c['def'])} {coq_bargs(c['args'])}",
                               build_holds, k_build, op_nontrivial, shard=150))
    # (d) every registered dialect operation
    rcases, skipped, stats = registered_cases(rng, 10 if thorough else 4)
    rcases.sort(key=lambda c: len(c["ops"]))
    ctx.coverage["registered_op_runs"] = sum(len(c["ops"]) for c in rcases)
    differential(ctx, DiffSpec("registered-dialect-ops", REQ, rcases, registered_impl, sizes_expr,
                               sizes_holds, k_sizes, sizes_nontrivial))
    ctx.coverage["registered_ops"] = {"ops": len(registered_ops()), "constructs_with_both_options_skipped": skipped,
                                      "constructs_by_option": {f"{a}/{b}": n for (a, b), n in sorted(stats.items())}}
    fa, fs = code_version()
    ctx.coverage["modelled_code_version"] = {
        "fix_attr_sum (C10-1.diff present in the code)": fa, "fix_same_novar (C10-2.diff present)": fs,
        "theorems_applying": (["C10_verify_iff (partial: op_disciplined, def_nonvacuous)"]
                              + (["C10_verify_sizes_attr_repaired_iff"] if fa else
                                 ["C10_verify_sizes_attr_refuted", "C10_verify_sizes_attr_partial"])
                              + ([] if fs else ["C10_same_size_no_variadic_refuted"])
                              + (["C10_verify_iff_repaired (full)"] if fa and fs else []))}
    ctx.coverage["generated"] = {"definitions": nd, "instances": len(vcases), "constructor_calls": len(bcases),
                                 "outcomes": dict(sorted(_STATS.items()))}
    ctx.coverage["rule"] = __doc__.split("\n\n", 1)[1][:1800]
    ctx.coverage["exhaustive"] = True
    ctx.coverage["explanation"] = ("exhaustive = every definition list of the stated length over single/optional/"
                                   "variadic, every option, every argument count 0..5 and (attr-sized) every size "
                                   "vector over {-1,0,1,2,3}")


def replay_case(ctx: Ctx, witness: dict) -> int:
    """--replay: re-run the recorded case on implementation and model, print both and the oracle verdict"""
    case = witness.get("case")
    if case is None:
        print("no single case recorded (see `no_longer_checks` above)")
        return 0
    if "ops" in case:
        impl, holds, expr = registered_impl, sizes_holds, sizes_expr(case)
    elif "defs" in case:
        impl, holds, expr = sizes_impl, sizes_holds, sizes_expr(case)
    elif "args" in case:
        impl, holds = build_impl, build_holds
        expr = f"c10_build {coq_ver()} {coq_def(case['def'])} {coq_bargs(case['args'])}"
    else:
        impl, holds = verify_impl, verify_holds
        expr = f"c10_verify {coq_ver()} {coq_def(case['def'])} {coq_inst(case['op'])}"
    r = impl(case)
    ok, why = holds(case, r)
    print("implementation:", json.dumps(r))
    try:
        print("model         :", json.dumps(ctx.coq_eval(REQ, [expr])[0]))
    except Exception as e:  # model unavailable: still show the implementation side
        print("model unavailable:", str(e)[:300])
    print("oracle        :", "holds" if ok else f"FAILS: {why}")
    return 0 if ok else 1
