"""C29 -- Symbol lookup returns the operation the nesting rules designate.

Tie: hand-written Coq model (coq/C29/Model.v) of xdsl.utils.symbol_table (get_nearest_symbol_table,
lookup_symbol_in [+ all_symbols], lookup_nearest_symbol_from, cached SymbolTable, SymbolTableCollection)
and traits.SymbolTable.lookup_symbol vs the real functions on IR built through the xDSL API.
One case = (tree, start op, reference); every entry point is called from that start op and the identity
(pre-order index) of every returned op is compared.  Families: (a) exhaustive sweeps -- every labelling by
(symbol name | none, visibility, is-symbol-table) of every ordered tree shape: thorough = <= 3 ops over 14
labels (3 ops under a non-table root: 6 labels) and 4 ops under an unnamed module over 6 labels; quick = <= 2
ops over 6 labels and 3 ops under an unnamed module over 8 labels; x every start op x every flat, 1- and
2-component reference over two names, plus all eight 3-component references for trees of <= 2 and of 4 ops
(two 3-component refusal probes for 3-op trees and in the quick tier: such a reference cannot resolve there);
the Coq side enumerates the trees itself; (b) seeded random nested modules up to ~20 ops (builtin.module with
and without sym_name, gpu.module, func.func public/private/nested with and without body, test.op_with_symbol,
plain test.op with decoy sym_name attributes, multi-region / multi-block ops, non-table roots, the same name in
different tables; 25% of the trees may repeat a name inside one table) x every start op x generated
references (existing chains, chains through non-tables and private symbols, missing names; str / StringAttr /
SymbolRefAttr forms); (c) depth-3+ chains module{module @a{module @b{@c}}} with decoys: every visibility of
a, b, c (b also gpu.module / non-table, c also a module) x 2- and 3-component references x every start op, plus
seeded random spines of 3-5 nested tables with references along the spine from every level -- the family that
exercises private INTERMEDIATE tables (count reported as deep_chains).  Oracle (independent of the model): set-based brute force of the statement -- nearest
enclosing table by walking up the description, first component among its children, every further component
among the children of a previous result that is a symbol table, private results dropped; the returned op must
be in that set (None iff empty); with unique names per table the collection must agree with the direct lookup.
Non-trivial: the reference has nested components or the start op sits inside an inner symbol table;
distinct = distinct (tree, start, reference).
"""
from __future__ import annotations

import functools
import itertools
import json

from harness.common import (Ctx, DiffSpec, coq_bool, coq_list, coq_nat, coq_Z, differential, exc_code,
                            replay_findings, sweep_differential)

META = {
    "id": "C29",
    "title": "Symbol lookup returns the operation the nesting rules designate",
    "design_ref": "DESIGN.md section 8.C29",
    "technique": "Coq proof of the lookup functions against an inductive resolution relation + exhaustive/random model-vs-code correspondence on IR built through the xDSL API",
    "level_text": (
        "Theorems in coq/Props/C29.v, for EVERY op tree, start op and reference (any depth): "
        "get_nearest_symbol_table is the longest enclosing symbol-table prefix; SymbolTable.lookup_nearest_symbol_from / "
        "lookup_symbol_in (and all_symbols=True) return exactly the op designated by the resolution relation "
        "(first component in the nearest table, each further component inside the previous result which must be a "
        "symbol table, private nested results refused, None otherwise, AssertionError on a non-table); with unique "
        "names per table the cached SymbolTable and every reachable state of a SymbolTableCollection agree with the "
        "direct lookup (without uniqueness the cached table returns the last duplicate: refutation witness). "
        "traits.SymbolTable.lookup_symbol on the unchanged tree is REFUTED for nested references (two witnesses) and "
        "proved complete, equal to the rule for flat references and for references that only traverse tables and name "
        "non-private symbols (partial); the proposed repair is proved equal to the rule for all inputs. The model is tied "
        "to the code by exhaustive sweeps over all small labelled trees plus random nested modules, every start op, "
        "every entry point, comparing the identity of each returned op."),
    "level_note": (
        "Trusted: Coq kernel; hand-written model (ops = (symbol name via SymbolOpInterface, visibility, has SymbolTable "
        "trait, children flattened over regions/blocks), identity = path); correspondence harness. Not covered: "
        "unregistered ops (has_trait(value_if_unregistered)), symbol tables with != 1 region/block (rejected by the "
        "verifier), non-StringAttr / invalid sym_visibility (ValueError path), symbol ops lacking sym_name "
        "(VerifyException path), SymbolTable.remove/erase and the NotImplemented methods."),
}
COQ_TARGETS = ["C29/Enc.vo", "C29/Proofs.vo", "C29/ProofsCached.vo", "C29/ProofsTraits.vo", "Props/C29.vo"]
REQ = ["C29.Model", "C29.Enc"]
ASSUMPTIONS = [
    "the IR is not mutated between lookups through one SymbolTableCollection (coll_ok)",
    "cached = direct is claimed for modules with unique symbol names per table (every verified module)",
    "symbol tables have exactly one region with one block (enforced by traits.SymbolTable.verify)",
]
TRUSTED: list[str] = []

TABLE_KINDS = ("module", "gpumod")
SYMBOL_KINDS = ("module", "gpumod", "func", "symop")
VIS_NAMES = {0: None, 1: "private", 2: "nested", 3: "public"}

# ---------------------------------------------------------------------------- case description helpers
# node = [kind, name (-1 = none), vis (0 absent/public, 1 private, 2 nested, 3 explicit "public"), regions]
# regions = list of regions, region = list of blocks, block = list of nodes


def kids_of(node):
    return [k for reg in node[3] for blk in reg for k in blk]


def sym_name_of(node):
    return node[1] if node[0] in SYMBOL_KINDS and node[1] >= 0 else None


def is_table(node):
    return node[0] in TABLE_KINDS


def is_private(node):
    return node[2] == 1


def node_at(tree, path):
    n = tree
    for i in path:
        n = kids_of(n)[i]
    return n


def all_paths(tree, pre=()):
    out = [list(pre)]
    for i, k in enumerate(kids_of(tree)):
        out += all_paths(k, pre + (i,))
    return out


def unique_names(tree):
    if is_table(tree):
        ns = [sym_name_of(k) for k in kids_of(tree) if sym_name_of(k) is not None]
        if len(ns) != len(set(ns)):
            return False
    return all(unique_names(k) for k in kids_of(tree))


def sname(n):
    return f"s{n}"


# ---------------------------------------------------------------------------- building real IR
def build_op(node, path, reg):
    from xdsl.dialects import func, gpu, test
    from xdsl.dialects.builtin import ModuleOp, StringAttr
    from xdsl.ir import Block, Region
    kind, name, vis, regions = node
    regs, ci = [], 0
    for r in regions:
        blocks = []
        for b in r:
            ops = []
            for k in b:
                ops.append(build_op(k, path + (ci,), reg))
                ci += 1
            blocks.append(Block(ops))
        regs.append(Region(blocks))
    visattr = None if VIS_NAMES[vis] is None else StringAttr(VIS_NAMES[vis])
    attrs = {} if visattr is None else {"sym_visibility": visattr}
    if kind == "module":
        op = ModuleOp(regs[0], attributes=attrs, sym_name=StringAttr(sname(name)) if name >= 0 else None)
    elif kind == "gpumod":
        op = gpu.ModuleOp(StringAttr(sname(name)), regs[0])
        op.attributes.update(attrs)
    elif kind == "func":
        op = func.FuncOp(sname(name), ((), ()), regs[0] if regs else Region(), visibility=visattr)
    elif kind == "symop":
        op = test.TestSymbolOp(regions=regs, attributes=attrs, properties={"sym_name": StringAttr(sname(name))})
    elif kind == "op":
        if name >= 0:
            attrs = dict(attrs, sym_name=StringAttr(sname(name)))   # decoy: test.op is not a symbol
        op = test.TestOp(regions=regs, attributes=attrs)
    elif kind == "term":
        op = test.TestTermOp()
    elif kind == "ret":
        op = func.ReturnOp()
    else:
        raise ValueError(kind)
    reg[path] = op
    return op


@functools.lru_cache(maxsize=256)
def built(tree_json):
    tree = json.loads(tree_json)
    by_path = {}
    root = build_op(tree, (), by_path)
    idx = {id(o): i for i, o in enumerate(root.walk())}
    assert len(idx) == len(by_path)
    return root, by_path, idx


def mk_ref(ref):
    from xdsl.dialects.builtin import StringAttr, SymbolRefAttr
    form, root, nested = ref
    if form == "str":
        return sname(root)
    if form == "attr":
        return StringAttr(sname(root))
    return SymbolRefAttr(sname(root), [sname(n) for n in nested])


def impl(case):
    from xdsl import traits
    from xdsl.utils.symbol_table import SymbolTable, SymbolTableCollection
    _root, by_path, idx = built(json.dumps(case["tree"]))
    start = by_path[tuple(case["start"])]
    ref = mk_ref(case["ref"])

    def eo(o):
        return [] if o is None else [idx[id(o)]]

    def el(l):
        return [] if l is None else [[idx[id(o)] for o in l]]

    def guard(f, enc):
        try:
            return enc(f())
        except (AssertionError, ValueError, IndexError, KeyError, TypeError, AttributeError) as e:
            return [-1, exc_code(e)]

    coll = SymbolTableCollection()
    r4 = [guard(lambda: coll.lookup_nearest_symbol_from(start, ref), eo),
          guard(lambda: coll.lookup_symbol_in(start, ref), eo),
          guard(lambda: coll.lookup_symbol_in(start, ref, all_symbols=True), el),
          [idx[id(o)] for o in coll.symbol_tables]]
    return [
        eo(SymbolTable.get_nearest_symbol_table(start)),
        guard(lambda: SymbolTable.lookup_nearest_symbol_from(start, ref), eo),
        guard(lambda: SymbolTable.lookup_symbol_in(start, ref), eo),
        guard(lambda: SymbolTable.lookup_symbol_in(start, ref, all_symbols=True), el),
        r4,
        guard(lambda: SymbolTable(start).lookup(sname(case["ref"][1])), eo),
        guard(lambda: traits.SymbolTable.lookup_symbol(start, ref), eo),
    ]


# ---------------------------------------------------------------------------- model side
def coq_tree(node):
    kind, name, vis, _ = node
    n = sym_name_of(node)
    v = {0: 0, 1: 1, 2: 2, 3: 0}[vis]
    return "(mkop {} {} {} {})".format(coq_Z(-1 if n is None else n), coq_Z(v), coq_bool(is_table(node)),
                                       coq_list(coq_tree(k) for k in kids_of(node)))


def coq_ref(ref):
    form, root, nested = ref
    if form in ("str", "attr"):
        return f"(zflat {coq_Z(root)})"
    return f"(zref {coq_Z(root)} {coq_list(coq_Z(n) for n in nested)})"


# ---------------------------------------------------------------------------- oracle (statement level)
def preorder_index(tree):
    out = {}
    for i, p in enumerate(all_paths(tree)):
        out[tuple(p)] = i
    return out


def nearest_table_path(tree, start):
    for k in range(len(start), -1, -1):
        if is_table(node_at(tree, start[:k])):
            return list(start[:k])
    return None


def outcomes(tree, table_path, root, nested):
    """set of acceptable results (paths as tuples, or None) of resolving root::nested inside the table"""
    def named_children(p, n):
        return [tuple(p) + (i,) for i, k in enumerate(kids_of(node_at(tree, p))) if sym_name_of(k) == n]

    cur = named_children(table_path, root)
    if not cur:
        return {None}
    res = set()
    frontier = set(cur)
    for m in nested:
        nxt = set()
        for p in frontier:
            if not is_table(node_at(tree, p)):
                res.add(None)
                continue
            cs = named_children(p, m)
            if not cs:
                res.add(None)
            for c in cs:
                if is_private(node_at(tree, c)):
                    res.add(None)
                else:
                    nxt.add(c)
        frontier = nxt
    return res | frontier


def valid_chain(tree, table_path, root, nested, paths):
    """all_symbols=True result: one op per component, each resolved inside the previous one"""
    comps = [root] + list(nested)
    if len(paths) != len(comps):
        return False
    prev = tuple(table_path)
    for k, (p, n) in enumerate(zip(paths, comps)):
        if tuple(p[:-1]) != prev or not is_table(node_at(tree, prev)):
            return False
        if sym_name_of(node_at(tree, p)) != n or (k > 0 and is_private(node_at(tree, p))):
            return False
        prev = tuple(p)
    return True


ENTRY = ["get_nearest_symbol_table", "SymbolTable.lookup_nearest_symbol_from", "SymbolTable.lookup_symbol_in",
         "SymbolTable.lookup_symbol_in(all_symbols=True)", "SymbolTableCollection", "SymbolTable(op).lookup",
         "traits.SymbolTable.lookup_symbol"]


def check_entries(case, res):
    """-> list of (entry index, message) for every entry point whose result violates the statement"""
    tree, start = case["tree"], list(case["start"])
    _form, root, nested = case["ref"]
    nested = list(nested) if _form == "ref" else []
    pidx = preorder_index(tree)
    inv = {v: k for k, v in pidx.items()}
    bad = []

    def as_path(enc):       # [] -> None ; [i] -> path tuple
        return None if enc == [] else inv.get(enc[0], ("?",))

    tp = nearest_table_path(tree, start)
    exp0 = [] if tp is None else [pidx[tuple(tp)]]
    if res[0] != exp0:
        bad.append((0, f"nearest symbol table {res[0]} but the nearest enclosing table is {exp0}"))

    def check_lookup(i, enc, table_path, what):
        if isinstance(enc, list) and len(enc) == 2 and enc[0] == -1:
            bad.append((i, f"{what} raised exception code {enc[1]}"))
            return
        acc = outcomes(tree, table_path, root, nested)
        got = as_path(enc)
        if got not in acc:
            bad.append((i, f"{what} returned op {enc} but the nesting rules designate "
                           f"{sorted(pidx[p] for p in acc if p is not None) or 'nothing'}"
                           f"{' or nothing' if None in acc and len(acc) > 1 else ''}"))

    def check_all(i, enc, table_path, what):
        if isinstance(enc, list) and len(enc) == 2 and enc[0] == -1:
            bad.append((i, f"{what} raised exception code {enc[1]}"))
            return
        acc = outcomes(tree, table_path, root, nested)
        if enc == []:
            if None not in acc:
                bad.append((i, f"{what} returned None but the reference resolves"))
            return
        paths = [inv.get(j, ("?",)) for j in enc[0]]
        if not valid_chain(tree, table_path, root, nested, paths):
            bad.append((i, f"{what} returned {enc[0]}, not the chain of ops the components designate"))

    start_is_table = is_table(node_at(tree, start))
    # [1] lookup_nearest_symbol_from
    if tp is None:
        if res[1] != []:
            bad.append((1, f"no enclosing symbol table but lookup_nearest_symbol_from returned {res[1]}"))
    else:
        check_lookup(1, res[1], tp, ENTRY[1])
    # [2], [3] lookup_symbol_in on the start op
    for i, chk in ((2, check_lookup), (3, check_all)):
        if not start_is_table:
            if res[i] != [-1, 6]:
                bad.append((i, f"{ENTRY[i]} on a non-table must raise AssertionError, got {res[i]}"))
        else:
            chk(i, res[i], start, ENTRY[i])
    # [4] collection
    a, b, d, keys = res[4]
    if tp is None:
        if a != []:
            bad.append((4, f"collection: no enclosing symbol table but lookup_nearest_symbol_from returned {a}"))
    else:
        check_lookup(4, a, tp, "SymbolTableCollection.lookup_nearest_symbol_from")
    if not start_is_table:
        if b != [-1, 6] or d != [-1, 6]:
            bad.append((4, f"collection lookup_symbol_in on a non-table must raise AssertionError, got {b} / {d}"))
    else:
        check_lookup(4, b, start, "SymbolTableCollection.lookup_symbol_in")
        check_all(4, d, start, "SymbolTableCollection.lookup_symbol_in(all_symbols=True)")
    if any(not is_table(node_at(tree, inv[k])) for k in keys if k in inv):
        bad.append((4, f"collection cached a table for a non-table op {keys}"))
    if unique_names(tree) and [a, b, d] != [res[1], res[2], res[3]]:
        bad.append((4, f"unique names per table but the cached lookups {[a, b, d]} differ from the direct ones {res[1:4]}"))
    # [5] SymbolTable(op).lookup(root)
    if not start_is_table:
        if res[5] != [-1, 6]:
            bad.append((5, f"SymbolTable(op) on a non-table must raise AssertionError, got {res[5]}"))
    elif isinstance(res[5], list) and len(res[5]) == 2 and res[5][0] == -1:
        bad.append((5, f"SymbolTable(op).lookup raised exception code {res[5][1]}"))
    else:
        cands = {tuple(start) + (i,) for i, k in enumerate(kids_of(node_at(tree, start))) if sym_name_of(k) == root}
        got = as_path(res[5])
        if (got is None and cands) or (got is not None and got not in cands):
            bad.append((5, f"SymbolTable(op).lookup returned {res[5]}, children with that name: {sorted(pidx[c] for c in cands)}"))
    # [6] traits.SymbolTable.lookup_symbol
    if tp is None:
        if res[6] not in ([], [-1, 3]):
            bad.append((6, f"no enclosing symbol table but traits lookup_symbol returned {res[6]}"))
    else:
        check_lookup(6, res[6], tp, ENTRY[6])
    return bad


def holds(case, res):
    bad = check_entries(case, res)
    if bad:
        return False, "; ".join(f"[{ENTRY[i]}] {m}" for i, m in bad[:3])
    return True, ""


def first_deviation(case):
    """Walk the reference the way the code does (first match) from the nearest table and report why the
    nesting rules refuse it first: 'nontable' (a component with successors names a non-table), 'private'
    (a nested component names a private symbol), or None."""
    tree, start = case["tree"], list(case["start"])
    form, root, nested = case["ref"]
    if form != "ref" or not nested:
        return None
    tp = nearest_table_path(tree, start)
    if tp is None:
        return None

    def first_named(p, n):
        for i, k in enumerate(kids_of(node_at(tree, p))):
            if sym_name_of(k) == n:
                return list(p) + [i]
        return None

    cur = first_named(tp, root)
    if cur is None:
        return None
    for m in nested:
        if not is_table(node_at(tree, cur)):
            return "nontable"
        nxt = first_named(cur, m)
        if nxt is None:
            return None
        if is_private(node_at(tree, nxt)):
            return "private"
        cur = nxt
    return None


def recorded_defect_result(case):
    """What the unchanged traits.SymbolTable.lookup_symbol is recorded to return (both findings): first match,
    a non-table intermediate sends the rest of the reference back to its enclosing table, no privacy check."""
    tree = case["tree"]
    _form, root, nested = case["ref"]

    def go(start, root, nested):
        tp = nearest_table_path(tree, start)
        if tp is None:
            return None
        for i, k in enumerate(kids_of(node_at(tree, tp))):
            if sym_name_of(k) == root:
                return list(tp) + [i] if not nested else go(list(tp) + [i], nested[0], nested[1:])
        return None

    r = go(list(case["start"]), root, list(nested))
    return [] if r is None else [preorder_index(tree)[tuple(r)]]


def private_intermediate(case):
    """the reference has >= 3 components, every component exists along first matches through symbol tables, the
    LAST one is not private, and some MIDDLE component names a private symbol (so only the refusal of private
    intermediates makes the lookup from this start op return nothing)"""
    tree = case["tree"]
    form, root, nested = case["ref"]
    if form != "ref" or len(nested) < 2:
        return False
    tp = nearest_table_path(tree, list(case["start"]))
    if tp is None:
        return False
    cur, priv_mid = tp, False
    for k, m in enumerate([root] + list(nested)):
        if not is_table(node_at(tree, cur)):
            return False
        nxt = [list(cur) + [i] for i, kid in enumerate(kids_of(node_at(tree, cur))) if sym_name_of(kid) == m]
        if not nxt:
            return False
        cur = nxt[0]
        if 0 < k < len(nested) and is_private(node_at(tree, cur)):
            priv_mid = True
        if k == len(nested) and is_private(node_at(tree, cur)):
            return False
    return priv_mid


def known(case, res):
    """A failing case belongs to a known finding only if traits.SymbolTable.lookup_symbol is the ONLY entry
    point that violates the statement, it returned exactly the op the recorded defect returns, and the first reason
    the nesting rules refuse the reference is the recorded one."""
    bad = check_entries(case, res)
    if not bad or any(i != 6 for i, _ in bad):
        return None
    if not (isinstance(res[6], list) and len(res[6]) == 1) or res[6] != recorded_defect_result(case):
        return None
    why = first_deviation(case)
    if why == "nontable":
        return "C29-kf-1"
    if why == "private":
        return "C29-kf-2"
    return None


def nontrivial(case, res):
    form, root, nested = case["ref"]
    tp = nearest_table_path(case["tree"], list(case["start"]))
    if (form == "ref" and nested) or (tp is not None and tp != []):
        return (json.dumps(case["tree"]), tuple(case["start"]), (form, root, tuple(nested)))
    return None


# ---------------------------------------------------------------------------- sweeps
def label_node(lbl, kids):
    n, v, b = lbl
    regions = [[kids]] if kids or b else []
    if b:
        return ["module", n, v, regions]
    if n >= 0:
        return ["func" if not kids else "symop", n, v, regions]
    return ["op", -1, v, regions]


def build_shape(shape, labels):
    """shape = nested lists; labels consumed in pre-order -> (node, remaining labels)"""
    lbl, rest = labels[0], labels[1:]
    kids = []
    for s in shape:
        k, rest = build_shape(s, rest)
        kids.append(k)
    return label_node(lbl, kids), rest


def shape_size(shape):
    return 1 + sum(shape_size(s) for s in shape)


def coq_shape(shape):
    return "(Sh " + coq_list(coq_shape(s) for s in shape) + ")"


def coq_label(lbl):
    return f"({coq_Z(lbl[0])}, {coq_Z(lbl[1])}, {coq_bool(lbl[2])})"


def shapes_of_size(n):
    """all ordered trees with n nodes"""
    def forests(k):
        if k == 0:
            return [[]]
        out = []
        for first in range(1, k + 1):
            for t in shapes_of_size(first):
                for rest in forests(k - first):
                    out.append([t] + rest)
        return out
    return forests(n - 1)


SWEEP_NAMES = [0, 1]


def sweep_refs(full=True):
    refs = [["str", a, []] for a in SWEEP_NAMES] + [["ref", a, []] for a in SWEEP_NAMES]
    refs += [["ref", a, [b]] for a in SWEEP_NAMES for b in SWEEP_NAMES]
    if full:
        refs += [["ref", a, [b, c]] for a in SWEEP_NAMES for b in SWEEP_NAMES for c in SWEEP_NAMES]
    else:       # a 3-component reference cannot resolve in a tree with <= 3 ops; keep two refusal probes
        refs += [["ref", 0, [0, 1]], ["ref", 1, [1, 0]]]
    return refs


def labels_full(vises):
    out = [(-1, 0, True), (-1, 0, False)]
    out += [(n, v, b) for n in SWEEP_NAMES for v in vises for b in (True, False)]
    return out


LABELS_QUICK = [(-1, 0, True), (-1, 0, False), (0, 0, True), (0, 1, True), (1, 0, False), (1, 1, False)]
LABELS_QUICK3 = LABELS_QUICK + [(0, 0, False), (1, 2, True)]
LABELS_SMALL = [(-1, 0, True), (0, 0, True), (0, 1, True), (0, 0, False), (1, 0, False), (1, 1, False)]


def sweep_shards(fixed, shape, labels, refs, prefixes, per_shard=2500):
    """shards of about `per_shard` queries; a shard covers consecutive prefixes (labels of the first nodes in
    pre-order, all of the same length); the remaining nodes range over `labels`"""
    n = shape_size(shape)
    k = len(prefixes[0])
    assert all(len(p) == k for p in prefixes) and k <= n
    groups, cur, cur_cases = [], [], []
    for pre in prefixes:
        for rest in itertools.product(labels, repeat=n - k):
            tree, left = build_shape(shape, list(pre) + list(rest))
            assert not left
            for p in all_paths(tree):
                for r in refs:
                    cur_cases.append({"tree": tree, "start": p, "ref": r})
        cur.append(pre)
        if len(cur_cases) >= per_shard:
            groups.append((cur, cur_cases))
            cur, cur_cases = [], []
    if cur:
        groups.append((cur, cur_cases))
    shards = []
    for pres, cases in groups:
        expr = "c29_sweep_multi {} {} {} {} {} {}".format(
            coq_bool(fixed), coq_shape(shape), coq_list(coq_list(coq_label(l) for l in pre) for pre in pres),
            coq_list(coq_label(l) for l in labels), coq_nat(n - k), coq_list(coq_ref(r) for r in refs))
        shards.append((expr, cases))
    return shards


def prefixes_of(labels, k, roots=None):
    roots = labels if roots is None else roots
    if k == 0:
        return [()]
    return [(r,) + rest for r in roots for rest in itertools.product(labels, repeat=k - 1)]


# ---------------------------------------------------------------------------- random trees
def gen_tree(rng, unique, max_ops):
    budget = [max_ops]
    pool = list(range(4))

    def fresh(used, p_none=0.0):
        if rng.random() < p_none:
            return -1
        if unique:
            free = [n for n in pool + [4, 5, 6, 7] if n not in used]
            if not free:
                return -2
            n = rng.choice(free[:4])
        else:
            n = rng.choice(pool[:3])
        used.add(n)
        return n

    def gen_block(depth, parent_is_func, used):
        ops = []
        k = rng.choice([0, 1, 2, 2, 3, 3, 4]) if 0 < depth < 4 else (rng.choice([2, 3, 3, 4, 5]) if depth == 0 else rng.choice([0, 1]))
        for _ in range(k):
            if budget[0] <= 0:
                break
            ops.append(gen(depth + 1, used))
        if parent_is_func:
            budget[0] -= 1
            ops.append(["ret", -1, 0, []])
        return ops

    def gen(depth, used):
        budget[0] -= 1
        kind = rng.choices(["module", "gpumod", "func", "symop", "op"], [6, 1, 5, 2, 3])[0]
        vis = rng.choices([0, 1, 2, 3], [5, 3, 2, 1])[0]
        if kind == "module":
            name = fresh(used, 0.15)
            if name == -2:
                name = -1
            return ["module", name, vis, [[gen_block(depth, False, set())]]]
        name = fresh(used)
        if name == -2:
            kind, name = "op", -1
        if kind == "gpumod":
            return ["gpumod", name, vis, [[gen_block(depth, False, set())]]]
        if kind == "func":
            if rng.random() < 0.4:
                return ["func", name, vis, []]
            # a function body is not a symbol table: names inside it live in the enclosing table's
            # *scope for lookups from there*, but are not children of that table
            return ["func", name, vis, [[gen_block(depth, True, set())]]]
        if kind == "symop":
            return ["symop", name, vis, gen_regions(depth)]
        # plain op; sometimes with a decoy sym_name attribute (unique among the table's names so that
        # traits.SymbolTable.verify still accepts the module)
        return ["op", name if rng.random() < 0.3 else -1, vis if rng.random() < 0.3 else 0, gen_regions(depth)]

    def gen_regions(depth):
        regs = []
        for _ in range(rng.choice([0, 1, 1, 2])):
            nb = rng.choice([1, 1, 1, 2])
            blocks = []
            for _ in range(nb):
                b = gen_block(depth, False, set())
                if nb > 1 or rng.random() < 0.9:    # test ops are not NoTerminator: verify() wants one
                    budget[0] -= 1
                    b.append(["term", -1, 0, []])
                blocks.append(b)
            regs.append(blocks)
        return regs

    rk = rng.choices(["module", "namedmodule", "op", "func"], [10, 3, 2, 1])[0]
    budget[0] -= 1
    if rk == "module":
        return ["module", -1, 0, [[gen_block(0, False, set())]]]
    if rk == "namedmodule":
        return ["module", rng.choice(pool), rng.choice([0, 1]), [[gen_block(0, False, set())]]]
    if rk == "op":
        return ["op", -1, 0, [[gen_block(0, False, set())]]]
    return ["func", rng.choice(pool), 0, [[gen_block(0, True, set())]]]


def gen_refs(rng, tree, count):
    """references biased to follow real chains (through tables, non-tables, private symbols)"""
    paths = all_paths(tree)
    named = [p for p in paths if p and sym_name_of(node_at(tree, p)) is not None]
    refs = []
    for _ in range(count):
        mode = rng.random()
        if named and mode < 0.7:
            p = rng.choice(named)
            # component names along the path below some ancestor table
            comps = []
            for k in range(len(p), 0, -1):
                n = sym_name_of(node_at(tree, p[:k]))
                if n is None:
                    break
                comps.append(n)
                if rng.random() < 0.35:
                    break
            comps.reverse()
            if rng.random() < 0.2:
                comps[rng.randrange(len(comps))] = rng.randrange(5)
            if rng.random() < 0.15:
                comps.append(rng.randrange(4))
        else:
            comps = [rng.randrange(5) for _ in range(rng.choice([1, 1, 2, 3, 4]))]
        if len(comps) == 1:
            refs.append([rng.choice(["str", "attr", "ref"]), comps[0], []])
        else:
            refs.append(["ref", comps[0], comps[1:]])
    return refs


def chain_trees(full=True):
    """module { func private @s1 ; module @s0 <va> { func @s0 ; <b> @s1 <vb> { <c> @s0 <vc> } } }: every visibility of
    the three spine symbols (absent / private / nested), b a builtin.module, a gpu.module or a non-table symbol op,
    c a func or a module; the decoys carry the names of b and c one level too high."""
    out = []
    for bkind, ckind in (("module", "func"), ("gpumod", "func"), ("module", "module"), ("symop", "func")):
        for va, vb, vc in itertools.product((0, 1, 2), repeat=3):
            if bkind != "module" or ckind != "func":
                if va != 0 and (full is False or (bkind, ckind) != ("gpumod", "func")):
                    continue        # all 27 for the main shape (thorough: and gpu.module); 9 for the others
            c = [ckind, 0, vc, [[[]]] if ckind == "module" else []]
            b = [bkind, 1, vb, [[[c]]]]
            a = ["module", 0, va, [[[["func", 0, 0, []], b]]]]
            out.append(["module", -1, 0, [[[["func", 1, 1, []], a]]]])
    return out


CHAIN_REFS = [["ref", 0, [1, 0]], ["ref", 0, [1]], ["ref", 1, [0]], ["ref", 0, [1, 1]], ["ref", 0, [0]]]


def gen_spine(rng):
    """a spine of 3-5 nested symbol tables (now and then a non-table) with random visibilities, decoy siblings
    re-using the spine's names at the wrong level -> (tree, references along the spine from every level)"""
    depth = rng.randint(3, 5)
    names = [rng.randrange(3) for _ in range(depth)]
    node, spine_kinds = None, []
    for lvl in range(depth - 1, -1, -1):
        vis = rng.choices([0, 1, 2, 3], [4, 4, 2, 1])[0]
        last = node is None
        kind = rng.choices(["func", "module"], [3, 1])[0] if last else rng.choices(["module", "gpumod", "symop"], [8, 2, 1])[0]
        kids = [] if last else [node]
        if not last and rng.random() < 0.6:      # decoy: the name of a deeper level, one level too high
            dn = rng.choice(names[lvl + 1:])
            if dn != names[lvl + 1]:
                kids.insert(rng.randrange(2), ["func", dn, rng.choice([0, 1]), []])
        if rng.random() < 0.3:
            kids.append(["op", -1, 0, []])
        regions = [] if (last and kind == "func") else [[kids + ([["term", -1, 0, []]] if kind == "symop" else [])]]
        node = [kind, names[lvl], vis, regions]
        spine_kinds.append(kind)
    top = [node]
    if rng.random() < 0.5 and names[1] != names[0]:
        top.insert(0, ["func", names[1], 1, []])
    tree = ["module", -1, 0, [[top]]]
    refs = []
    for lo in range(depth):                      # references along the spine, starting at every level
        for hi in range(lo + 1, depth + 1):
            if hi - lo >= 2 or rng.random() < 0.3:
                refs.append(["ref", names[lo], names[lo + 1:hi]])
    rng.shuffle(refs)
    return tree, refs[:6]


def verifies(tree):
    from xdsl.utils.exceptions import VerifyException
    root, _, _ = built(json.dumps(tree))
    try:
        root.verify()
        return True
    except (VerifyException, Exception):
        return False


# ---------------------------------------------------------------------------- driver
KF_FAMILY = "lookup"


def detect_variant(ctx):
    """The model variant compared against /repo.  Since fix commit e50af09 the tree contains the repaired
    traits.SymbolTable.lookup_symbol, so the model is pinned to the repaired variant (`traits_fixed`): a
    tree that falls back to the old behaviour diverges from the model AND fails the oracle on the committed
    `fixed` witnesses."""
    return True


def run(ctx: Ctx):
    thorough = ctx.tier == "thorough"
    rng = ctx.rng
    fixed = detect_variant(ctx)
    ctx.coverage["traits_model_variant"] = "repaired (C29-1.diff)" if fixed else "unchanged tree"
    replay_findings(ctx, KF_FAMILY, impl, holds)
    refs = sweep_refs(thorough)
    # ---- exhaustive sweeps (all shards of one alphabet in one parallel batch)
    root_table = [(-1, 0, True)]
    shards = []
    if thorough:
        labels = labels_full([0, 1, 2])
        for n in (1, 2):
            for shape in shapes_of_size(n):
                shards += sweep_shards(fixed, shape, labels, refs, prefixes_of(labels, n - 1))
        tables = [l for l in labels if l[2]]
        nontables = [l for l in LABELS_QUICK if not l[2]]
        for shape in shapes_of_size(3):     # 3 ops: every table root over 14 labels; non-table roots over 6 labels
            # (a 3-component reference cannot resolve in a 3-op tree: two refusal probes only; all 8 in the 4-op sweep)
            shards += sweep_shards(fixed, shape, labels, sweep_refs(False), prefixes_of(labels, 2, tables))
            shards += sweep_shards(fixed, shape, LABELS_QUICK, sweep_refs(False), prefixes_of(LABELS_QUICK, 2, nontables))
        what = f"all-trees-upto-3-ops-{len(labels)}labels"
    else:
        labels = LABELS_QUICK
        for n in (1, 2):
            for shape in shapes_of_size(n):
                shards += sweep_shards(fixed, shape, labels, refs, prefixes_of(labels, n - 1))
        for shape in shapes_of_size(3):     # 3 ops: the root is an unnamed module, 8 labels below it
            shards += sweep_shards(fixed, shape, LABELS_QUICK3, refs, prefixes_of(LABELS_QUICK3, 2, root_table))
        what = f"all-trees-upto-2-ops-{len(labels)}labels+3-ops-under-a-module-{len(LABELS_QUICK3)}labels"
    sweep_differential(ctx, what, REQ, shards, impl, holds, known, nontrivial)
    if thorough:                            # 4 ops: the root is an unnamed module, 6 labels below it
        shards = []
        for shape in shapes_of_size(4):
            shards += sweep_shards(fixed, shape, LABELS_SMALL, refs, prefixes_of(LABELS_SMALL, 2, root_table))
        sweep_differential(ctx, f"all-trees-4-ops-under-a-module-{len(LABELS_SMALL)}labels", REQ, shards, impl, holds,
                           known, nontrivial)
    # ---- depth-3+ chains: references of >= 3 components through private / nested / public INTERMEDIATE tables
    trees, cases = [], []
    for tree in chain_trees(thorough):
        trees.append((tree, CHAIN_REFS if thorough else CHAIN_REFS[:3]))
    for _ in range(120 if thorough else 10):
        trees.append(gen_spine(rng))
    inter = 0
    for ti, (tree, rs) in enumerate(trees):
        for r in rs:
            for p in all_paths(tree):
                cases.append({"ti": ti, "tree": tree, "start": p, "ref": r})
                inter += private_intermediate(cases[-1])
    prelude = "\n".join(f"Definition T{i} : op := {coq_tree(t)}." for i, (t, _) in enumerate(trees))
    differential(ctx, DiffSpec(
        "deep-chains-private-intermediate", REQ, cases, impl,
        lambda c: "c29_q {} T{} {} {}".format(coq_bool(fixed), c["ti"], coq_list(coq_Z(i) for i in c["start"]),
                                              coq_ref(c["ref"])),
        holds, known, nontrivial, prelude=prelude, shard=450))
    ctx.coverage["deep_chains"] = {"trees": len(trees), "exhaustive_visibility_trees": len(chain_trees(thorough)),
                                   "queries_refused_only_by_a_private_intermediate_table": inter}
    # ---- random nested modules
    ntrees = 200 if thorough else 40
    nrefs = 8 if thorough else 4
    trees, cases, verified, uniq, sizes, kinds = [], [], 0, 0, {}, {}
    for ti in range(ntrees):
        unique = rng.random() < 0.75
        tree = gen_tree(rng, unique, rng.randint(3, 16))
        trees.append(tree)
        u = unique_names(tree)
        uniq += u
        if u and verifies(tree):
            verified += 1
        paths = all_paths(tree)
        sizes[len(paths)] = sizes.get(len(paths), 0) + 1
        for p in paths:
            k = node_at(tree, p)[0]
            kinds[k] = kinds.get(k, 0) + 1
        for r in gen_refs(rng, tree, nrefs):
            for p in paths:
                cases.append({"ti": ti, "tree": tree, "start": p, "ref": r})
    prelude = "\n".join(f"Definition T{i} : op := {coq_tree(t)}." for i, t in enumerate(trees))
    differential(ctx, DiffSpec(
        "random-nested-modules", REQ, cases, impl,
        lambda c: "c29_q {} T{} {} {}".format(coq_bool(fixed), c["ti"], coq_list(coq_Z(i) for i in c["start"]),
                                              coq_ref(c["ref"])),
        holds, known, nontrivial, prelude=prelude, shard=700))
    ctx.coverage["random_trees"] = {"trees": ntrees, "unique_names_per_table": uniq, "of_those_verify()": verified,
                                    "ops_per_tree_histogram": {str(k): v for k, v in sorted(sizes.items())},
                                    "op_kinds": kinds}
    ctx.coverage["rule"] = __doc__.split("\n\n", 1)[1][:1800]
    ctx.coverage["exhaustive"] = True
    ctx.coverage["explanation"] = ("exhaustive = every labelling of every ordered tree shape of the stated size over the "
                                   "stated label alphabet x every start op x every reference with <= 3 components over 2 names")


def replay_case(ctx, witness):
    case = witness.get("case", witness)
    if "tree" not in case:
        print("witness has no lookup case")
        return 0
    r = impl(case)
    ok, why = holds(case, r)
    fixed = detect_variant(ctx)
    expr = "c29_q {} {} {} {}".format(coq_bool(fixed), coq_tree(case["tree"]),
                                      coq_list(coq_Z(i) for i in case["start"]), coq_ref(case["ref"]))
    m = ctx.coq_eval(REQ, [expr])[0]
    print(json.dumps({"impl": r, "model": m, "oracle_ok": ok, "why": why, "known": known(case, r)}, indent=1))
    return 0 if ok else 1
