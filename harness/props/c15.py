"""C15 -- The interpreter computes MLIR semantics for arithmetic and control flow.

Primary tie: TRANSLATOR.  `generate` re-translates xdsl/utils/comparisons.py (all 8 functions) and the
integer part of xdsl/interpreters/arith.py (_sign_extend, _truncate, every integer run_* method, the cmpi
predicate arms) with harness/translate/py2coq.py into coq/Gen/C15_*.v on every run; the theorems of
coq/Props/C15.v are about those regenerated definitions, for every width w >= 1 and all integers.
Second tie: correspondence.  The REAL interpreter (xdsl.interpreter.Interpreter + Arith/Func/Cf/Scf
function tables) is run next to (a) the generated Coq definitions evaluated by coqc (this checks the
translator) and (b) an independent python reference of MLIR semantics on bit patterns (the oracle):
  * every supported integer op on ALL operand pairs for i1..i4, over every representative of the
    signless range [-2^(w-1), 2^w) (the Coq side enumerates the pairs itself),
  * boundary + random operands for i8/i16/i32/i64/index (both representatives),
  * the helpers of comparisons.py called directly (exhaustive small widths, random large),
  * generated multi-op programs: func with arith ops, scf.if / scf.for, func.call, cf.br / cf.cond_br
    diamonds and loops; scf.for over index/i64 with boundary-size lb/ub/step (2^31, 2^53+-1, 2^62, INT64
    MIN/MAX, random) and true trip count 0..4; two nested cf loops (optionally a diamond in the inner body)
    whose inner blocks use outer-loop values by dominance; nested scf.for/scf.if programs and the output of the
    real convert-scf-to-cf pass on them; recursive multi-block functions (factorial / sum / fibonacci with a
    cf.cond_br base case, depth <= 8, pre-call values used after the call) and calls between multi-block
    functions; all run under an op budget (non-termination = failure), against the
    Coq machine C15/Model.v (control part hand-modelled, arithmetic =
    the generated definitions) and the reference evaluator,
  * float ops (addf subf mulf minimumf maximumf cmpf) on f64 and f32 bit patterns against exact rational
    arithmetic rounded to the format (oracle only; no Coq model of floats).
Inputs on which MLIR's result is poison/undefined (shift >= width, division by zero, MIN / -1, scf.for
step <= 0) are excluded by the oracle.  Non-trivial: the result is defined and an operand has its top bit
set or the exact result wraps (single ops); a program executes at least one control-flow op.

AFTER A REPAIR of xdsl/interpreters/arith.py lands in /repo (build/proposed_fixes/C15-<n>.diff): the model is
regenerated, so the `_refuted` block of that operation in coq/C15/ProofsFindings.v stops compiling (the check
then reports the broken lemma by name).  Flip it: delete that BEGIN/END block, append the block of the same
name from coq/C15/ProofsFixed.v.disabled to coq/C15/ProofsOps.v, swap the theorems in the FINDINGS section of
coq/Props/C15.v as the block's closing comment says, and mark the entry in known_findings.d/C15.json
`"fixed": true` (+ "commit", "line": "fixed: property=C15 <commit> <what failed>"); the witness is then
replayed as a regression test.  Every block of ProofsFixed.v.disabled was compiled against definitions
regenerated from a scratch copy of the repaired source (C15-1..4 together, and C15-1..5 together).
"""
from __future__ import annotations

import json
import math
import struct
from fractions import Fraction

from harness.common import COQ, REPO, Ctx, DiffSpec, coq_Z, eval_cases, replay_findings, to_jsonable
from harness.translate import c15_sources

META = {
    "id": "C15",
    "title": "The interpreter computes MLIR semantics for arithmetic and control flow",
    "design_ref": "DESIGN.md section 8.C15",
    "technique": "source-to-Coq translation of the interpreter's integer functions + Coq proofs for every width + "
                 "exhaustive/random differential testing of interpreter vs generated model vs independent bit-vector reference",
    "level_text": (
        "Theorems in coq/Props/C15.v are about Coq definitions REGENERATED from xdsl/utils/comparisons.py and "
        "xdsl/interpreters/arith.py on every run: for every width w >= 1 and every integer operand, to_signed/"
        "to_unsigned land in their range, preserve the bit pattern and invert each other; addi subi muli andi ori "
        "xori shli shrsi divsi remsi floordivsi index_cast accept every representative of the signless range, do not "
        "raise where MLIR defines the result (shift < width, divisor != 0, not MIN/-1) and return the canonical "
        "representative of the bit pattern MLIR prescribes; cmpi eq/ne/slt/sle/sgt/sge return the MLIR i1 pattern for "
        "every representative. PARTIAL: cmpi ult/ule/ugt/uge compare python ints (refuted by witness theorems, correct "
        "for same-sign operands; known finding C15-kf-2, the repair contradicts a pinned test). The refutations of the "
        "pre-repair code are kept as theorems about C15/Old.v. Control flow (scf.if, scf.for, cf.br, cf.cond_br, "
        "func.call/return) is a hand-written Coq machine tied to the interpreter by correspondence on generated "
        "programs (one theorem: the scf.for iteration count is MLIR's trip count for step > 0); floats are checked by "
        "the oracle only (exact rational arithmetic rounded to binary64/binary32). The translator itself is re-checked "
        "on every run against CPython on synthetic functions covering its whole subset, and must refuse 29 "
        "out-of-subset snippets."),
    "level_note": (
        "Trusted: Coq kernel; py2coq (checked on every run by executing each generated definition against the "
        "real interpreter); the binding table for interpreter idioms (args[i] -> a_i, _int_bitwidth(..) -> w, "
        "op.predicate.value.data -> pred, type-guard asserts -> true); hand-written machine C15/Model.v for "
        "run_ssacfg_region/scf/cf/func (tied by correspondence only, no theorem); CPython int semantics as given "
        "in C15/Py.v. Not covered: float ops in Coq (oracle only), ops the interpreter does not implement "
        "(listed in evidence), vector/tensor operands, external function calls."),
}
COQ_TARGETS = ["Gen/C15_comparisons.vo", "Gen/C15_arith.vo", "Gen/C15_selftest.vo", "C15/Enc.vo", "C15/ProofsOps.vo",
               "C15/ProofsFindings.vo", "C15/ProofsControl.vo", "C15/ProofsOld.vo", "Props/C15.vo"]
REQ = ["C15.Py", "Gen.C15_comparisons", "Gen.C15_arith", "C15.Model", "C15.Enc"]
ASSUMPTIONS = [
    "operands of the modelled ops are scalar integer/index typed (the type-guard asserts of run_* are true)",
    "index has 64 bits (Interpreter.index_bitwidth default on this platform)",
    "program inputs are canonical (signed) representatives; constants are what IntegerAttr stores",
]
TRUSTED = ["harness/translate/py2coq.py + binding table in harness/translate/c15_sources.py",
           "coq/C15/Py.v (CPython semantics of // % << >> incl. their exceptions)"]

GEN_INFO: dict = {}
MAX_SHIFT = 300
OP_BUDGET = 20000


class BudgetExceeded(BaseException):
    pass


def generate(ctx: Ctx):
    global GEN_INFO, SELFTEST_SIGS
    GEN_INFO = c15_sources.generate(REPO, COQ / "Gen")
    # translator self-test module (synthetic functions covering every construct of the subset)
    from harness.common import VERIF, write_if_changed
    from harness.translate.py2coq import Translator
    rel = "harness/translate/selftest_src.py"
    tr = Translator((VERIF / rel).read_text(), rel)
    for fd in tr.defs.values():
        tr.function(fd)
    write_if_changed(COQ / "Gen" / "C15_selftest.v", tr.render(["C15.Py"], "py2coq self-test"))
    SELFTEST_SIGS = {s.py_name: s for s, _ in tr.out}


SELFTEST_SIGS: dict = {}


def st_impl(case):
    from harness.translate import selftest_src
    try:
        r = getattr(selftest_src, case["f"])(*case["args"])
    except Exception:
        return []
    if isinstance(r, tuple):
        return [[int(x) for x in r]]
    return [int(r)]


def st_coq_expr(case):
    sig = SELFTEST_SIGS[case["f"]]
    args = " ".join(("true" if a else "false") if t == "bool" else cz(a) for a, (_, t) in zip(case["args"], sig.params))
    call = f"{sig.coq_name} {args}"
    if sig.ret == "Z":
        one = "I r"
    elif sig.ret == "bool":
        one = "sB r"
    else:
        one = "(let '(x, y) := r in L (cons (I x) (cons (I y) nil)))"
    if sig.partial:
        return f"match {call} with None => L nil | Some r => L (cons ({one}) nil) end"
    return f"(let r := {call} in L (cons ({one}) nil))"


def translator_selftest(ctx: Ctx, thorough: bool, rnd):
    """(1) every negative snippet must be refused; (2) generated Coq == CPython on the synthetic functions"""
    from harness.translate.py2coq import Translator, Untranslatable
    from harness.translate.selftest_neg import NEGATIVE
    accepted = []
    for why, code in NEGATIVE.items():
        t = Translator(code, "negative-snippet")
        try:
            t.function(t.defs["f"])
            accepted.append(why)
        except Untranslatable:
            pass
    ctx.coverage["translator_negative_snippets"] = {"count": len(NEGATIVE), "wrongly_accepted": accepted}
    if accepted:
        ctx.broken.append({"translator": f"py2coq accepted constructs outside its subset: {accepted}"})
    import itertools
    rng = ctx.rng
    cases = []
    for name, sig in SELFTEST_SIGS.items():
        doms = []
        for pn, t in sig.params:
            if t == "bool":
                doms.append([False, True])
            elif pn == "n":
                doms.append(list(range(-2, 7)))
            elif pn == "p":
                doms.append(list(range(-1, 7)))
            else:
                doms.append(list(range(-3, 4)) + [11, -13])
        for args in itertools.product(*doms):
            cases.append({"f": name, "args": list(args)})
        for _ in range(60 if thorough else 15):
            args = []
            for pn, t in sig.params:
                if t == "bool":
                    args.append(rng.random() < 0.5)
                elif pn in ("n", "p"):
                    args.append(rng.randrange(-3, 70))
                else:
                    args.append(rng.randrange(-2 ** 70, 2 ** 70) if rng.random() < 0.5 else rng.randrange(-300, 300))
            cases.append({"f": name, "args": args})
    rnd.add_spec(DiffSpec("py2coq-selftest (synthetic functions, generated Coq vs CPython)",
                          ["C15.Py", "Gen.C15_selftest"], cases, st_impl, st_coq_expr, None, None,
                          lambda c, r: (c["f"], tuple(c["args"])), shard=1000))


# ============================================================================ independent reference
def width(ty) -> int:
    return 64 if ty == "index" else int(ty)


def pat(w, x):
    return x % (1 << w)


def sval(w, u):
    return u - (1 << w) if (u >> (w - 1)) & 1 else u


def in_signless(w, r):
    return -(1 << (w - 1)) <= r < (1 << w)


CMPI = ["eq", "ne", "slt", "sle", "sgt", "sge", "ult", "ule", "ugt", "uge"]
BINOPS = ["addi", "subi", "muli", "andi", "ori", "xori", "shli", "shrsi", "shrui", "divsi", "divui", "remsi",
          "remui", "floordivsi", "ceildivsi", "ceildivui", "minsi", "maxsi", "minui", "maxui"]
CASTOPS = ["index_cast", "extsi", "extui", "trunci"]
ARITH_CLASS = {v: k for k, v in {**c15_sources.BINARY, **c15_sources.CASTS, **c15_sources.CMPI}.items()}


def ref_bin(op, w, ua, ub):
    """MLIR result bit pattern (unsigned int) or None where MLIR's result is poison / undefined."""
    m = 1 << w
    sa, sb = sval(w, ua), sval(w, ub)
    if op == "addi": return (ua + ub) % m
    if op == "subi": return (ua - ub) % m
    if op == "muli": return (ua * ub) % m
    if op == "andi": return ua & ub
    if op == "ori": return ua | ub
    if op == "xori": return ua ^ ub
    if op in ("shli", "shrsi", "shrui"):
        if ub >= w:
            return None
        if op == "shli": return (ua << ub) % m
        if op == "shrui": return ua >> ub
        return math.floor(Fraction(sa, 1 << ub)) % m
    if op in ("divsi", "remsi", "floordivsi", "ceildivsi"):
        if sb == 0 or (sa == -(m >> 1) and sb == -1):
            return None
        q = Fraction(sa, sb)
        if op == "divsi": return math.trunc(q) % m
        if op == "remsi": return (sa - sb * math.trunc(q)) % m
        if op == "floordivsi": return math.floor(q) % m
        return math.ceil(q) % m
    if op in ("divui", "remui", "ceildivui"):
        if ub == 0:
            return None
        q = Fraction(ua, ub)
        if op == "divui": return math.floor(q)
        if op == "remui": return ua - ub * math.floor(q)
        return math.ceil(q) % m
    if op == "minsi": return (sa if sa <= sb else sb) % m
    if op == "maxsi": return (sa if sa >= sb else sb) % m
    if op == "minui": return min(ua, ub)
    if op == "maxui": return max(ua, ub)
    raise KeyError(op)


def ref_cmpi(pred, w, ua, ub) -> int:
    sa, sb = sval(w, ua), sval(w, ub)
    return int({"eq": ua == ub, "ne": ua != ub, "slt": sa < sb, "sle": sa <= sb, "sgt": sa > sb, "sge": sa >= sb,
                "ult": ua < ub, "ule": ua <= ub, "ugt": ua > ub, "uge": ua >= ub}[pred])


def ref_cast(op, w_in, w_out, ua):
    if op == "index_cast":
        op = "trunci" if w_out < w_in else "extsi" if w_out > w_in else "same"
    if op == "same": return ua
    if op == "trunci": return ua % (1 << w_out)
    if op == "extsi": return sval(w_in, ua) % (1 << w_out)
    if op == "extui": return ua
    raise KeyError(op)


# ============================================================================ the real interpreter
_INTERP = None
_OPCACHE: dict = {}


def interp(module=None):
    from xdsl.dialects.builtin import ModuleOp
    from xdsl.interpreter import Interpreter
    from xdsl.interpreters.arith import ArithFunctions
    from xdsl.interpreters.cf import CfFunctions
    from xdsl.interpreters.func import FuncFunctions
    from xdsl.interpreters.scf import ScfFunctions
    it = Interpreter(module if module is not None else ModuleOp([]))
    for f in (ArithFunctions(), FuncFunctions(), CfFunctions(), ScfFunctions()):
        it.register_implementations(f)
    return it


def shared_interp():
    global _INTERP
    if _INTERP is None:
        _INTERP = interp()
    return _INTERP


def supported(mnemonic: str) -> bool:
    from xdsl.dialects import arith
    cls = getattr(arith, ARITH_CLASS[mnemonic], None)
    if cls is None:
        return False
    return cls in shared_interp()._impls._impl_dict          # noqa: SLF001 (read-only peek)


def xty(ty):
    from xdsl.dialects.builtin import Float32Type, Float64Type, IndexType, IntegerType
    if ty == "index": return IndexType()
    if ty == "f32": return Float32Type()
    if ty == "f64": return Float64Type()
    return IntegerType(int(ty))


def single_op(kind, op, ty, ty2=None, pred=None):
    """a detached op of the right types (operands are results of test ops), cached"""
    key = (kind, op, str(ty), str(ty2), pred)
    if key in _OPCACHE:
        return _OPCACHE[key]
    from xdsl.dialects import arith, test
    l, r = test.TestOp(result_types=[xty(ty)]), test.TestOp(result_types=[xty(ty)])
    if kind == "bin":
        o = getattr(arith, ARITH_CLASS[op])(l, r)
    elif kind == "cmpi":
        o = arith.CmpiOp(l, r, pred)
    elif kind == "cast":
        o = getattr(arith, ARITH_CLASS[op])(l, xty(ty2))
    elif kind == "fbin":
        o = {"addf": arith.AddfOp, "subf": arith.SubfOp, "mulf": arith.MulfOp, "minimumf": arith.MinimumfOp,
             "maximumf": arith.MaximumfOp}[op](l, r)
    elif kind == "cmpf":
        o = arith.CmpfOp(l, r, pred)
    else:
        raise KeyError(kind)
    _OPCACHE[key] = (o, l, r)
    return _OPCACHE[key]


def enc_int(v):
    if isinstance(v, bool):
        return [int(v)]
    if isinstance(v, int):
        return [v]
    return [-999999, repr(type(v))]      # not an int at all: visible to oracle and correspondence


# ---------------------------------------------------------------------------- single integer ops
def op_impl(case):
    """case: {"k": "bin"|"cmpi"|"cast", "op", "ty", ("ty2"), ("pred"), "a", ("b")} -> [] (raised) | [r]"""
    k = case["k"]
    try:
        o, _, _ = single_op(k, case["op"], case["ty"], case.get("ty2"), case.get("pred"))
        args = (case["a"],) if k == "cast" else (case["a"], case["b"])
        (r,) = shared_interp().run_op(o, args)
    except Exception:           # AssertionError, InterpretationError, ValueError, ZeroDivisionError: "raised"
        return []
    return enc_int(r)


def op_expected(case):
    """-> (w_result, expected pattern | None)"""
    k, w = case["k"], width(case["ty"])
    if k == "bin":
        return w, ref_bin(case["op"], w, pat(w, case["a"]), pat(w, case["b"]))
    if k == "cmpi":
        return 1, ref_cmpi(case["pred"], w, pat(w, case["a"]), pat(w, case["b"]))
    w2 = width(case["ty2"])
    return w2, ref_cast(case["op"], w, w2, pat(w, case["a"]))


def op_holds(case, res):
    wr, exp = op_expected(case)
    if exp is None:
        return True, "MLIR: poison/undefined"
    what = f"{case['op']}{'/' + case['pred'] if case.get('pred') else ''} {case['a']}{', ' + str(case['b']) if 'b' in case else ''} : {case['ty']}"
    if len(res) != 1:
        return False, f"{what}: interpreter raised / returned a non-int ({res}) where MLIR defines the result pattern {exp}"
    r = res[0]
    if not in_signless(wr, r):
        return False, f"{what} = {r}: outside the range [{-(1 << (wr - 1))}, {1 << wr}) of the {wr}-bit result type"
    if pat(wr, r) != exp:
        return False, f"{what} = {r} (bit pattern {pat(wr, r)}), MLIR semantics give bit pattern {exp}"
    return True, ""


def op_known(case, res):
    """class predicates of the LISTED known findings (known_findings.d/C15.json); specific, never 'any
    failure'.  Classes whose defect was repaired (shli unwrapped 4351108, operands of shrsi/divsi/remsi/
    floordivsi not normalised 6674019 2cae97b, cmpi eq/ne/signed on representatives e4f2eb2) are no longer
    recognised here: a failure of that kind is a violation again."""
    k = case["k"]
    a, b = case["a"], case.get("b", 0)
    if k == "cmpi" and case["pred"] in ("ult", "ule", "ugt", "uge"):
        # C15-kf-2: unsigned predicates compare the python ints: exactly one operand representative negative
        if (a < 0) != (b < 0):
            return "C15-kf-2"
    return None


def op_nontrivial(case, res):
    wr, exp = op_expected(case)
    if exp is None or len(res) != 1:
        return None
    w = width(case["ty"])
    top = any(pat(w, case[x]) >> (w - 1) for x in ("a", "b") if x in case)
    wraps = case["k"] == "bin" and case["op"] in ("addi", "subi", "muli", "shli") and not (
        0 <= {"addi": lambda x, y: x + y, "subi": lambda x, y: x - y, "muli": lambda x, y: x * y,
              "shli": lambda x, y: x << y}[case["op"]](pat(w, case["a"]), pat(w, case["b"])) < (1 << w))
    if top or wraps:
        return (case["op"], case.get("pred"), str(case["ty"]), str(case.get("ty2")), case["a"], case.get("b"))
    return None


def coq_fn(case):
    if case["k"] == "cmpi":
        return f"run_cmpi {CMPI.index(case['pred'])}"
    return "run_" + case["op"]


def op_coq_expr(case):
    k = case["k"]
    if k == "cast":
        return f"enc_oz ({coq_fn(case)} {width(case['ty'])} {width(case['ty2'])} {cz(case['a'])})"
    return f"enc_oz ({coq_fn(case)} {width(case['ty'])} {cz(case['a'])} {cz(case['b'])})"


def signless_reps(w):
    return list(range(-(1 << (w - 1)), 1 << w))


def exhaustive_shards(ops_bin, ops_cast):
    """one shard per op / predicate covering i1..i4 (the Coq side enumerates the operand pairs)"""
    shards = []
    ws = [1, 2, 3, 4]
    for op in ops_bin:
        cases = [{"k": "bin", "op": op, "ty": w, "a": a, "b": b} for w in ws for a in signless_reps(w) for b in signless_reps(w)]
        shards.append(("sx_concat [" + "; ".join(f"sweep2 run_{op} {w}" for w in ws) + "]", cases))
    for p, pred in enumerate(CMPI):
        cases = [{"k": "cmpi", "op": "cmpi", "pred": pred, "ty": w, "a": a, "b": b}
                 for w in ws for a in signless_reps(w) for b in signless_reps(w)]
        shards.append(("sx_concat [" + "; ".join(f"sweep2 (run_cmpi {p}) {w}" for w in ws) + "]", cases))
    for op in ops_cast:
        # arith.index_cast needs index on one side to VERIFY; the interpreter does not verify, so the (unverified)
        # op between two small integer types exercises the implementation at every small width pair
        pairs = [(wi, wo) for wi in ws for wo in ws]
        cases = [{"k": "cast", "op": op, "ty": wi, "ty2": wo, "a": a} for wi, wo in pairs for a in signless_reps(wi)]
        shards.append(("sx_concat [" + "; ".join(f"sweep_cast run_{op} {wi} {wo}" for wi, wo in pairs) + "]", cases))
    return shards


def merge_shards(shards, n):
    """pack many (expr : L [...], cases) shards into n (one coqc start-up costs ~3 s, a sweep ~0.3 s)"""
    groups = [shards[i::n] for i in range(n)]
    out = []
    for g in groups:
        if g:
            out.append(("sx_concat [" + "; ".join(e for e, _ in g) + "]", [c for _, cs in g for c in cs]))
    return out


def boundary(w, rng, extra):
    m, h = 1 << w, 1 << (w - 1)
    vals = {0, 1, 2, 3, -1, -2, -3, h - 1, h - 2, -h, -h + 1, h, h + 1, m - 1, m - 2, w - 1, w, w + 1, 7, -7, m - 7}
    vals = {v for v in vals if in_signless(w, v)}
    out = sorted(vals)
    for _ in range(extra):
        out.append(rng.randrange(-h, m))
    return out


def any_op_impl(case):
    return op_impl(case)


# ============================================================================ comparisons.py directly
CMP_FUNS = ["unsigned_upper_bound", "signed_lower_bound", "signed_upper_bound", "unsigned_value_range",
            "signed_value_range", "signless_value_range", "to_unsigned", "to_signed"]


def cmp_impl(case):
    from xdsl.utils import comparisons
    f = getattr(comparisons, case["f"])
    try:
        r = f(*case["args"])
    except Exception:
        return []
    return [list(r)] if isinstance(r, tuple) else [r]


def cmp_coq_expr(case):
    f, args = case["f"], " ".join(coq_Z(a) for a in case["args"])
    if f.endswith("_range"):
        return f"match {f} {args} with None => L [] | Some (a, b) => L [L [I a; I b]] end"
    return f"enc_oz ({f} {args})"


def cmp_holds(case, res):
    f, args = case["f"], case["args"]
    w = args[-1]
    if w < 0:
        return True, "negative width: outside the property"
    exp = {"unsigned_upper_bound": lambda: 2 ** w, "signed_lower_bound": lambda: -(2 ** w // 2),
           "signed_upper_bound": lambda: 2 ** max(w - 1, 0),
           "unsigned_value_range": lambda: [0, 2 ** w], "signed_value_range": lambda: [-(2 ** w // 2), 2 ** max(w - 1, 0)],
           "signless_value_range": lambda: [-(2 ** w // 2), 2 ** w]}
    if f in exp:
        e = exp[f]()
        return (res == [e]), f"{f}({w}) = {res}, expected {e}"
    x = args[0]
    if len(res) != 1:
        return False, f"{f}{tuple(args)} raised"
    r = res[0]
    if f == "to_unsigned":
        ok = 0 <= r < 2 ** w and (r - x) % 2 ** w == 0
    else:
        if w == 0:
            return True, "to_signed at width 0: outside the property"
        ok = -(2 ** (w - 1)) <= r < 2 ** (w - 1) and (r - x) % 2 ** w == 0
    return ok, f"{f}({x}, {w}) = {r}: not the representative of the same bit pattern in the target range"


# ============================================================================ programs
def new_program_generator(rng):
    return ProgGen(rng)


class ProgGen:
    TYPES = [1, 8, 32, "index", 8, 32, "index", 4, 16, 64]

    def __init__(self, rng):
        self.rng = rng
        self.nid = 0
        self.funcs = []

    def fresh(self):
        self.nid += 1
        return self.nid

    def const_val(self, ty):
        w, r = width(ty), self.rng
        h = 1 << (w - 1)
        c = r.random()
        if c < 0.5:
            v = r.choice([0, 1, -1, 2, 3, -2, h - 1, -h, 5, 7])
        elif c < 0.8:
            v = r.randrange(-8, 9)
        else:
            v = r.randrange(-h, h)
        v = max(-h, min(h - 1, v))
        if ty == "index" and r.random() < 0.04:
            v = r.choice([(1 << 64) - 1, 1 << 63, (1 << 64) - 5])      # index constants are stored un-normalised
        return v

    def pick(self, avail, ty, ops):
        """an SSA id of type ty (a fresh constant if none is available or with some probability)"""
        vs = avail.get(str(ty), [])
        if vs and self.rng.random() < 0.8:
            return self.rng.choice(vs)
        i = self.fresh()
        ops.append(["const", i, ty, self.const_val(ty)])
        avail.setdefault(str(ty), []).append(i)
        return i

    def small_const(self, avail, ty, lo, hi, ops, nonzero=False):
        v = self.rng.randint(lo, hi)
        if nonzero and v == 0:
            v = 1
        i = self.fresh()
        ops.append(["const", i, ty, v])
        avail.setdefault(str(ty), []).append(i)
        return i

    def gen_ops(self, avail, n, depth, binops):
        """n random ops appended to a fresh list; `avail` (type -> ids) is extended in place"""
        r, ops = self.rng, []
        for _ in range(n):
            c = r.random()
            tys = [t for t in avail if avail[t]]
            ty = r.choice(self.TYPES) if (not tys or r.random() < 0.25) else r.choice(tys)
            ty = "index" if ty == "index" else int(ty)
            w = width(ty)
            if c < 0.50:
                op = r.choice(binops)
                a = self.pick(avail, ty, ops)
                if op in ("shli", "shrsi", "shrui"):      # always a small constant count (see MAX_SHIFT)
                    b = self.small_const(avail, ty, 0, min(w - 1, 7) if w > 1 else 0, ops)
                elif op in ("divsi", "remsi", "floordivsi", "divui", "remui", "ceildivsi", "ceildivui") and r.random() < 0.85:
                    lo, hi = (-1, 0) if w == 1 else (-5, 5)
                    b = self.small_const(avail, ty, lo, min(hi, (1 << (w - 1)) - 1), ops, nonzero=True)
                    if w == 1:
                        ops[-1][3] = -1
                else:
                    b = self.pick(avail, ty, ops)
                i = self.fresh()
                ops.append(["bin", i, op, ty, a, b])
                avail.setdefault(str(ty), []).append(i)
            elif c < 0.68:
                a, b = self.pick(avail, ty, ops), self.pick(avail, ty, ops)
                i = self.fresh()
                ops.append(["cmpi", i, r.choice(CMPI), ty, a, b])
                avail.setdefault("1", []).append(i)
            elif c < 0.76:
                other = r.choice([8, 32, 64, 16])
                tin, tout = ("index", other) if r.random() < 0.5 else (other, "index")
                a = self.pick(avail, tin, ops)
                i = self.fresh()
                ops.append(["cast", i, tin, tout, a])
                avail.setdefault(str(tout), []).append(i)
            elif c < 0.84 and depth > 0:
                cond = self.pick(avail, 1, ops)
                rtys = [r.choice([8, 32, "index", 1]) for _ in range(r.randint(1, 2))]
                blocks = []
                for _ in range(2):
                    av = {k: list(v) for k, v in avail.items()}
                    bops = self.gen_ops(av, r.randint(0, 3), depth - 1, binops)
                    ys = [self.pick(av, t, bops) for t in rtys]
                    blocks.append({"args": [], "ops": bops, "term": ["ret", ys]})
                ress = [self.fresh() for _ in rtys]
                ops.append(["if", ress, rtys, cond, blocks[0], blocks[1]])
                for t, i in zip(rtys, ress):
                    avail.setdefault(str(t), []).append(i)
            elif c < 0.92 and depth > 0:
                lbv = r.randint(-3, 4)
                ubv = lbv + r.randint(-2, 7)
                stv = r.choice([1, 1, 1, 2, 3, 3, 0, -1]) if r.random() < 0.15 else r.choice([1, 1, 2, 3])
                ids = []
                for v in (lbv, ubv, stv):
                    i = self.fresh()
                    ops.append(["const", i, "index", v])
                    ids.append(i)
                itys = [r.choice([8, 32, "index"]) for _ in range(r.randint(1, 2))]
                inits = [self.pick(avail, t, ops) for t in itys]
                iv = self.fresh()
                bargs = [[iv, "index"]] + [[self.fresh(), t] for t in itys]
                av = {k: list(v) for k, v in avail.items()}
                for i, t in bargs:
                    av.setdefault(str(t), []).append(i)
                bops = self.gen_ops(av, r.randint(1, 3), depth - 1, binops)
                # make the iteration observable: combine each iter arg with something of its type
                ys = []
                for (ai, t) in bargs[1:]:
                    other = self.pick(av, t, bops)
                    i = self.fresh()
                    bops.append(["bin", i, r.choice(["addi", "xori", "subi", "muli"]), t, ai, other])
                    av.setdefault(str(t), []).append(i)
                    ys.append(i)
                ress = [self.fresh() for _ in itys]
                ops.append(["for", ress, itys, ids[0], ids[1], ids[2], inits, {"args": bargs, "ops": bops, "term": ["ret", ys]}])
                for t, i in zip(itys, ress):
                    avail.setdefault(str(t), []).append(i)
            elif c < 0.97 and self.funcs and depth > 0:
                k = r.randrange(len(self.funcs))
                f = self.funcs[k]
                args = [self.pick(avail, t, ops) for _, t in f["blocks"][0]["args"]]
                ress = [self.fresh() for _ in f["rets"]]
                ops.append(["call", ress, list(f["rets"]), k + 1, args])       # index 0 is main
                for t, i in zip(f["rets"], ress):
                    avail.setdefault(str(t), []).append(i)
            else:
                self.pick(avail, ty, ops)
        return ops

    def helper(self, binops):
        r = self.rng
        atys = [r.choice([8, 32, "index", 1]) for _ in range(r.randint(1, 2))]
        args = [[self.fresh(), t] for t in atys]
        avail = {}
        for i, t in args:
            avail.setdefault(str(t), []).append(i)
        ops = self.gen_ops(avail, r.randint(1, 4), 1, binops)
        rty = r.choice([8, 32, "index", 1])
        y = self.pick(avail, rty, ops)
        return {"rets": [rty], "blocks": [{"args": args, "ops": ops, "term": ["ret", [y]]}]}

    def program(self, binops):
        r = self.rng
        self.nid, self.funcs = 0, []
        for _ in range(r.choice([0, 0, 1, 2])):
            self.funcs.append(self.helper(binops))
        atys = [r.choice([8, 32, "index", 1, 16, 64, 4]) for _ in range(r.randint(1, 3))]
        args = [[self.fresh(), t] for t in atys]
        avail = {}
        for i, t in args:
            avail.setdefault(str(t), []).append(i)
        shape = r.choice(["straight", "straight", "diamond", "loop"])
        if shape == "straight":
            ops = self.gen_ops(avail, r.randint(2, 8), 2, binops)
            rtys = [r.choice([t for t in avail if avail[t]]) for _ in range(r.randint(1, 3))]
            rtys = ["index" if t == "index" else int(t) for t in rtys]
            ys = [r.choice(avail[str(t)]) for t in rtys]
            blocks = [{"args": args, "ops": ops, "term": ["ret", ys]}]
        elif shape == "diamond":
            ops = self.gen_ops(avail, r.randint(1, 4), 1, binops)
            cond = self.pick(avail, 1, ops)
            mty = r.choice([8, 32, "index"])
            arms = []
            for _ in range(2):
                pty = r.choice([8, 32, "index"])
                p = self.fresh()
                av = {k: list(v) for k, v in avail.items()}
                av.setdefault(str(pty), []).append(p)
                bops = self.gen_ops(av, r.randint(1, 3), 1, binops)
                y = self.pick(av, mty, bops)
                arms.append((pty, p, bops, y))
            targs = [self.pick(avail, arms[0][0], ops)]
            eargs = [self.pick(avail, arms[1][0], ops)]
            m = self.fresh()
            av = {k: list(v) for k, v in avail.items()}
            av.setdefault(str(mty), []).append(m)
            mops = self.gen_ops(av, r.randint(1, 3), 1, binops)
            rtys = [mty, r.choice([t for t in av if av[t]])]
            rtys = ["index" if t == "index" else int(t) for t in rtys]
            ys = [m if r.random() < 0.5 else r.choice(av[str(rtys[0])]), r.choice(av[str(rtys[1])])]
            blocks = [
                {"args": args, "ops": ops, "term": ["condbr", cond, 1, targs, 2, eargs]},
                {"args": [[arms[0][1], arms[0][0]]], "ops": arms[0][2], "term": ["br", 3, [arms[0][3]]]},
                {"args": [[arms[1][1], arms[1][0]]], "ops": arms[1][2], "term": ["br", 3, [arms[1][3]]]},
                {"args": [[m, mty]], "ops": mops, "term": ["ret", ys]},
            ]
        else:
            ity = r.choice([8, 32, "index"])
            aty = r.choice([8, 32, "index"])
            ops = self.gen_ops(avail, r.randint(0, 3), 1, binops)
            # a counting loop that terminates within a few iterations: `ne` only with step 1 and i0 <= n
            pred = r.choice(["slt", "slt", "ne", "sle"])
            i0 = self.small_const(avail, ity, -2, 2, ops)
            n = self.small_const(avail, ity, -1, 6, ops)
            one = self.small_const(avail, ity, 1, 2, ops)
            if pred == "ne":
                ops[-1][3] = 1
                ops[-2][3] = max(ops[-2][3], ops[-3][3])
            acc0 = self.pick(avail, aty, ops)
            hi, hacc = self.fresh(), self.fresh()
            c = self.fresh()
            hops = [["cmpi", c, pred, ity, hi, n]]
            bi, bacc = self.fresh(), self.fresh()
            av = {k: list(v) for k, v in avail.items()}
            av.setdefault(str(ity), []).append(bi)
            av.setdefault(str(aty), []).append(bacc)
            bops = self.gen_ops(av, r.randint(1, 3), 1, binops)
            other = self.pick(av, aty, bops)
            acc2, i2 = self.fresh(), self.fresh()
            bops.append(["bin", acc2, r.choice(["addi", "xori", "muli", "subi"]), aty, bacc, other])
            bops.append(["bin", i2, "addi", ity, bi, one])
            eacc = self.fresh()
            blocks = [
                {"args": args, "ops": ops, "term": ["br", 1, [i0, acc0]]},
                {"args": [[hi, ity], [hacc, aty]], "ops": hops, "term": ["condbr", c, 2, [hi, hacc], 3, [hacc]]},
                {"args": [[bi, ity], [bacc, aty]], "ops": bops, "term": ["br", 1, [i2, acc2]]},
                {"args": [[eacc, aty]], "ops": [], "term": ["ret", [eacc]]},
            ]
            rtys = [aty]
        inputs = []
        for _, t in args:
            w = width(t)
            h = 1 << (w - 1)
            inputs.append(max(-h, min(h - 1, r.choice([0, 1, -1, 2, -2, 3, 5, h - 1, -h, r.randrange(-h, h), r.randrange(-20, 21)]))))
        main = {"rets": rtys, "blocks": blocks}
        return {"funcs": [main] + self.funcs, "inputs": inputs, "shape": shape}


HUGE = [1, 2, 3, 2 ** 31 - 1, 2 ** 31, 2 ** 31 + 1, 2 ** 32, 2 ** 52, 2 ** 53 - 1, 2 ** 53, 2 ** 53 + 1, 2 ** 54 + 2, 2 ** 62 - 1, 2 ** 62,
        2 ** 62 + 1, 2 ** 63 - 2, 2 ** 63 - 1]


def gen_huge_for(rng, nid0=0):
    """scf.for over index / i64 with boundary-size lb, ub, step and a TRUE trip count of 0..4; the iter_args
    depend on the induction variable and count the iterations"""
    MIN, MAX = -(1 << 63), (1 << 63) - 1
    ty = rng.choice(["index", 64])
    while True:
        n = rng.choice([0, 1, 2, 2, 3, 3, 4])
        step = rng.choice(HUGE + HUGE[8:] * 2 + [rng.randrange(1 << 52, 1 << 63) for _ in range(6)])
        lb = rng.choice([MIN, MIN + 1, -(1 << 62), -(1 << 53) - 1, -(1 << 53), -(1 << 31), -1, 0, 1, 1 << 31, 1 << 53, (1 << 53) + 1,
                         1 << 62, MAX - 1, MAX] + [rng.randrange(MIN, MAX + 1) for _ in range(4)])
        if n == 0:
            ub = rng.choice([lb, lb - 1, MIN, rng.randrange(MIN, lb + 1)])
            ub = max(MIN, ub)
            break
        last = lb + (n - 1) * step            # value of the last iteration, must exist and be < ub <= MAX
        if last >= MAX:
            continue
        lo, hi = last + 1, min(lb + n * step, MAX)
        ub = rng.choice([lo, lo, hi, rng.randrange(lo, hi + 1)])
        break
    ids = iter(range(nid0 + 1, nid0 + 100))
    c_lb, c_ub, c_st, a0, k0, one = (next(ids) for _ in range(6))
    iv, acc, cnt = next(ids), next(ids), next(ids)
    t1, acc2, cnt2 = next(ids), next(ids), next(ids)
    r1, r2 = next(ids), next(ids)
    mix = rng.choice(["xori", "addi", "subi"])
    body = {"args": [[iv, ty], [acc, ty], [cnt, ty]],
            "ops": [["bin", t1, "muli", ty, acc, one if False else acc] if False else ["bin", t1, "addi", ty, acc, iv],
                    ["bin", acc2, mix, ty, t1, iv] if mix != "addi" else ["bin", acc2, "addi", ty, t1, cnt],
                    ["bin", cnt2, "addi", ty, cnt, one]],
            "term": ["ret", [acc2, cnt2]]}
    ops = [["const", c_lb, ty, lb], ["const", c_ub, ty, ub], ["const", c_st, ty, step],
           ["const", a0, ty, rng.choice([0, 1, -1, 12345])], ["const", k0, ty, 0], ["const", one, ty, 1],
           ["for", [r1, r2], [ty, ty], c_lb, c_ub, c_st, [a0, k0], body]]
    main = {"rets": [ty, ty], "blocks": [{"args": [], "ops": ops, "term": ["ret", [r1, r2]]}]}
    return {"funcs": [main], "inputs": [], "shape": "huge-for", "true_trip_count": n}


def gen_nested_cf(rng):
    """two nested counting loops in cf form.  Induction variables and accumulators travel through block
    arguments; values defined in OUTER-loop blocks (the outer induction variable i, 10*i, entry constants)
    are used in inner-loop blocks and in the outer latch by dominance only.  Optionally a diamond inside the
    inner body.  acc += 10*i + j."""
    ty = rng.choice([8, 32, "index", 64])
    n_out, n_in = rng.randint(0, 3), rng.randint(0, 3)
    ids = iter(range(1, 200))
    nx = lambda: next(ids)
    x_in = nx()
    c0, c1, c10, cn, cm, acc0 = nx(), nx(), nx(), nx(), nx(), nx()
    i, acc = nx(), nx()
    ci, ten_i = nx(), nx()
    j, acc2 = nx(), nx()
    cj = nx()
    j3, acc3 = nx(), nx()
    t, acc4, j4 = nx(), nx(), nx()
    acc5, i2 = nx(), nx()
    acc6 = nx()
    k = rng.choice([10, 10, 3, 7])
    mix = rng.choice(["addi", "addi", "xori", "subi"])
    entry = {"args": [[x_in, ty]], "ops": [["const", c0, ty, 0], ["const", c1, ty, 1], ["const", c10, ty, k],
                                            ["const", cn, ty, n_out], ["const", cm, ty, n_in],
                                            ["bin", acc0, "addi", ty, x_in, c0]],
             "term": ["br", 1, [c0, acc0]]}
    oh = {"args": [[i, ty], [acc, ty]], "ops": [["cmpi", ci, "slt", ty, i, cn], ["bin", ten_i, "muli", ty, i, c10]],
          "term": ["condbr", ci, 2, [c0, acc], 5, [acc]]}
    ih = {"args": [[j, ty], [acc2, ty]], "ops": [["cmpi", cj, rng.choice(["slt", "ne"]), ty, j, cm]],
          "term": ["condbr", cj, 3, [j, acc2], 4, [acc2]]}
    blocks = [entry, oh, ih, None, None, None]
    if rng.random() < 0.5:
        ib = {"args": [[j3, ty], [acc3, ty]],
              "ops": [["bin", t, "addi", ty, ten_i, j3], ["bin", acc4, mix, ty, acc3, t], ["bin", j4, "addi", ty, j3, c1]],
              "term": ["br", 2, [j4, acc4]]}
        blocks[3] = ib
    else:
        # diamond inside the inner body: even/odd j take different arms, both use outer values by dominance
        par, cpar, va, vb, m = nx(), nx(), nx(), nx(), nx()
        ib = {"args": [[j3, ty], [acc3, ty]],
              "ops": [["bin", t, "addi", ty, ten_i, j3], ["bin", par, "andi", ty, j3, c1], ["cmpi", cpar, "eq", ty, par, c0]],
              "term": ["condbr", cpar, 6, [], 7, []]}
        arm_a = {"args": [], "ops": [["bin", va, "addi", ty, t, i]], "term": ["br", 8, [va]]}
        arm_b = {"args": [], "ops": [["bin", vb, "subi", ty, t, ten_i]], "term": ["br", 8, [vb]]}
        merge = {"args": [[m, ty]], "ops": [["bin", acc4, mix, ty, acc3, m], ["bin", j4, "addi", ty, j3, c1]],
                 "term": ["br", 2, [j4, acc4]]}
        blocks[3] = ib
        blocks += [arm_a, arm_b, merge]
    blocks[4] = {"args": [[acc5, ty]], "ops": [["bin", i2, "addi", ty, i, c1]], "term": ["br", 1, [i2, acc5]]}
    blocks[5] = {"args": [[acc6, ty]], "ops": [], "term": ["ret", [acc6]]}
    main = {"rets": [ty], "blocks": blocks}
    w = width(ty)
    return {"funcs": [main], "inputs": [rng.choice([0, 1, -1, 5, (1 << (w - 1)) - 1])], "shape": "nested-cf"}


def gen_scf_nest(rng):
    """nested scf.for / scf.if with small bounds where inner bodies use outer induction variables and outer
    iter_args directly (input of the real convert-scf-to-cf pass)"""
    ty = rng.choice([32, "index", 64, 8])
    ids = iter(range(1, 200))
    nx = lambda: next(ids)
    x = nx()
    c0, c1, ck, n1, n2, s1 = nx(), nx(), nx(), nx(), nx(), nx()
    i, a = nx(), nx()
    j, b = nx(), nx()
    t1, t2, b2 = nx(), nx(), nx()
    inner_res = nx()
    a2 = nx()
    res = nx()
    ops = [["const", c0, "index", 0], ["const", c1, "index", 1], ["const", ck, ty, rng.choice([10, 3, 7])],
           ["const", n1, "index", rng.randint(0, 3)], ["const", n2, "index", rng.randint(0, 3)],
           ["const", s1, "index", rng.choice([1, 1, 2])]]
    ic, jc = nx(), nx()
    inner_ops = [["cast", jc, "index", ty, j] if ty != "index" else ["bin", jc, "addi", "index", j, c0],
                 ["bin", t1, "muli", ty, ic, ck], ["bin", t2, "addi", ty, t1, jc]]
    if rng.random() < 0.5:
        inner_ops.append(["bin", b2, rng.choice(["addi", "xori"]), ty, b, t2])
    else:
        cc, y1, y2 = nx(), nx(), nx()
        inner_ops += [["cmpi", cc, rng.choice(["slt", "eq", "sge"]), ty, jc, ic],
                      ["if", [b2], [ty], cc,
                       {"args": [], "ops": [["bin", y1, "addi", ty, b, t2]], "term": ["ret", [y1]]},
                       {"args": [], "ops": [["bin", y2, "subi", ty, b, x]], "term": ["ret", [y2]]}]]
    inner = {"args": [[j, "index"], [b, ty]], "ops": inner_ops, "term": ["ret", [b2]]}
    outer_ops = [["cast", ic, "index", ty, i] if ty != "index" else ["bin", ic, "addi", "index", i, c0],
                 ["for", [inner_res], [ty], c0, n2, c1, [a], inner],
                 ["bin", a2, "addi", ty, inner_res, ic]]
    outer = {"args": [[i, "index"], [a, ty]], "ops": outer_ops, "term": ["ret", [a2]]}
    ops.append(["for", [res], [ty], c0, n1, s1, [x], outer])
    main = {"rets": [ty], "blocks": [{"args": [[x, ty]], "ops": ops, "term": ["ret", [res]]}]}
    w = width(ty)
    return {"funcs": [main], "inputs": [rng.choice([0, 1, -1, 9, (1 << (w - 1)) - 1])], "shape": "scf-nest"}


def gen_recursive(rng):
    """(a) a multi-block function (cf.cond_br base case) that calls ITSELF and uses, after the call returns,
    values defined before the call (n, k*n): factorial / sum-to-n / fibonacci shapes, depth <= 8;
    (b) a multi-block caller that calls a different multi-block function and uses pre-call values afterwards"""
    ty = rng.choice([32, 64, "index", 8, 16])
    ids = iter(range(1, 300))
    nx = lambda: next(ids)
    kind = rng.choice(["fact", "sum", "fib", "two"])
    if kind == "two":
        x, c3, pre, c0, cc, r, y, z, w0 = nx(), nx(), nx(), nx(), nx(), nx(), nx(), nx(), nx()
        a, c5, ca, u, v, m, m2 = nx(), nx(), nx(), nx(), nx(), nx(), nx()
        main = {"rets": [ty], "blocks": [
            {"args": [[x, ty]], "ops": [["const", c3, ty, 3], ["const", c0, ty, 0], ["bin", pre, "addi", ty, x, c3],
                                         ["cmpi", cc, rng.choice(["sge", "ne", "slt"]), ty, x, c0]],
             "term": ["condbr", cc, 1, [], 2, []]},
            {"args": [], "ops": [["call", [r], [ty], 1, [x]], ["bin", y, "muli", ty, r, pre], ["bin", w0, "addi", ty, y, x]],
             "term": ["br", 3, [w0]]},
            {"args": [], "ops": [], "term": ["br", 3, [pre]]},
            {"args": [[z, ty]], "ops": [], "term": ["ret", [z]]}]}
        g = {"rets": [ty], "blocks": [
            {"args": [[a, ty]], "ops": [["const", c5, ty, 5], ["cmpi", ca, "slt", ty, a, c5]], "term": ["condbr", ca, 1, [], 2, []]},
            {"args": [], "ops": [["bin", u, "addi", ty, a, c5]], "term": ["br", 3, [u]]},
            {"args": [], "ops": [["bin", v, "subi", ty, a, c5]], "term": ["br", 3, [v]]},
            {"args": [[m, ty]], "ops": [["bin", m2, "xori", ty, m, a]], "term": ["ret", [m2]]}]}
        return {"funcs": [main, g], "inputs": [rng.randint(-6, 9)], "shape": "call-multiblock"}
    x0, r0 = nx(), nx()
    main = {"rets": [ty], "blocks": [{"args": [[x0, ty]], "ops": [["call", [r0], [ty], 1, [x0]]], "term": ["ret", [r0]]}]}
    n, c1, c2, ck, c, pre = nx(), nx(), nx(), nx(), nx(), nx()
    n1, n2, r1, r2, t1, t2, res, out = nx(), nx(), nx(), nx(), nx(), nx(), nx(), nx()
    k = rng.choice([0, 0, 1, 3])
    head = {"args": [[n, ty]], "ops": [["const", c1, ty, 1], ["const", c2, ty, 2], ["const", ck, ty, k],
                                       ["cmpi", c, "slt", ty, n, c2 if kind == "fib" else c1], ["bin", pre, "muli", ty, n, ck]],
            "term": ["condbr", c, 1, [], 2, []]}
    base = {"args": [], "ops": [], "term": ["ret", [n if kind == "fib" else (c1 if kind == "fact" else pre)]]}
    if kind == "fib":
        ops = [["bin", n1, "subi", ty, n, c1], ["call", [r1], [ty], 1, [n1]], ["bin", n2, "subi", ty, n, c2],
               ["call", [r2], [ty], 1, [n2]], ["bin", t1, "addi", ty, r1, r2], ["bin", res, "addi", ty, t1, pre]]
    else:
        ops = [["bin", n1, "subi", ty, n, c1], ["call", [r1], [ty], 1, [n1]],
               ["bin", t1, "muli" if kind == "fact" else "addi", ty, r1, n], ["bin", res, "addi", ty, t1, pre]]
    rec = {"args": [], "ops": ops, "term": ["br", 3, [res]]}
    tail = {"args": [[out, ty]], "ops": [], "term": ["ret", [out]]}
    f = {"rets": [ty], "blocks": [head, base, rec, tail]}
    return {"funcs": [main, f], "inputs": [rng.randint(-1, 8)], "shape": "recursive-" + kind}


def lower_scf_to_cf(case):
    """run the REAL convert-scf-to-cf pass on the program and read the result back as a program description
    (cf form), so that it goes through the same implementation / Coq machine / reference pipeline"""
    from xdsl.context import Context
    from xdsl.dialects import arith, cf, func
    from xdsl.dialects.builtin import IndexType, IntegerType
    from xdsl.transforms.convert_scf_to_cf import ConvertScfToCf
    module, _ = build_module(case)
    ConvertScfToCf().apply(Context(), module)
    module.verify()
    funcs = []
    for fop in module.ops:
        assert isinstance(fop, func.FuncOp)
        ids, n = {}, [0]

        def vid(v):
            if v not in ids:
                n[0] += 1
                ids[v] = n[0]
            return ids[v]

        def ty(t):
            if isinstance(t, IndexType): return "index"
            assert isinstance(t, IntegerType)
            return t.width.data
        blks = list(fop.body.blocks)
        bidx = {b: k for k, b in enumerate(blks)}
        out = []
        for b in blks:
            ops, term = [], None
            for o in b.ops:
                if isinstance(o, arith.ConstantOp):
                    ops.append(["const", vid(o.result), ty(o.result.type), o.value.value.data])
                elif isinstance(o, arith.CmpiOp):
                    ops.append(["cmpi", vid(o.result), CMPI[o.predicate.value.data], ty(o.lhs.type), vid(o.lhs), vid(o.rhs)])
                elif isinstance(o, arith.IndexCastOp):
                    ops.append(["cast", vid(o.result), ty(o.input.type), ty(o.result.type), vid(o.input)])
                elif o.name.startswith("arith.") and o.name.split(".", 1)[1] in BINOPS:
                    ops.append(["bin", vid(o.results[0]), o.name.split(".", 1)[1], ty(o.results[0].type), vid(o.operands[0]), vid(o.operands[1])])
                elif isinstance(o, func.CallOp):
                    ops.append(["call", [vid(r) for r in o.results], [ty(r.type) for r in o.results],
                                int(o.callee.string_value()[1:]), [vid(a) for a in o.arguments]])
                elif isinstance(o, func.ReturnOp):
                    term = ["ret", [vid(a) for a in o.arguments]]
                elif isinstance(o, cf.BranchOp):
                    term = ["br", bidx[o.successor], [vid(a) for a in o.arguments]]
                elif isinstance(o, cf.ConditionalBranchOp):
                    term = ["condbr", vid(o.cond), bidx[o.then_block], [vid(a) for a in o.then_arguments],
                            bidx[o.else_block], [vid(a) for a in o.else_arguments]]
                else:
                    raise ValueError(f"unexpected op after convert-scf-to-cf: {o.name}")
            out.append({"args": [[vid(a), ty(a.type)] for a in b.args], "ops": ops, "term": term})
        funcs.append({"rets": [ty(t) for t in fop.function_type.outputs.data], "blocks": out})
    return {"funcs": funcs, "inputs": list(case["inputs"]), "shape": "scf-to-cf-lowered", "source": case}


def ty_of_ids(prog):
    tys = {}

    def blk(b):
        for i, t in b["args"]:
            tys[i] = t
        for o in b["ops"]:
            k = o[0]
            if k == "const": tys[o[1]] = o[2]
            elif k == "bin": tys[o[1]] = o[3]
            elif k == "cmpi": tys[o[1]] = 1
            elif k == "cast": tys[o[1]] = o[3]
            elif k == "if":
                for i, t in zip(o[1], o[2]): tys[i] = t
                blk(o[4]); blk(o[5])
            elif k == "for":
                for i, t in zip(o[1], o[2]): tys[i] = t
                blk(o[7])
            elif k == "call":
                for i, t in zip(o[1], o[2]): tys[i] = t
    for f in prog["funcs"]:
        for b in f["blocks"]:
            blk(b)
    return tys


def rpo(blocks):
    """reverse post-order of the CFG from block 0, then the unreachable blocks"""
    seen, post = set(), []

    def succs(b):
        t = b["term"]
        return [t[1]] if t[0] == "br" else [t[2], t[4]] if t[0] == "condbr" else []
    stack = [(0, iter(succs(blocks[0])))]
    seen.add(0)
    while stack:
        n, it = stack[-1]
        for m in it:
            if m not in seen:
                seen.add(m)
                stack.append((m, iter(succs(blocks[m]))))
                break
        else:
            post.append(n)
            stack.pop()
    return list(reversed(post)) + [i for i in range(len(blocks)) if i not in seen]


def build_module(prog):
    from xdsl.dialects import arith, cf, func, scf
    from xdsl.dialects.builtin import ModuleOp
    from xdsl.ir import Block, Region
    stored_ok = [True]

    def fill(block, b, vals, blocks_of_func):
        for (i, _), a in zip(b["args"], block.args):
            vals[i] = a
        for o in b["ops"]:
            k = o[0]
            if k == "const":
                op = arith.ConstantOp.from_int_and_width(o[3], xty(o[2]))
                if op.value.value.data != o[3]:
                    stored_ok[0] = False
                block.add_op(op); vals[o[1]] = op.result
            elif k == "bin":
                op = getattr(arith, ARITH_CLASS[o[2]])(vals[o[4]], vals[o[5]])
                block.add_op(op); vals[o[1]] = op.result
            elif k == "cmpi":
                op = arith.CmpiOp(vals[o[4]], vals[o[5]], o[2])
                block.add_op(op); vals[o[1]] = op.result
            elif k == "cast":
                op = arith.IndexCastOp(vals[o[4]], xty(o[3]))
                block.add_op(op); vals[o[1]] = op.result
            elif k == "if":
                regs = []
                for sub in (o[4], o[5]):
                    nb = Block()
                    fill(nb, sub, vals, None)
                    regs.append(Region(nb))
                op = scf.IfOp(vals[o[3]], [xty(t) for t in o[2]], regs[0], regs[1])
                block.add_op(op)
                for i, rv in zip(o[1], op.results): vals[i] = rv
            elif k == "for":
                sub = o[7]
                nb = Block(arg_types=[xty(t) for _, t in sub["args"]])
                fill(nb, sub, vals, None)
                op = scf.ForOp(vals[o[3]], vals[o[4]], vals[o[5]], [vals[i] for i in o[6]], Region(nb))
                block.add_op(op)
                for i, rv in zip(o[1], op.results): vals[i] = rv
            elif k == "call":
                op = func.CallOp(f"f{o[3]}", [vals[i] for i in o[4]], [xty(t) for t in o[2]])
                block.add_op(op)
                for i, rv in zip(o[1], op.results): vals[i] = rv
        t = b["term"]
        if t[0] == "ret":
            if blocks_of_func is None:
                block.add_op(scf.YieldOp(*[vals[i] for i in t[1]]))
            else:
                block.add_op(func.ReturnOp(*[vals[i] for i in t[1]]))
        elif t[0] == "br":
            block.add_op(cf.BranchOp(blocks_of_func[t[1]], *[vals[i] for i in t[2]]))
        else:
            block.add_op(cf.ConditionalBranchOp(vals[t[1]], blocks_of_func[t[2]], [vals[i] for i in t[3]],
                                                blocks_of_func[t[4]], [vals[i] for i in t[5]]))

    fops = []
    for k, f in enumerate(prog["funcs"]):
        blocks = [Block(arg_types=[xty(t) for _, t in b["args"]]) for b in f["blocks"]]
        vals = {}
        for bi in rpo(f["blocks"]):          # definitions before uses: dominators first
            fill(blocks[bi], f["blocks"][bi], vals, blocks)
        ft = ([xty(t) for _, t in f["blocks"][0]["args"]], [xty(t) for t in f["rets"]])
        fops.append(func.FuncOp(f"f{k}", ft, Region(blocks)))
    return ModuleOp(fops), stored_ok[0]


def prog_impl(case, listener=None):
    try:
        module, stored_ok = build_module(case)
        module.verify()
    except Exception as e:          # generator bug: make it visible
        return [-8, repr(e)[:200]]
    if not stored_ok:
        return [-7]
    from xdsl.interpreter import Interpreter

    class Budget(Interpreter.Listener):         # the implementation has no step limit of its own
        n = 0

        def will_interpret_op(self, op, args):
            self.n += 1
            if self.n > OP_BUDGET:
                raise BudgetExceeded()
    it = interp(module)
    it.listeners = (Budget(),) + ((listener,) if listener is not None else ())
    try:
        res = it.call_op("f0", tuple(case["inputs"]))
    except BudgetExceeded:
        return [2]              # still running after OP_BUDGET ops (every generated program needs < 2000)
    except Exception:
        return [1]
    out = []
    for v in res:
        e = enc_int(v)
        out.append(e[0] if len(e) == 1 else -999999)
    return [0, out]


def clist(items) -> str:
    """a Coq list in plain prefix form (nested `[a; b]` / `::` notations parse very slowly at depth)"""
    out = "nil"
    for x in reversed(list(items)):
        out = f"(cons ({x}) {out})"
    return out


def cz(n: int) -> str:
    return str(n) if n >= 0 else f"({n})"        # Z_scope is open in the case files


def czs(ns) -> str:
    return clist(cz(n) for n in ns)


def coq_block(b):
    def op(o):
        k = o[0]
        if k == "const": return f"OConst {cz(o[1])} {cz(o[3])}"
        if k == "bin": return f"OBin {cz(o[1])} {o[2].capitalize()} {width(o[3])} {cz(o[4])} {cz(o[5])}"
        if k == "cmpi": return f"OCmpi {cz(o[1])} {CMPI.index(o[2])} {width(o[3])} {cz(o[4])} {cz(o[5])}"
        if k == "cast": return f"OCast {cz(o[1])} {width(o[2])} {width(o[3])} {cz(o[4])}"
        if k == "if": return f"OIf {czs(o[1])} {cz(o[3])} {clist([coq_block(o[4])])} {clist([coq_block(o[5])])}"
        if k == "for": return (f"OFor {czs(o[1])} {cz(o[3])} {cz(o[4])} {cz(o[5])} "
                               f"{czs(o[6])} {clist([coq_block(o[7])])}")
        if k == "call": return f"OCall {czs(o[1])} {cz(o[3])} {czs(o[4])}"
        raise KeyError(k)
    t = b["term"]
    if t[0] == "ret": term = f"TRet {czs(t[1])}"
    elif t[0] == "br": term = f"TBr {cz(t[1])} {czs(t[2])}"
    else: term = f"TCondBr {cz(t[1])} {cz(t[2])} {czs(t[3])} {cz(t[4])} {czs(t[5])}"
    return f"(Blk {czs([i for i, _ in b['args']])} {clist('(' + op(o) + ')' for o in b['ops'])} ({term}))"


def prog_coq_expr(case):
    funcs = clist(clist(coq_block(b) for b in f["blocks"]) for f in case["funcs"])
    return f"prog_case 600 {funcs} {czs(case['inputs'])}"


class Undefined(Exception):
    pass


def prog_ref(case):
    """reference evaluator on bit patterns -> (list of (width, pattern), n_control_ops) ; raises Undefined"""
    tys = ty_of_ids(case)
    steps = [0]
    ctl = [0]

    def run_blocks(blocks, args, env):
        b = blocks[0]
        while True:
            steps[0] += 1
            if steps[0] > 5000:
                raise Undefined("does not terminate within the step budget")
            for (i, _), v in zip(b["args"], args):
                env[i] = v
            for o in b["ops"]:
                k = o[0]
                if k == "const":
                    env[o[1]] = pat(width(o[2]), o[3])
                elif k == "bin":
                    r = ref_bin(o[2], width(o[3]), env[o[4]], env[o[5]])
                    if r is None:
                        raise Undefined(o[2])
                    env[o[1]] = r
                elif k == "cmpi":
                    env[o[1]] = ref_cmpi(o[2], width(o[3]), env[o[4]], env[o[5]])
                elif k == "cast":
                    env[o[1]] = ref_cast("index_cast", width(o[2]), width(o[3]), env[o[4]])
                elif k == "if":
                    ctl[0] += 1
                    vs = run_blocks([o[4] if env[o[3]] else o[5]], [], env)
                    for i, v in zip(o[1], vs): env[i] = v
                elif k == "for":
                    ctl[0] += 1
                    lw = width(tys[o[3]])
                    lb, ub, st = (sval(lw, env[o[j]]) for j in (3, 4, 5))
                    if st <= 0:
                        raise Undefined("scf.for step <= 0")
                    acc = [env[i] for i in o[6]]
                    i = lb
                    # iterations are the mathematical values lb + k*step < ub: since ub <= MAX no executed
                    # iteration has an out-of-range induction value, whatever lb + k*step does afterwards
                    while i < ub:
                        acc = run_blocks([o[7]], [pat(lw, i)] + acc, env)
                        i += st
                    for j, v in zip(o[1], acc): env[j] = v
                elif k == "call":
                    ctl[0] += 1
                    vs = run_blocks(case["funcs"][o[3]]["blocks"], [env[i] for i in o[4]], {})
                    for i, v in zip(o[1], vs): env[i] = v
            t = b["term"]
            if t[0] == "ret":
                return [env[i] for i in t[1]]
            ctl[0] += 1
            if t[0] == "br":
                b, args = blocks[t[1]], [env[i] for i in t[2]]
            else:
                if env[t[1]]:
                    b, args = blocks[t[2]], [env[i] for i in t[3]]
                else:
                    b, args = blocks[t[4]], [env[i] for i in t[5]]

    main = case["funcs"][0]
    args = [pat(width(t), v) for (_, t), v in zip(main["blocks"][0]["args"], case["inputs"])]
    res = run_blocks(main["blocks"], args, {})
    return list(zip([width(t) for t in main["rets"]], res)), ctl[0]


def prog_holds(case, res):
    if res and res[0] in (-7, -8):
        return False, f"harness could not build the program: {res}"
    try:
        exp, _ = prog_ref(case)
    except Undefined as e:
        return True, f"MLIR: undefined ({e})"
    if res[0] == 2:
        return False, f"interpreter still running after {OP_BUDGET} ops on a program whose result MLIR defines as {exp}"
    if res[0] != 0:
        return False, f"interpreter raised on a program whose result MLIR defines as {exp}"
    got = res[1]
    if len(got) != len(exp):
        return False, f"{len(got)} results, expected {len(exp)}"
    for j, (r, (w, p)) in enumerate(zip(got, exp)):
        if not in_signless(w, r):
            return False, f"result #{j} = {r} is outside the range of its {w}-bit type"
        if pat(w, r) != p:
            return False, f"result #{j} = {r} (bit pattern {pat(w, r)}), MLIR semantics give bit pattern {p}"
    return True, ""


def trace_case(op, args, results):
    """an executed arith op as a single-op case (None for ops without single-op oracle)"""
    from xdsl.dialects import arith
    from xdsl.dialects.builtin import IndexType, IntegerType

    def ty(t):
        if isinstance(t, IndexType): return "index"
        if isinstance(t, IntegerType): return t.width.data
        return None
    name = op.name
    if not name.startswith("arith.") or isinstance(op, arith.ConstantOp):
        return None
    mn = name.split(".", 1)[1]
    if isinstance(op, arith.CmpiOp):
        t = ty(op.lhs.type)
        return None if t is None else {"k": "cmpi", "op": "cmpi", "pred": CMPI[op.predicate.value.data], "ty": t,
                                       "a": int(args[0]), "b": int(args[1])}
    if mn in BINOPS:
        t = ty(op.results[0].type)
        return None if t is None else {"k": "bin", "op": mn, "ty": t, "a": int(args[0]), "b": int(args[1])}
    if mn in CASTOPS:
        t1, t2 = ty(op.operands[0].type), ty(op.results[0].type)
        return None if None in (t1, t2) else {"k": "cast", "op": mn, "ty": t1, "ty2": t2, "a": int(args[0])}
    return None


def prog_known(case, res):
    """A failing program is a known finding only if its execution trace contains a single-op execution that
    itself fails the single-op oracle and falls in a known class; the first such execution names the class."""
    from xdsl.interpreter import Interpreter

    class L(Interpreter.Listener):
        def __init__(self): self.ev = []
        def did_interpret_op(self, op, results): self.ev.append((op, self.args, results))
        def will_interpret_op(self, op, args): self.args = args
    lst = L()
    prog_impl(case, lst)
    for op, args, results in lst.ev:
        c = trace_case(op, args, results)
        if c is None:
            continue
        r = []
        for v in results:
            r = enc_int(v)
        ok, _ = op_holds(c, r)
        if not ok:
            return op_known(c, r)        # None (-> violation) if the failing execution is in no known class
    return None


def prog_nontrivial(case, res):
    try:
        _, nctl = prog_ref(case)
    except Undefined:
        return None
    return json.dumps(case, sort_keys=True) if nctl > 0 and res and res[0] == 0 else None


# ============================================================================ floats (oracle only)
F32 = (24, 128)
F64 = (53, 1024)


def f_bits(x: float, fmt):
    return struct.unpack("<I", struct.pack("<f", x))[0] if fmt == "f32" else struct.unpack("<Q", struct.pack("<d", x))[0]


def f_from_bits(b: int, fmt) -> float:
    return struct.unpack("<f", struct.pack("<I", b))[0] if fmt == "f32" else struct.unpack("<d", struct.pack("<Q", b))[0]


def decode(bits: int, fmt):
    """-> ('nan',) | ('inf', sign) | ('fin', sign, Fraction)  by hand from the bit fields"""
    p, emax = F32 if fmt == "f32" else F64
    ebits = 8 if fmt == "f32" else 11
    mbits = p - 1
    sign = bits >> (ebits + mbits)
    e = (bits >> mbits) & ((1 << ebits) - 1)
    m = bits & ((1 << mbits) - 1)
    if e == (1 << ebits) - 1:
        return ("nan",) if m else ("inf", sign)
    bias = emax - 1
    if e == 0:
        v = Fraction(m, 1 << mbits) * Fraction(2) ** (1 - bias)
    else:
        v = (1 + Fraction(m, 1 << mbits)) * Fraction(2) ** (e - bias)
    return ("fin", sign, -v if sign else v)


def encode(sign: int, q: Fraction, fmt) -> int:
    """round-to-nearest-even of the exact rational q (sign given separately for zeros) to bits"""
    p, emax = F32 if fmt == "f32" else F64
    ebits = 8 if fmt == "f32" else 11
    mbits = p - 1
    bias = emax - 1
    sbit = sign << (ebits + mbits)
    if q == 0:
        return sbit
    a = abs(q)
    # exponent e with 2^e <= a < 2^(e+1)
    e = a.numerator.bit_length() - a.denominator.bit_length()
    if Fraction(2) ** e > a:
        e -= 1
    if Fraction(2) ** (e + 1) <= a:
        e += 1
    e = max(e, 1 - bias)                      # subnormal range shares the smallest exponent
    ulp = Fraction(2) ** (e - mbits)
    n = a / ulp                               # significand in units of ulp (exact)
    fl = n.numerator // n.denominator
    rem = n - fl
    if rem > Fraction(1, 2) or (rem == Fraction(1, 2) and fl % 2 == 1):
        fl += 1
    if fl == (1 << p):                        # rounded up to the next binade
        fl >>= 1
        e += 1
    if e > bias:
        return sbit | (((1 << ebits) - 1) << mbits)        # overflow -> inf
    if fl < (1 << mbits):                     # subnormal (or zero after rounding)
        return sbit | fl
    return sbit | ((e + bias) << mbits) | (fl - (1 << mbits))


def ref_fbin(op, fmt, ba, bb):
    """-> expected bits, or 'nan'"""
    a, b = decode(ba, fmt), decode(bb, fmt)
    if a[0] == "nan" or b[0] == "nan":
        return "nan"
    if op in ("minimumf", "maximumf"):
        def key(x, bits):
            if x[0] == "inf":
                return (Fraction(-1 if x[1] else 1) * 10 ** 400, 0)
            return (x[2], -(bits >> (31 if fmt == "f32" else 63)))      # -0.0 < +0.0
        ka, kb = key(a, ba), key(b, bb)
        if op == "minimumf":
            return ba if ka <= kb else bb
        return ba if ka >= kb else bb
    if op == "subf":
        bb ^= 1 << (31 if fmt == "f32" else 63)
        b = decode(bb, fmt)
        op = "addf"
    if op == "addf":
        if a[0] == "inf" or b[0] == "inf":
            if a[0] == "inf" and b[0] == "inf":
                return ba if a[1] == b[1] else "nan"
            return ba if a[0] == "inf" else bb
        s = a[2] + b[2]
        if s == 0:
            sign = 1 if (a[1] and b[1]) else 0          # (+0)+(-0)=+0, x+(-x)=+0 in round-to-nearest
            return encode(sign, Fraction(0), fmt)
        return encode(1 if s < 0 else 0, s, fmt)
    if op == "mulf":
        sign = a[1] ^ b[1]
        if a[0] == "inf" or b[0] == "inf":
            other = b if a[0] == "inf" else a
            if other[0] == "fin" and other[2] == 0:
                return "nan"
            return encode(sign, Fraction(0), fmt) | ((0xFF << 23) if fmt == "f32" else (0x7FF << 52))
        return encode(sign, a[2] * b[2], fmt)
    raise KeyError(op)


CMPF = ["false", "oeq", "ogt", "oge", "olt", "ole", "one", "ord", "ueq", "ugt", "uge", "ult", "ule", "une", "uno", "true"]


def ref_cmpf(pred, fmt, ba, bb) -> int:
    a, b = decode(ba, fmt), decode(bb, fmt)
    un = a[0] == "nan" or b[0] == "nan"
    if not un:
        def val(x):
            return (Fraction(-1 if x[1] else 1) * 10 ** 400) if x[0] == "inf" else x[2]
        va, vb = val(a), val(b)
        lt, eq, gt = va < vb, va == vb, va > vb
    else:
        lt = eq = gt = False
    table = {"false": False, "oeq": eq, "ogt": gt, "oge": gt or eq, "olt": lt, "ole": lt or eq, "one": lt or gt,
             "ord": not un, "ueq": un or eq, "ugt": un or gt, "uge": un or gt or eq, "ult": un or lt,
             "ule": un or lt or eq, "une": un or lt or gt, "uno": un, "true": True}
    return int(table[pred])


def f_impl(case):
    fmt = case["ty"]
    a, b = f_from_bits(case["a"], fmt), f_from_bits(case["b"], fmt)
    try:
        if case["k"] == "cmpf":
            o, _, _ = single_op("cmpf", "cmpf", fmt, pred=case["pred"])
            (r,) = shared_interp().run_op(o, (a, b))
            return [int(bool(r))] if isinstance(r, (bool, int)) else [-999999]
        o, _, _ = single_op("fbin", case["op"], fmt)
        (r,) = shared_interp().run_op(o, (a, b))
    except Exception:
        return []
    if not isinstance(r, float):
        return [-999999]
    if r != r:
        return ["nan"]
    # the value the interpreter holds is a python float; for f32 it must be a binary32 value
    if fmt == "f32":
        try:
            back = struct.unpack("<f", struct.pack("<f", r))[0]
        except OverflowError:
            back = None
        if back is None or (back != r and not (back != back)):
            return ["not-f32", struct.unpack("<Q", struct.pack("<d", r))[0]]
        return [f_bits(r, "f32")]
    return [f_bits(r, "f64")]


def f_holds(case, res):
    fmt = case["ty"]
    if case["k"] == "cmpf":
        e = ref_cmpf(case["pred"], fmt, case["a"], case["b"])
        return res == [e], f"cmpf {case['pred']} -> {res}, IEEE-754 gives {e}"
    e = ref_fbin(case["op"], fmt, case["a"], case["b"])
    ok = res == ([e] if e != "nan" else ["nan"])
    return ok, (f"{case['op']} {fmt} on bits {case['a']:#x}, {case['b']:#x} -> {res}, IEEE-754 ({fmt} round-to-nearest-even) "
                f"gives {e if e == 'nan' else hex(e)}")


def f_known(case, res):
    return None          # C15-kf-5 (f32 results never rounded) was repaired by e2b74e3: no float finding is listed


def f_values(fmt, rng, n):
    if fmt == "f32":
        base = [0x00000000, 0x80000000, 0x3F800000, 0xBF800000, 0x7F800000, 0xFF800000, 0x7FC00000, 0x00000001,
                0x80000001, 0x007FFFFF, 0x00800000, 0x7F7FFFFF, 0xFF7FFFFF, 0x3DCCCCCD, 0x3E4CCCCD, 0x40490FDB,
                0x4B800000, 0x33800000, 0x3F800001, 0x7F000000]
        return base + [rng.getrandbits(32) for _ in range(n)]
    base = [0x0, 0x8000000000000000, 0x3FF0000000000000, 0xBFF0000000000000, 0x7FF0000000000000,
            0xFFF0000000000000, 0x7FF8000000000000, 0x1, 0x8000000000000001, 0x000FFFFFFFFFFFFF, 0x0010000000000000,
            0x7FEFFFFFFFFFFFFF, 0xFFEFFFFFFFFFFFFF, 0x3FB999999999999A, 0x3FC999999999999A, 0x400921FB54442D18,
            0x4340000000000000, 0x3CB0000000000000, 0x3FF0000000000001, 0x7FE0000000000000]
    return base + [rng.getrandbits(64) for _ in range(n)]


def run_floats(ctx: Ctx, thorough: bool):
    rng = ctx.rng
    cases = []
    for fmt in ("f64", "f32"):
        vals = f_values(fmt, rng, 30 if thorough else 8)
        pairs = [(a, b) for a in vals for b in vals]
        if not thorough:
            pairs = rng.sample(pairs, 250)
        for op in ("addf", "subf", "mulf", "minimumf", "maximumf"):
            cases += [{"k": "fbin", "op": op, "ty": fmt, "a": a, "b": b} for a, b in pairs]
        for pred in CMPF:
            for a, b in rng.sample(pairs, min(len(pairs), 60 if thorough else 25)):
                cases.append({"k": "cmpf", "op": "cmpf", "pred": pred, "ty": fmt, "a": a, "b": b})
    ev = eval_cases(cases, f_impl, f_holds, f_known, lambda c, r: (c["k"], c["op"], c.get("pred"), c["ty"], c["a"], c["b"]))
    fails, hits = [], {}
    active = ctx.active_known_ids()
    for c, (r, ok, why, kid, nt) in zip(cases, ev):
        ctx.nontrivial.add(("floats", nt))
        if not ok:
            if kid and kid in active:
                hits[kid] = hits.get(kid, 0) + 1
            else:
                fails.append((c, r, why))
    ctx.evaluations += len(cases)
    ctx.coverage.setdefault("families", {})["float-ops-f64-f32 (oracle only, exact rational reference)"] = {
        "cases": len(cases), "oracle_failures": len(fails), "known_finding_hits": hits, "exhaustive": False}
    if fails:
        c, r, why = fails[0]
        ctx.violation({"family": "floats", "case": c, "impl_result": r, "oracle": why, "other_failing_cases": len(fails) - 1})


# ============================================================================ one parallel Coq round
class Round:
    """Same comparison and reporting as common.differential / common.sweep_differential (through
    common._report), but the coqc evaluation of every family runs concurrently with the python side
    (implementation + oracle) instead of family after family: the families are independent."""

    def __init__(self, ctx: Ctx):
        import concurrent.futures
        self.ctx = ctx
        ctx.tmpdir()
        self.pool = concurrent.futures.ThreadPoolExecutor(max_workers=8)
        self.fams = []

    def add(self, name, requires, shards, impl, holds, known, nontrivial, per_case: bool, exhaustive: bool, shard=1):
        """shards: [(coq expr, [cases])]; per_case: each expr is one case's result, else an L-list of its cases' results"""
        import time as _t
        exprs = [e for e, _ in shards]
        fut = self.pool.submit(self.ctx.coq_eval, requires, exprs, shard)
        self.fams.append((name, shards, impl, holds, known, nontrivial, per_case, exhaustive, fut, _t.time()))

    def add_spec(self, spec: DiffSpec):
        self.add(spec.name, spec.requires, [(spec.coq_expr(c), [c]) for c in spec.cases], spec.impl, spec.holds,
                 spec.known, spec.nontrivial, True, spec.exhaustive, spec.shard)

    def finish(self):
        from harness import common
        ctx = self.ctx
        for name, shards, impl, holds, known, nontrivial, per_case, exhaustive, fut, t0 in self.fams:
            flat = [c for _, cs in shards for c in cs]
            ev = eval_cases(flat, impl, holds, known, nontrivial, parallel=False)   # no fork while threads run
            fails, diverge, known_hits, model_err, mflat = [], [], {}, None, None
            active = ctx.active_known_ids()
            try:
                model = fut.result()
                if per_case:
                    mflat = model
                else:
                    mflat = []
                    for si, (_, cs) in enumerate(shards):
                        if len(model[si]) != len(cs):
                            raise common.ModelUnavailable(f"{name}: shard {si} has {len(cs)} cases, model returned {len(model[si])}")
                        mflat += model[si]
            except common.ModelUnavailable as e:
                mflat, model_err = None, str(e)
            for i, (c, (r, ok, why, kid, nt)) in enumerate(zip(flat, ev)):
                if nt is not None:
                    ctx.nontrivial.add((name, nt))
                if not ok:
                    if kid and kid in active:
                        known_hits[kid] = known_hits.get(kid, 0) + 1
                    else:
                        fails.append((c, r, why))
                if mflat is not None and mflat[i] != r:
                    diverge.append((c, r, mflat[i]))
                if i < 2:
                    ctx.sample({"family": name, "case": c, "impl": r}, limit=12)
            ctx.evaluations += len(flat)
            common._report(ctx, name, len(flat), fails, diverge, known_hits, model_err, exhaustive, t0)
        self.pool.shutdown()


# ============================================================================ replay
def replay_case(ctx: Ctx, witness: dict) -> int:
    """./check C15 --replay replay/C15-<hash>.json : re-run the recorded case on implementation, model, oracle"""
    generate(ctx)
    fam, case = witness.get("family", ""), witness.get("case")
    if case is None:
        print("nothing to replay (the witness names a proof / correspondence that no longer checks)")
        return 0
    if fam.startswith("programs"):
        impl, holds, expr = prog_impl, prog_holds, prog_coq_expr
    elif fam.startswith("floats"):
        impl, holds, expr = f_impl, f_holds, None
    elif fam.startswith("comparisons"):
        impl, holds, expr = cmp_impl, cmp_holds, cmp_coq_expr
    elif fam.startswith("py2coq"):
        impl, holds, expr = st_impl, None, st_coq_expr
    else:
        impl, holds, expr = any_op_impl, op_holds, op_coq_expr
    r = to_jsonable(impl(case))
    print("implementation:", r)
    if expr is not None:
        try:
            print("model         :", ctx.coq_eval(REQ + ["Gen.C15_selftest"], [expr(case)])[0])
        except Exception as e:      # model unavailable
            print("model         : unavailable:", str(e)[:300])
    if holds is not None:
        ok, why = holds(case, r)
        print("oracle        :", "holds" if ok else "VIOLATED", why)
        return 0 if ok else 1
    return 0


# ============================================================================ driver
def run(ctx: Ctx):
    thorough = ctx.tier == "thorough"
    rng = ctx.rng
    ctx.coverage["translator"] = GEN_INFO or "generate() was not run"
    sup_bin = [op for op in BINOPS if supported(op)]
    sup_cast = [op for op in CASTOPS if supported(op)]
    translated = set((GEN_INFO or {}).get("arith_methods", {}))
    ctx.coverage["supported_integer_ops"] = sup_bin + ["cmpi"] + sup_cast
    ctx.coverage["unsupported_by_interpreter (outside 'every supported operation')"] = \
        [op for op in BINOPS + CASTOPS if op not in sup_bin + sup_cast] + ["select", "divf", "negf", "sitofp", "fptosi", "extf", "truncf"]
    missing = [op for op in sup_bin + sup_cast + ["cmpi"] if "run_" + op not in translated]
    if missing:
        ctx.broken.append({"translator": f"supported ops without a translated definition: {missing}"})
    model_bin = [op for op in sup_bin if op in ("addi subi muli andi ori xori shli shrsi divsi remsi floordivsi".split())]

    # ---- known findings: replay the committed witnesses
    replay_findings(ctx, "single-op", any_op_impl, op_holds)
    replay_findings(ctx, "programs", prog_impl, prog_holds)
    replay_findings(ctx, "floats", f_impl, f_holds)

    rnd = Round(ctx)
    # ---- exhaustive i1..i4
    rnd.add("integer-ops-exhaustive-i1..i4-all-representatives", REQ,
            merge_shards(exhaustive_shards(sup_bin, [c for c in sup_cast if c == "index_cast"]), 4),
            any_op_impl, op_holds, op_known, op_nontrivial, per_case=False, exhaustive=True)

    # ---- wider widths: boundary x boundary (+ random), one Coq list per op and type
    shards = []
    for ty in [8, 16, 32, 64, "index"]:
        w = width(ty)
        vals = boundary(w, rng, 12 if thorough else 4)
        pairs = [(a, b) for a in vals for b in vals]
        for op in sup_bin:
            ps = rng.sample(pairs, min(len(pairs), 500)) if thorough else rng.sample(pairs, 90)
            if op in ("shli", "shrsi", "shrui"):
                # shift counts beyond MAX_SHIFT are not evaluated (CPython raises MemoryError/OverflowError or
                # allocates gigabytes, Coq's Z.shiftl/Z.shiftr do not terminate in practice): not modelled
                ps = [(a, b) for a, b in ps if b <= MAX_SHIFT]
            cases = [{"k": "bin", "op": op, "ty": ty, "a": a, "b": b} for a, b in ps]
            shards.append((f"L {clist(op_coq_expr(c) for c in cases)}", cases))
        for pred in CMPI:
            ps = rng.sample(pairs, min(len(pairs), 400)) if thorough else rng.sample(pairs, 60)
            cases = [{"k": "cmpi", "op": "cmpi", "pred": pred, "ty": ty, "a": a, "b": b} for a, b in ps]
            shards.append((f"L {clist(op_coq_expr(c) for c in cases)}", cases))
    if "index_cast" in sup_cast:
        for other in [8, 16, 32, 64, 1]:
            for tin, tout in (("index", other), (other, "index")):
                cases = [{"k": "cast", "op": "index_cast", "ty": tin, "ty2": tout, "a": a}
                         for a in boundary(width(tin), rng, 10)]
                shards.append((f"L {clist(op_coq_expr(c) for c in cases)}", cases))
    rnd.add("integer-ops-boundary+random-i8-i16-i32-i64-index", REQ, merge_shards(shards, 24 if thorough else 6),
            any_op_impl, op_holds, op_known, op_nontrivial, per_case=False, exhaustive=False)

    # ---- comparisons.py called directly
    cases = []
    for f in CMP_FUNS:
        unary = f not in ("to_unsigned", "to_signed")
        for w in list(range(-2, 7)) + [8, 16, 31, 32, 33, 63, 64, 65, 128]:
            if unary:
                cases.append({"f": f, "args": [w]})
            else:
                m = 1 << max(w, 0)
                xs = range(-m - 2, 2 * m + 3) if 0 <= w <= 4 else \
                    [0, 1, -1, m - 1, m, m + 1, -m, -m - 1, m // 2, m // 2 - 1, -(m // 2), -(m // 2) - 1] + \
                    [rng.randrange(-2 * m - 5, 2 * m + 5) for _ in range(20 if thorough else 5)]
                cases += [{"f": f, "args": [x, w]} for x in xs]
    rnd.add_spec(DiffSpec("comparisons.py-direct", REQ, cases, cmp_impl, cmp_coq_expr, cmp_holds, None,
                          lambda c, r: (c["f"], tuple(c["args"])) if r else None, shard=450))

    # ---- the translator itself
    translator_selftest(ctx, thorough, rnd)

    # ---- programs
    g = new_program_generator(rng)
    progs = [g.program(model_bin) for _ in range(2500 if thorough else 300)]
    # scf.for with boundary-size bounds and tiny trip counts; nested cf loops with dominance uses across
    # blocks; nested scf programs and what the real convert-scf-to-cf pass makes of them
    k = 6 if thorough else 1
    progs += [gen_huge_for(rng) for _ in range(70 * k)]
    progs += [gen_nested_cf(rng) for _ in range(60 * k)]
    progs += [gen_recursive(rng) for _ in range(50 * k)]
    lowering_errors = []
    for _ in range(30 * k):
        src = gen_scf_nest(rng)
        progs.append(src)
        try:
            progs.append(lower_scf_to_cf(src))
        except Exception as e:          # the pass (or the read-back) failed on a valid program
            lowering_errors.append(repr(e)[:200])
    if lowering_errors:
        ctx.coverage["convert-scf-to-cf failures on generated programs (C16 territory, not counted here)"] = lowering_errors[:5]
    shapes = {}
    for p in progs:
        shapes[p["shape"]] = shapes.get(p["shape"], 0) + 1
    ctx.coverage["program_shapes"] = shapes
    rnd.add_spec(DiffSpec("programs-func-arith-scf-cf", REQ, progs, prog_impl, prog_coq_expr, prog_holds,
                          prog_known, prog_nontrivial, shard=60))
    undefined = 0
    for p in progs:
        try:
            prog_ref(p)
        except Undefined:
            undefined += 1
    ctx.coverage["programs_excluded_as_mlir_undefined"] = undefined

    # ---- floats (python only; runs while coqc works on the families above)
    run_floats(ctx, thorough)
    rnd.finish()

    ctx.coverage["rule"] = __doc__.split("\n\n", 1)[1][:1800]
    ctx.coverage["exhaustive"] = True
    ctx.coverage["explanation"] = ("exhaustive = every supported integer op and cmpi predicate on every pair of operand "
                                   "representatives of the signless range for widths 1..4 (index_cast: every width pair in 1..4)")
