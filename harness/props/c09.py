"""C09 -- IRDL attribute constraints accept exactly what they describe.

Tie: hand-written Coq model (coq/C09/Model.v) of xdsl/irdl/constraints.py (AnyAttr, BaseAttr,
EqAttrConstraint, AttrSetConstraint, AnyOf (+ __init__ checks, .get, relax_constraint, __or__),
AllOf (+ __and__), ParamAttrConstraint (+ .get), VarConstraint, MessageConstraint, TypeVarConstraint,
ConstraintContext, get_bases, variables, can_infer/infer), ParametrizedAttribute.new /
ParamAttrDef.verify, irdl_to_attr_constraint on class / union / generic / Annotated hints and
hints.isa, run next to the real code on generated cases.  Constraint trees are built through the
PUBLIC constructors on both sides from the same constructor expression (direct constructors,
.get smart constructors, `|`, `&`, coercion of classes/attributes) over 18 attribute classes
(13 builtin ones and 5 defined here with @irdl_attr_definition: an abstract base with final
subclasses, two generic classes, one whose parameters share a constraint variable).  Compared per
case: the constructed constraint's shape or the raised error, accept/reject, the ConstraintContext
left behind (also after a failing verify), get_bases, variables(), can_infer, infer and whether the
inferred attribute verifies; for unions the accepted set before/after simplification on probe
attributes; for hints irdl_to_attr_constraint(h).verifies(a) vs isa(a, h); ParametrizedAttribute.new;
and the class table itself (finality, subclassing, parameter definitions) against introspection.
Oracle (independent of the model): a reference evaluator of the denotation written from the
docstrings (union = some alternative, tried exhaustively without class dispatch; intersection = all;
variables = one assignment making all occurrences equal), soundness of get_bases, variables() bound
after success, "inferred attribute verifies", "union simplification keeps the accepted set on the
probes", "hint constraint agrees with isa".
Generation: attribute first, then with probability 0.6 a constraint grown to match it (then mutated),
else a free random tree; 0..3 constraint variables per case, each with one fixed inner constraint
(well-named) except in a separate ill-named stream (correspondence only); initial contexts empty,
consistent, or arbitrary (correspondence only); a malformed stream with wrong parameter counts and
non-disjoint unions.  Non-trivial: the built constraint contains a union, intersection, parametrized
or variable constraint and construction did not raise (key = shape of constraint, verdict), or a
union simplification that changed the shape, or a hint with a union/generic.
"""
import itertools
from abc import ABC
from typing import Annotated, Generic, Union

from typing_extensions import TypeVar

from harness.common import (Ctx, DiffSpec, coq_bool, coq_list, coq_nat, coq_nats, coq_Z, differential,
                            exc_code, replay_findings)

META = {
    "id": "C09",
    "title": "IRDL attribute constraints accept exactly what they describe",
    "design_ref": "DESIGN.md section 8.C09",
    "technique": "Coq proofs about an executable model of constraints.py against a denotational spec + random model-vs-code correspondence through the public constructors",
    "level_text": (
        "Theorems in coq/Props/C09.v, for EVERY class table satisfying the stated finality hypothesis, every "
        "constraint tree whose unions passed their constructor checks and every attribute: verify succeeds exactly "
        "when the attribute is in the denotation (union = some alternative, intersection = all, base/eq/set/param "
        "check class and parameters, variables = one assignment) and the context it returns is the least such "
        "assignment (soundness needs each variable name to carry one inner constraint; a counterexample without "
        "that is recorded); get_bases is sound; variables() are bound after success and bindings are never "
        "overwritten; AnyOf.get / `|` (flattening, Eq/Set/Base/Param merging), whenever they do not raise, return a "
        "constraint with exactly the union of the alternatives' denotations whose unions again passed the constructor "
        "checks, and the model's loop fuel is never exhausted; ParamAttrConstraint.get keeps the denotation on "
        "attributes with the constrained number of parameters; a constraint derived from a class / union / generic / "
        "Annotated hint agrees with isa whenever both return (generic classes' parameter definitions and Annotated "
        "metadata free of constraint variables). The full-strength 'can_infer implies the inferred attribute "
        "verifies' is REFUTED on the unchanged tree (known finding C09-kf-1/2: jointly unsatisfiable AllOf / "
        "parameters violating the class invariants); the partial theorem proved is: whenever some valid attribute "
        "satisfies the constraint in the context, infer returns exactly that attribute and it verifies. The model "
        "is tied to the code by random correspondence on all observables listed in the module docstring."),
    "level_note": (
        "Trusted: Coq kernel; hand-written model; class table of 18 classes (checked against introspection each "
        "run; IntegerType.width's IntAttrConstraint(AnyInt) is rendered as BaseAttr(IntAttr)); correspondence "
        "harness. Not covered: IntConstraint / RangeConstraint families, ArrayOfConstraint and other dialect-defined "
        "AttrConstraint subclasses, GenericData hints (ArrayAttr[...]), TypeVar defaults, ConstraintConvertible "
        "enums, error-message text."),
}
COQ_TARGETS = ["C09/Enc.vo", "C09/Proofs.vo", "C09/ProofsGet.vo", "C09/ProofsU.vo", "Props/C09.vo"]
REQ = ["C09.Model", "C09.Enc"]
ASSUMPTIONS = [
    "a runtime-final attribute class has no proper subclass (enforced by runtime_final.__init_subclass__)",
    "attribute equality is the dataclass equality of class and payload/parameters (C08); no float payloads are generated",
]
TRUSTED = []

# ------------------------------------------------------------------------------------------------
# universe (ids must agree with coq/C09/Enc.v; the family "class-table" checks that they do)

_UNIV = None
STRS = ["", "a", "b", "foo"]
VARS = ["T0", "T1", "T2"]
MSGS = ["m0", "m1"]

_T = _A = _B = None      # TypeVars of the generic harness classes, created in univ()


def univ():
    """Lazily import xdsl and define the harness classes once."""
    global _UNIV, _T, _A, _B
    if _UNIV is not None:
        return _UNIV
    from xdsl.dialects.builtin import (Float32Type, IndexType, IntAttr, IntegerAttr, IntegerType, Signedness,
                                       SignednessAttr, StringAttr, UnitAttr)
    from xdsl.ir import Attribute, Data, ParametrizedAttribute, TypeAttribute
    from xdsl.irdl import AnyAttr, VarConstraint, irdl_attr_definition, param_def

    class Shape(ParametrizedAttribute, TypeAttribute, ABC):
        name = "c09.shape"

    _T = TypeVar("_T", bound=Attribute, covariant=True)
    _A = TypeVar("_A", bound=Shape, covariant=True)
    _B = TypeVar("_B", bound=IntAttr | StringAttr, covariant=True)

    @irdl_attr_definition
    class Circle(Shape):
        name = "c09.circle"

    @irdl_attr_definition
    class Square(Shape):
        name = "c09.square"
        side: IntAttr

    @irdl_attr_definition
    class Box(ParametrizedAttribute, Generic[_T]):
        name = "c09.box"
        elem: _T

    @irdl_attr_definition
    class Pair(ParametrizedAttribute, Generic[_A, _B]):
        name = "c09.pair"
        fst: _A
        snd: _B

    @irdl_attr_definition
    class Same(ParametrizedAttribute):
        name = "c09.same"
        a: Attribute = param_def(VarConstraint("T0", AnyAttr()))
        b: Attribute = param_def(VarConstraint("T0", AnyAttr()))

    classes = [Attribute, TypeAttribute, ParametrizedAttribute, IntAttr, StringAttr, SignednessAttr, IndexType,
               Float32Type, UnitAttr, IntegerType, IntegerAttr, Shape, Circle, Square, Box, Pair, Data, Same]
    _UNIV = {"classes": classes, "id": {c: i for i, c in enumerate(classes)}, "Signedness": Signedness}
    return _UNIV


NCLS = 18
K_INT, K_STR, K_SIGN, K_INDEX, K_F32, K_UNIT, K_ITYPE, K_IATTR = 3, 4, 5, 6, 7, 8, 9, 10
K_SHAPE, K_CIRCLE, K_SQUARE, K_BOX, K_PAIR, K_DATA, K_SAME = 11, 12, 13, 14, 15, 16, 17
PARAM_CLASSES = [6, 7, 8, 9, 10, 11, 12, 13, 14, 15, 17]     # usable as ParamAttrConstraint base
ARITY = {6: 0, 7: 0, 8: 0, 9: 2, 10: 2, 12: 0, 13: 1, 14: 1, 15: 2, 17: 2, 11: 0}
NTV = {14: 1, 15: 2, 10: 1}


def mk_attr(a):
    """encoded attribute ([0,k,d] | [1,k,[params]]) -> real object; ParametrizedAttribute.new verifies"""
    u = univ()
    k = a[1]
    cls = u["classes"][k]
    if a[0] == 0:
        if k == K_INT:
            return cls(a[2])
        if k == K_STR:
            return cls(STRS[a[2]])
        if k == K_SIGN:
            return cls(u["Signedness"](a[2]))
        raise ValueError(f"no data class {k}")
    return cls.new(tuple(mk_attr(p) for p in a[2]))


def enc_attr(o):
    u = univ()
    from xdsl.ir import Data
    k = u["id"][type(o)]
    if isinstance(o, Data):
        d = o.data
        if k == K_STR:
            d = STRS.index(d)
        elif k == K_SIGN:
            d = d.value
        return [0, k, int(d)]
    return [1, k, [enc_attr(p) for p in o.parameters]]


def enc_constr(c, tvs=None):
    """real constraint object -> canonical nested ints (the encoding of coq/C09/Enc.v enc_constr)"""
    from xdsl.irdl import constraints as K
    u = univ()
    r = lambda x: enc_constr(x, tvs)
    if isinstance(c, K.AnyAttr):
        return [0]
    if isinstance(c, K.BaseAttr):
        return [1, u["id"][c.attr]]
    if isinstance(c, K.EqAttrConstraint):
        return [2, enc_attr(c.attr)]
    if isinstance(c, K.AttrSetConstraint):
        return [3, sorted(enc_attr(v) for v in c.values)]
    if isinstance(c, K.AnyOf):
        return [4, [r(x) for x in c.attr_constrs]]
    if isinstance(c, K.AllOf):
        return [5, [r(x) for x in c.attr_constrs]]
    if isinstance(c, K.ParamAttrConstraint):
        return [6, u["id"][c.base_attr], [r(x) for x in c.param_constrs]]
    if isinstance(c, K.VarConstraint):
        return [7, VARS.index(c.name), r(c.constraint)]
    if isinstance(c, K.MessageConstraint):
        return [8, MSGS.index(c.message), r(c.constr)]
    if isinstance(c, K.TypeVarConstraint):
        idx = tvs.index(c.type_var) if tvs is not None else TV_OBJS().index(c.type_var)
        return [9, idx, r(c.base_constraint)]
    from xdsl.dialects.builtin import IntAttrConstraint
    if isinstance(c, IntAttrConstraint) and type(c.int_constraint).__name__ == "IntTypeVarConstraint":
        return [1, K_INT]          # documented rendering of IntegerType.width's constraint
    raise ValueError(f"constraint outside the modelled fragment: {c!r}")


_TVO = None


def TV_OBJS():
    """TypeVar objects used by XTypeVar expressions (index -> object)"""
    global _TVO
    if _TVO is None:
        univ()
        _TVO = [_T, _A, _B]
    return _TVO


# ------------------------------------------------------------------------------------------------
# constructor expressions -> real constraints / Coq terms

def build(e, raw=False):
    """Run the public constructors.  raw=True: the caller is a .get-style constructor that coerces, so
    classes / attributes are passed as they are."""
    from xdsl.irdl import constraints as K
    from xdsl.irdl import irdl_to_attr_constraint
    u = univ()
    t = e[0]
    if t == "any":
        return K.AnyAttr()
    if t == "base":
        return K.BaseAttr(u["classes"][e[1]])
    if t == "eq":
        return K.EqAttrConstraint(mk_attr(e[1]))
    if t == "attr":          # a raw attribute, coerced by the callee (or by irdl_to_attr_constraint)
        a = mk_attr(e[1])
        return a if raw else irdl_to_attr_constraint(a)
    if t == "cls":
        c = u["classes"][e[1]]
        return c if raw else irdl_to_attr_constraint(c)
    if t == "setget":
        return K.AttrSetConstraint.get(*[mk_attr(a) for a in e[1]])
    if t == "set":
        return K.AttrSetConstraint(frozenset(mk_attr(a) for a in e[1]))
    if t == "anyof":
        return K.AnyOf(tuple(build(x) for x in e[1]))
    if t == "anyofget":
        return K.AnyOf.get(*[build(x, raw=True) for x in e[1]])
    if t == "or":
        return build(e[1]) | build(e[2])
    if t == "and":
        return build(e[1]) & build(e[2])
    if t == "allof":
        return K.AllOf(tuple(build(x) for x in e[1]))
    if t == "param":
        return K.ParamAttrConstraint(u["classes"][e[1]], tuple(build(x) for x in e[2]))
    if t == "paramget":
        return K.ParamAttrConstraint.get(u["classes"][e[1]], *[build(x, raw=True) for x in e[2]])
    if t == "var":
        return K.VarConstraint.get(VARS[e[1]], build(e[2], raw=True)) if e[2][0] in ("attr", "cls") \
            else K.VarConstraint(VARS[e[1]], build(e[2]))
    if t == "msg":
        return K.MessageConstraint(build(e[2], raw=True), MSGS[e[1]])
    if t == "tv":
        return K.TypeVarConstraint(TV_OBJS()[e[1]], build(e[2]))
    raise ValueError(t)


def coq_attr(a):
    if a[0] == 0:
        return f"(Data {coq_nat(a[1])} {coq_Z(a[2])})"
    return f"(Par {coq_nat(a[1])} {coq_list(coq_attr(p) for p in a[2])})"


def coq_cexp(e):
    t = e[0]
    L = lambda es: coq_list(coq_cexp(x) for x in es)
    if t == "any":
        return "XAny"
    if t == "base":
        return f"(XBase {coq_nat(e[1])})"
    if t in ("eq", "attr"):
        return f"(XEq {coq_attr(e[1])})"
    if t == "cls":
        return f"(XCls {coq_nat(e[1])})"
    if t == "setget":
        return f"(XSetGet {coq_list(coq_attr(a) for a in e[1])})"
    if t == "set":
        return f"(XSet {coq_list(coq_attr(a) for a in e[1])})"
    if t == "anyof":
        return f"(XAnyOf {L(e[1])})"
    if t == "anyofget":
        return f"(XAnyOfGet {L(e[1])})"
    if t == "or":
        return f"(XOr {coq_cexp(e[1])} {coq_cexp(e[2])})"
    if t == "and":
        return f"(XAnd {coq_cexp(e[1])} {coq_cexp(e[2])})"
    if t == "allof":
        return f"(XAllOf {L(e[1])})"
    if t == "param":
        return f"(XParam {coq_nat(e[1])} {L(e[2])})"
    if t == "paramget":
        return f"(XParamGet {coq_nat(e[1])} {L(e[2])})"
    if t == "var":
        return f"(XVar {coq_nat(e[1])} {coq_cexp(e[2])})"
    if t == "msg":
        return f"(XMsg {coq_nat(e[1])} {coq_cexp(e[2])})"
    if t == "tv":
        return f"(XTypeVar {coq_nat(e[1])} {coq_cexp(e[2])})"
    raise ValueError(t)


def coq_ctx(x):
    return coq_list(f"({coq_nat(n)}, {coq_attr(a)})" for n, a in x)


def real_ctx(x):
    from xdsl.irdl import ConstraintContext
    return ConstraintContext(_variables={VARS[n]: mk_attr(a) for n, a in x})


def enc_ctx(cc):
    return sorted([VARS.index(n), enc_attr(v)] for n, v in cc._variables.items())


EXPECTED_EXC = None


def expected_exc():
    global EXPECTED_EXC
    if EXPECTED_EXC is None:
        from xdsl.utils.exceptions import PyRDLError, VerifyException
        EXPECTED_EXC = (PyRDLError, VerifyException, ValueError, AssertionError, KeyError, TypeError)
    return EXPECTED_EXC


# ------------------------------------------------------------------------------------------------
# family "constraints": implementation side

def observe(c, a, x, names):
    from xdsl.utils.exceptions import VerifyException
    u = univ()
    cc = real_ctx(x)
    try:
        c.verify(a, cc)
        ok = 1
    except VerifyException:
        ok = 0
    b = c.get_bases()
    bases = -1 if b is None else sorted(u["id"][k] for k in b)
    vs = sorted(VARS.index(n) for n in c.variables())
    ci = 1 if c.can_infer({VARS[n] for n in names}) else 0
    inf = []
    cc0 = real_ctx(x)
    if c.can_infer(cc0.attr_variables):
        try:
            v = c.infer(cc0)
            cc1 = real_ctx(x)
            try:
                c.verify(v, cc1)
                okv = 1
            except VerifyException:
                okv = 0
            inf = [enc_attr(v), okv]
        except expected_exc() as ex:
            inf = [-1, exc_code(ex)]
    return [enc_constr(c), [ok, enc_ctx(cc)], bases, vs, ci, inf]


def impl(case):
    try:
        c = build(case["e"])
    except expected_exc() as ex:
        return [-1, exc_code(ex)]
    return observe(c, mk_attr(case["a"]), case["x"], case["names"])


def coq_expr(case):
    return f"c09_case {coq_cexp(case['e'])} {coq_attr(case['a'])} {coq_ctx(case['x'])} {coq_nats(case['names'])}"


# ------------------------------------------------------------------------------------------------
# reference evaluator of the denotation (written from the property text and the docstrings;
# works on the real constraint OBJECTS' fields but never calls verify / get_bases / infer)

def ref_solve(c, a, s):
    """all minimal assignments s' >= s under which attribute a is in the denotation of c"""
    from xdsl.irdl import constraints as K
    if isinstance(c, K.AnyAttr):
        yield s
    elif isinstance(c, K.BaseAttr):
        if isinstance(a, c.attr):
            yield s
    elif isinstance(c, K.EqAttrConstraint):
        if a == c.attr:
            yield s
    elif isinstance(c, K.AttrSetConstraint):
        if any(a == v for v in c.values):
            yield s
    elif isinstance(c, K.AnyOf):                 # a union accepts what SOME alternative accepts
        for alt in c.attr_constrs:
            yield from ref_solve(alt, a, s)
    elif isinstance(c, K.AllOf):                 # an intersection what ALL accept
        def chain(i, s1):
            if i == len(c.attr_constrs):
                yield s1
            else:
                for s2 in ref_solve(c.attr_constrs[i], a, s1):
                    yield from chain(i + 1, s2)
        yield from chain(0, s)
    elif isinstance(c, K.ParamAttrConstraint):   # class and parameters
        from xdsl.ir import ParametrizedAttribute
        if isinstance(a, c.base_attr) and isinstance(a, ParametrizedAttribute) \
                and len(a.parameters) == len(c.param_constrs):
            ps = a.parameters

            def chainp(i, s1):
                if i == len(ps):
                    yield s1
                else:
                    for s2 in ref_solve(c.param_constrs[i], ps[i], s1):
                        yield from chainp(i + 1, s2)
            yield from chainp(0, s)
    elif isinstance(c, K.VarConstraint):         # all occurrences equal, each satisfying the inner constraint
        for s1 in ref_solve(c.constraint, a, s):
            if c.name in s1:
                if s1[c.name] == a:
                    yield s1
            else:
                s2 = dict(s1)
                s2[c.name] = a
                yield s2
    elif isinstance(c, K.MessageConstraint):
        yield from ref_solve(c.constr, a, s)
    elif isinstance(c, K.TypeVarConstraint):
        yield from ref_solve(c.base_constraint, a, s)
    else:
        raise ValueError(f"reference evaluator: unknown constraint {c!r}")


def ref_accepts(c, a, s=None):
    return next(iter(ref_solve(c, a, dict(s or {}))), None) is not None


def subconstraints(c):
    from xdsl.irdl import constraints as K
    yield c
    if isinstance(c, (K.AnyOf, K.AllOf)):
        for x in c.attr_constrs:
            yield from subconstraints(x)
    elif isinstance(c, K.ParamAttrConstraint):
        for x in c.param_constrs:
            yield from subconstraints(x)
    elif isinstance(c, K.VarConstraint):
        yield from subconstraints(c.constraint)
    elif isinstance(c, K.MessageConstraint):
        yield from subconstraints(c.constr)
    elif isinstance(c, K.TypeVarConstraint):
        yield from subconstraints(c.base_constraint)


def well_named(c):
    """every variable name carries one inner constraint throughout the tree"""
    from xdsl.irdl import constraints as K
    seen = {}
    for x in subconstraints(c):
        if isinstance(x, K.VarConstraint):
            if x.name in seen and seen[x.name] != x.constraint:
                return None
            seen[x.name] = x.constraint
    return seen


def holds(case, res):
    if res[0] == -1:
        return True, "constructor raised (compared with the model only)"
    u = univ()
    c = build(case["e"])
    a = mk_attr(case["a"])
    x = {VARS[n]: mk_attr(v) for n, v in case["x"]}
    (ok, bind), bases, vs, _ci, inf = res[1], res[2], res[3], res[4], res[5]
    gamma = well_named(c)
    # the initial context is consistent: every bound variable's value satisfies that variable's inner
    # constraint under the context itself (no further binding needed)
    ctx_ok = gamma is not None and all(
        n not in gamma or any(s == x for s in ref_solve(gamma[n], v, dict(x))) for n, v in x.items())
    if gamma is not None and ctx_ok:
        sols = []
        for s in ref_solve(c, a, dict(x)):
            e = sorted([VARS.index(n), enc_attr(v)] for n, v in s.items())
            if e not in sols:
                sols.append(e)
        if bool(ok) != bool(sols):
            return False, (f"verify {'accepts' if ok else 'rejects'} but the denotation "
                           f"{'contains' if sols else 'does not contain'} the attribute")
        if ok and bind not in sols:
            return False, f"variable bindings after verify {bind} are not an assignment of the denotation {sols}"
    if ok:
        if gamma is not None and ctx_ok and bases != -1 and u["id"][type(a)] not in bases:
            return False, f"accepted attribute of class {u['id'][type(a)]} but get_bases() = {bases}"
        bound = {b[0] for b in bind}
        if gamma is not None and ctx_ok and not set(vs) <= bound:
            return False, f"variables() = {vs} but only {sorted(bound)} bound after a successful verify"
        for n, v in case["x"]:
            if [n, v] not in bind:
                return False, f"binding of variable {n} present before verify was changed or lost"
    if inf:
        if inf[0] == -1:
            return False, f"can_infer is true but infer raised (exception code {inf[1]})"
        if inf[1] != 1:
            return False, f"can_infer is true but the inferred attribute {inf[0]} does not verify"
    return True, ""


def known(case, res):
    """C09-kf-1: some AllOf node's inferred attribute (that of its first inferable conjunct) is rejected by
    another conjunct of the same node.  C09-kf-2: some ParamAttrConstraint node over a final class infers
    parameters that the class itself rejects (wrong count or class invariant), so infer raises."""
    from xdsl.irdl import constraints as K
    if res[0] == -1 or not res[5]:
        return None
    inf = res[5]
    if not (inf[0] == -1 or inf[1] != 1):
        return None
    c = build(case["e"])
    x = {VARS[n]: mk_attr(v) for n, v in case["x"]}
    names = set(x)
    for n in subconstraints(c):
        if isinstance(n, K.AllOf) and len(n.attr_constrs) >= 2 and n.can_infer(names):
            try:
                v = n.infer(real_ctx(case["x"]))
            except expected_exc():
                continue
            if not ref_accepts(n, v, x):
                return "C09-kf-1"
    for n in subconstraints(c):
        if isinstance(n, K.ParamAttrConstraint) and n.can_infer(names):
            try:
                ps = [p.infer(real_ctx(case["x"])) for p in n.param_constrs]
            except expected_exc():
                continue
            try:
                n.base_attr.new(tuple(ps))
            except expected_exc():
                return "C09-kf-2"
    return None


def shape(enc):
    """constraint encoding with attribute payloads erased (for counting distinct shapes)"""
    if not isinstance(enc, list):
        return enc
    if enc and enc[0] == 2:
        return (2,)
    if enc and enc[0] == 3:
        return (3, len(enc[1]))
    return tuple(shape(x) for x in enc)


def nontrivial(case, res):
    if res[0] == -1:
        return None
    s = repr(res[0])
    if any(f"[{t}, " in s for t in (4, 5, 6, 7)):
        return (shape(res[0]), res[1][0], tuple(map(tuple, [(b[0],) for b in res[1][1]])), bool(res[5]))
    return None


# ------------------------------------------------------------------------------------------------
# generators

def gen_attr(rng, depth=2, want=None):
    """a VALID attribute, encoded; `want` restricts the class to subclasses of that id"""
    u = univ()
    cands = [k for k in range(NCLS) if k not in (0, 1, 2, 11, 16)
             and (want is None or issubclass(u["classes"][k], u["classes"][want]))]
    if depth <= 0:
        cands = [k for k in cands if k in (3, 4, 5, 6, 7, 8, 12)] or cands
    for _ in range(50):
        k = rng.choice(cands)
        if k == K_INT:
            return [0, k, rng.choice([-1, 0, 1, 2, 5, 7, 8, 32, 127, 128, 255, 300])]
        if k == K_STR:
            return [0, k, rng.randrange(len(STRS))]
        if k == K_SIGN:
            return [0, k, rng.randrange(3)]
        if k in (K_INDEX, K_F32, K_UNIT, K_CIRCLE):
            return [1, k, []]
        if k == K_ITYPE:
            return [1, k, [[0, K_INT, rng.choice([1, 8, 8, 32])], [0, K_SIGN, rng.randrange(3)]]]
        if k == K_IATTR:
            ty = gen_attr(rng, 0, K_INDEX) if rng.random() < 0.3 else gen_attr(rng, 1, K_ITYPE)
            a = [1, k, [[0, K_INT, rng.choice([-1, 0, 1, 2, 5, 7, 127, 128, 255, 300])], ty]]
        elif k == K_SQUARE:
            a = [1, k, [gen_attr(rng, 0, K_INT)]]
        elif k == K_BOX:
            a = [1, k, [gen_attr(rng, depth - 1)]]
        elif k == K_PAIR:
            a = [1, k, [gen_attr(rng, depth - 1, K_SHAPE), gen_attr(rng, 0, rng.choice([K_INT, K_STR]))]]
        elif k == K_SAME:
            p = gen_attr(rng, depth - 1)
            a = [1, k, [p, p]]
        else:
            continue
        try:
            mk_attr(a)
            return a
        except expected_exc():
            continue
    return [1, K_UNIT, []]


def supers(k):
    u = univ()
    return [j for j in range(NCLS) if issubclass(u["classes"][k], u["classes"][j])]


class Gen:
    """constraint-expression generator for one case: fixed inner constraint per variable (well-named)"""

    def __init__(self, rng, nvars, ill=False, malformed=False, target=None):
        self.rng, self.ill, self.mal = rng, ill, malformed
        self.gamma = []
        pool = [target] + (target[2] if target[0] == 1 else []) if target is not None else []
        for n in range(nvars):
            if pool and rng.random() < 0.65:
                self.gamma.append(self.match(rng.choice(pool), 1, maxvar=n))
            else:
                self.gamma.append(self.rand(1, maxvar=n))

    def var(self, n, a, depth):
        if self.ill and self.rng.random() < 0.5:
            inner = self.match(a, depth - 1, maxvar=n) if a is not None else self.rand(depth - 1, maxvar=n)
        else:
            inner = self.gamma[n]
        return ["var", n, inner]

    def leaf_match(self, a):
        rng = self.rng
        k = a[1]
        r = rng.random()
        if r < 0.15:
            return ["any"]
        if r < 0.45:
            s = rng.choice(supers(k))
            return ["cls", s] if rng.random() < 0.2 else (["any"] if s == 0 and rng.random() < 0.5 else ["base", s])
        if r < 0.7:
            return ["attr", a] if rng.random() < 0.2 else ["eq", a]
        vs = [a] + [gen_attr(rng, 1) for _ in range(rng.randint(0, 2))]
        rng.shuffle(vs)
        return [rng.choice(["setget", "set"]), vs]

    def match(self, a, depth, maxvar=None):
        """an expression that tends to accept attribute a"""
        rng = self.rng
        nv = len(self.gamma) if maxvar is None else min(maxvar, len(self.gamma))
        if depth <= 0:
            return self.leaf_match(a)
        r = rng.random()
        if r < 0.2:
            return self.leaf_match(a)
        if r < 0.4 and a[0] == 1:
            k = a[1]
            kb = rng.choice([j for j in supers(k) if j in PARAM_CLASSES])
            es = [self.match(p, depth - 1, maxvar) for p in a[2]]
            if self.mal and rng.random() < 0.3:
                es = es[:-1] if es and rng.random() < 0.5 else es + [["any"]]
            return [rng.choice(["param", "paramget"]), kb, es]
        if r < 0.6:
            alts = [self.match(a, depth - 1, maxvar)] + [self.rand(depth - 1, maxvar) for _ in range(rng.randint(0, 2))]
            rng.shuffle(alts)
            t = rng.choice(["anyof", "anyofget", "anyofget", "or"])
            if t == "or":
                if len(alts) == 1:
                    alts.append(self.rand(depth - 1, maxvar))
                e = alts[0]
                for y in alts[1:]:
                    e = ["or", e, y]
                return e
            return [t, alts]
        if r < 0.75:
            es = [self.match(a, depth - 1, maxvar) for _ in range(rng.randint(1, 3))]
            if rng.random() < 0.3 and len(es) >= 2:
                e = es[0]
                for y in es[1:]:
                    e = ["and", e, y]
                return e
            return ["allof", es]
        if r < 0.92 and nv > 0:
            return self.var(rng.randrange(nv), a, depth)
        if r < 0.96:
            return ["msg", rng.randrange(len(MSGS)), self.match(a, depth - 1, maxvar)]
        return ["tv", rng.randrange(3), self.match(a, depth - 1, maxvar)]

    def rand(self, depth, maxvar=None):
        rng = self.rng
        nv = len(self.gamma) if maxvar is None else min(maxvar, len(self.gamma))
        r = rng.random()
        if depth <= 0 or r < 0.35:
            r2 = rng.random()
            if r2 < 0.08:
                return ["any"]
            if r2 < 0.5:
                k = rng.randrange(1, NCLS)
                return ["cls", k] if rng.random() < 0.15 else ["base", k]
            if r2 < 0.8:
                a = gen_attr(rng, 1)
                return ["attr", a] if rng.random() < 0.15 else ["eq", a]
            return [rng.choice(["setget", "set"]), [gen_attr(rng, 1) for _ in range(rng.randint(0 if self.mal else 1, 3))]]
        if r < 0.55:
            k = rng.choice(PARAM_CLASSES)
            n = ARITY[k]
            if self.mal and rng.random() < 0.3:
                n = max(0, n + rng.choice([-1, 1]))
            return [rng.choice(["param", "paramget"]), k, [self.rand(depth - 1, maxvar) for _ in range(n)]]
        if r < 0.75:
            es = [self.rand(depth - 1, maxvar) for _ in range(rng.randint(0 if self.mal else 1, 3))]
            t = rng.choice(["anyof", "anyofget", "anyofget", "or"])
            if t == "or":
                while len(es) < 2:
                    es.append(self.rand(depth - 1, maxvar))
                e = es[0]
                for y in es[1:]:
                    e = ["or", e, y]
                return e
            return [t, es]
        if r < 0.87:
            es = [self.rand(depth - 1, maxvar) for _ in range(rng.randint(0 if self.mal else 1, 3))]
            if rng.random() < 0.3 and len(es) >= 2:
                e = es[0]
                for y in es[1:]:
                    e = ["and", e, y]
                return e
            return ["allof", es]
        if r < 0.96 and nv > 0:
            return self.var(rng.randrange(nv), None, depth)
        if r < 0.98:
            return ["msg", rng.randrange(len(MSGS)), self.rand(depth - 1, maxvar)]
        return ["tv", rng.randrange(3), self.rand(depth - 1, maxvar)]


def mutate_attr(rng, a):
    """a (valid) attribute close to a"""
    if rng.random() < 0.5 or a[0] == 0:
        return gen_attr(rng, 2)
    for _ in range(10):
        ps = list(a[2])
        if not ps:
            break
        i = rng.randrange(len(ps))
        ps[i] = gen_attr(rng, 1)
        b = [1, a[1], ps]
        try:
            mk_attr(b)
            return b
        except expected_exc():
            continue
    return gen_attr(rng, 2)


def gen_case(rng, stream):
    ill, mal = stream == "ill-named", stream == "malformed"
    a = gen_attr(rng, 2)
    g = Gen(rng, rng.choice([0, 1, 2, 2, 3]), ill=ill, malformed=mal, target=a)
    depth = rng.choice([1, 2, 2, 3])
    for _ in range(3):          # leaf constraints are kept with probability ~0.3 only
        e = g.match(a, depth) if rng.random() < 0.6 else g.rand(depth)
        if e[0] not in ("any", "base", "eq", "attr", "cls", "set", "setget") or rng.random() < 0.3:
            break
    # the attribute actually verified: the one the constraint was grown for, or a neighbour
    av = a if rng.random() < 0.7 else mutate_attr(rng, a)
    # initial context
    x = []
    r = rng.random()
    nv = len(g.gamma)
    if nv and r < 0.45:
        for n in range(nv):
            if rng.random() < 0.5:
                # a value likely to satisfy gamma[n]: a sub-attribute of the case attribute or a fresh one
                pool = [av] + (av[2] if av[0] == 1 else []) + [gen_attr(rng, 1)]
                x.append([n, rng.choice(pool)])
    names = [n for n in range(3) if rng.random() < 0.4]
    return {"e": e, "a": av, "x": x, "names": names, "stream": stream}


# ------------------------------------------------------------------------------------------------
# family "unions": AnyOf.get / `|` keep the accepted set (real verifies on probes) + model shape

def union_impl(case):
    from xdsl.irdl import constraints as K
    try:
        alts = [build(e) for e in case["alts"]]
    except expected_exc() as ex:
        return [-2, exc_code(ex)]
    try:
        if case["op"] == "get":
            c = K.AnyOf.get(*alts)
        else:
            c = alts[0]
            for y in alts[1:]:
                c = c | y
    except expected_exc() as ex:
        return [-1, exc_code(ex)]
    probes = [mk_attr(p) for p in case["probes"]]
    return [enc_constr(c), [[1 if c.verifies(p) else 0, [1 if y.verifies(p) else 0 for y in alts]] for p in probes]]


def union_coq(case):
    alts = coq_list(coq_cexp(e) for e in case["alts"])
    probes = coq_list(coq_attr(p) for p in case["probes"])
    return f"c09_union {coq_bool(case['op'] == 'get')} {alts} {probes}"


def union_holds(case, res):
    if res[0] in (-1, -2):
        return True, "raised"
    for p, (whole, parts) in zip(case["probes"], res[1]):
        if bool(whole) != any(parts):
            return False, (f"simplified union {'accepts' if whole else 'rejects'} probe {p} but the alternatives "
                           f"accept: {parts}")
    # the same statement on the denotation (reference evaluator), independent of verify
    alts = [build(e) for e in case["alts"]]
    from xdsl.irdl import constraints as K
    c = K.AnyOf.get(*alts) if case["op"] == "get" else None
    if c is not None:
        for p in case["probes"]:
            a = mk_attr(p)
            if ref_accepts(c, a) != any(ref_accepts(y, a) for y in alts):
                return False, f"denotation of the simplified union differs from the union of denotations on {p}"
    return True, ""


def union_nontrivial(case, res):
    if res[0] in (-1, -2):
        return None
    flat = [4, [enc_constr(build(e)) for e in case["alts"]]]
    if res[0] != flat:
        return (shape(res[0]), tuple(tuple(x[1]) for x in res[1]))
    return None


def gen_union_case(rng):
    g = Gen(rng, rng.choice([0, 0, 1, 2]))
    probes = [gen_attr(rng, 2) for _ in range(3)]
    alts = []
    for _ in range(rng.randint(1, 4)):
        r = rng.random()
        if r < 0.6:
            alts.append(g.match(rng.choice(probes), rng.choice([0, 1, 1, 2])))
        else:
            alts.append(g.rand(rng.choice([0, 1, 2])))
    # frequent mergeable shapes: same parametrized class differing in one parameter
    if rng.random() < 0.4:
        p = rng.choice(probes)
        if p[0] == 1 and p[2]:
            es = [g.match(q, 1) for q in p[2]]
            es2 = list(es)
            i = rng.randrange(len(es2))
            es2[i] = g.rand(1)
            alts += [["param", p[1], es], ["param", p[1], es2]]
            if rng.random() < 0.3:
                alts.append(["base", p[1]])
    # two alternatives over one binary class built for two different attributes, probed with the
    # "cross" attributes taking one parameter from each (a merge of alternatives that differ in two
    # parameters would accept the crosses)
    if rng.random() < 0.35:
        k = rng.choice([K_ITYPE, K_IATTR, K_PAIR])
        p, q = gen_attr(rng, 2, k), gen_attr(rng, 2, k)
        if p[1] == k and q[1] == k:
            alts += [["param", k, [g.leaf_match(x) for x in p[2]]], ["param", k, [g.leaf_match(x) for x in q[2]]]]
            for cross in ([1, k, [p[2][0], q[2][1]]], [1, k, [q[2][0], p[2][1]]]):
                try:
                    mk_attr(cross)
                    probes.append(cross)
                except expected_exc():
                    pass
            probes += [p, q]
    rng.shuffle(alts)
    probes += [mutate_attr(rng, p) for p in probes[:2]]
    return {"alts": alts, "probes": probes, "op": rng.choice(["get", "get", "or"]) if len(alts) >= 2 else "get"}


# ------------------------------------------------------------------------------------------------
# family "hints"

def mk_hint(h):
    u = univ()
    t = h[0]
    if t == "cls":
        return u["classes"][h[1]]
    if t == "union":
        return Union[tuple(mk_hint(x) for x in h[1])]
    if t == "gen":
        return u["classes"][h[1]][tuple(mk_hint(x) for x in h[2])]
    if t == "annot":
        return Annotated[(mk_hint(h[1]), *[build(m, raw=True) for m in h[2]])]
    raise ValueError(t)


def coq_hint(h):
    t = h[0]
    if t == "cls":
        return f"(HCls {coq_nat(h[1])})"
    if t == "union":
        return f"(HUnion {coq_list(coq_hint(x) for x in h[1])})"
    if t == "gen":
        return f"(HGen {coq_nat(h[1])} {coq_list(coq_hint(x) for x in h[2])})"
    if t == "annot":
        return f"(HAnnot {coq_hint(h[1])} {coq_list(coq_simple_constr(m) for m in h[2])})"
    raise ValueError(t)


def coq_simple_constr(m):
    if m[0] in ("eq", "attr"):
        return f"(CEq {coq_attr(m[1])})"
    if m[0] == "base":
        return f"(CBase {coq_nat(m[1])})"
    if m[0] == "cls":
        return "CAny" if m[1] == 0 else f"(CBase {coq_nat(m[1])})"
    raise ValueError(m)


def hint_impl(case):
    from xdsl.irdl import irdl_to_attr_constraint
    from xdsl.utils.hints import isa
    a = mk_attr(case["a"])
    h = mk_hint(case["h"])
    try:
        c = irdl_to_attr_constraint(h)
        r1 = [enc_constr(c), 1 if c.verifies(a) else 0]
    except expected_exc() as ex:
        r1 = [-1, exc_code(ex)]
    try:
        r2 = 1 if isa(a, h) else 0
    except expected_exc() as ex:
        r2 = [-1, exc_code(ex)]
    return [r1, r2]


def hint_holds(case, res):
    r1, r2 = res
    if r1[0] == -1 or isinstance(r2, list):
        return True, "one side raised"
    if r1[1] != r2:
        return False, f"irdl_to_attr_constraint(hint).verifies(attr) = {r1[1]} but isa(attr, hint) = {r2}"
    return True, ""


def hint_nontrivial(case, res):
    if res[0][0] == -1 or isinstance(res[1], list):
        return None
    if case["h"][0] in ("union", "gen"):
        return (repr(case["h"]), res[1])
    return None


def gen_hint(rng, depth, want=None):
    u = univ()
    r = rng.random()
    if depth <= 0 or r < 0.4:
        ks = [k for k in range(NCLS) if want is None or issubclass(u["classes"][k], u["classes"][want])]
        return ["cls", rng.choice(ks)]
    if r < 0.65:
        members = []
        for _ in range(rng.randint(2, 3)):
            m = gen_hint(rng, depth - 1, want)
            if m[0] != "union" and m not in members:
                members.append(m)
        # typing caches K[A | B] under a key that equals K[B | A], so the order of union members seen by
        # irdl_to_attr_constraint would depend on which alias was created first in this process: always
        # write union members in one canonical order
        members.sort(key=repr)
        return ["union", members] if len(members) >= 2 else (members[0] if members else ["cls", want or 0])
    if r < 0.95:
        k = rng.choice([K_BOX, K_PAIR, K_IATTR])
        if want is not None and not issubclass(u["classes"][k], u["classes"][want]):
            return ["cls", want]
        if k == K_BOX:
            return ["gen", k, [gen_hint(rng, depth - 1)]]
        if k == K_PAIR:
            return ["gen", k, [gen_hint(rng, depth - 1, K_SHAPE),
                               rng.choice([["cls", K_INT], ["cls", K_STR], ["union", [["cls", K_INT], ["cls", K_STR]]]])]]
        return ["gen", k, [rng.choice([["cls", K_ITYPE], ["cls", K_INDEX],
                                       ["union", sorted([["cls", K_ITYPE], ["cls", K_INDEX]], key=repr)]])]]
    metas = [rng.choice([["attr", gen_attr(rng, 1)], ["base", rng.randrange(1, NCLS)], ["cls", rng.randrange(NCLS)]])
             for _ in range(rng.randint(1, 2))]
    inner = gen_hint(rng, depth - 1, want)
    if inner[0] == "annot":      # typing flattens Annotated[Annotated[T, a], b] to Annotated[T, a, b]
        return ["annot", inner[1], inner[2] + metas]
    return ["annot", inner, metas]


def attr_for_hint(rng, h):
    """an attribute with a fair chance of matching hint h"""
    t = h[0]
    try:
        if t == "cls":
            return gen_attr(rng, 2, h[1])
        if t == "union":
            return attr_for_hint(rng, rng.choice(h[1]))
        if t == "annot":
            return attr_for_hint(rng, h[1])
        if t == "gen":
            k = h[1]
            for _ in range(10):
                ps = [attr_for_hint(rng, x) for x in h[2]]
                if k == K_IATTR:
                    ps = [[0, K_INT, rng.choice([0, 1, 5])], ps[0]]
                a = [1, k, ps]
                try:
                    mk_attr(a)
                    return a
                except expected_exc():
                    continue
    except (IndexError, ValueError):
        pass
    return gen_attr(rng, 2)


# ------------------------------------------------------------------------------------------------
# family "new" and "class-table"

def new_impl(case):
    u = univ()
    try:
        return enc_attr(u["classes"][case["k"]].new(tuple(mk_attr(p) for p in case["ps"])))
    except expected_exc() as ex:
        return [-1, exc_code(ex)]


def table_impl(_case):
    from xdsl.ir import ParametrizedAttribute
    from xdsl.utils.hints import get_type_var_from_generic_class
    from xdsl.utils.runtime_final import is_runtime_final
    u = univ()
    out = []
    for k, c in enumerate(u["classes"]):
        fin = is_runtime_final(c)
        isp = issubclass(c, ParametrizedAttribute)
        tvs = []
        if issubclass(c, Generic) and any(getattr(b, "__origin__", None) is Generic for b in getattr(c, "__orig_bases__", ())):
            tvs = list(get_type_var_from_generic_class(c))
        cdef = []
        if fin and isp:
            cdef = [enc_constr(p.constr, tvs) for _, p in c.get_irdl_definition().parameters]
        ntv = len(tvs) if k in (K_ITYPE, K_IATTR, K_BOX, K_PAIR) else 0
        out.append([1 if fin else 0, 1 if isp else 0,
                    [1 if issubclass(c, d) else 0 for d in u["classes"]], cdef, ntv])
    return out


# ------------------------------------------------------------------------------------------------

def distribution(cases, sample=400):
    """what was generated: constructor kinds, tree sizes, context sizes; and on a sample what the
    implementation did with it (constructor errors, accept/reject, infer outcomes)"""
    import collections
    kinds, sizes, ctxs = collections.Counter(), collections.Counter(), collections.Counter()

    def walk(e):
        kinds[e[0]] += 1
        n = 1
        for x in e[1:]:
            if isinstance(x, list) and x and isinstance(x[0], str):
                n += walk(x)
            elif isinstance(x, list):
                for y in x:
                    if isinstance(y, list) and y and isinstance(y[0], str):
                        n += walk(y)
        return n
    for c in cases:
        sizes[min(walk(c["e"]), 12)] += 1
        ctxs[len(c["x"])] += 1
    out = collections.Counter()
    for c in cases[:sample]:
        r = impl(c)
        if r[0] == -1:
            out[f"constructor-raises-{r[1]}"] += 1
        else:
            out["accept" if r[1][0] else "reject"] += 1
            if r[1][1]:
                out["bindings-left"] += 1
            if r[5]:
                out["infer-raises" if r[5][0] == -1 else ("infer-verifies" if r[5][1] else "infer-rejected")] += 1
    return {"constructor_kinds": dict(kinds), "tree_nodes(capped 12)": dict(sorted(sizes.items())),
            "initial_context_size": dict(sorted(ctxs.items())), f"outcomes_first_{sample}": dict(out)}


def replay_case(ctx, witness):
    case = witness.get("case", witness)
    fam = witness.get("family", "constraints")
    f = {"constraints": (impl, holds, coq_expr), "unions": (union_impl, union_holds, union_coq),
         "hints": (hint_impl, hint_holds, lambda c: f"c09_hint {coq_hint(c['h'])} {coq_attr(c['a'])}")}.get(fam.split(":")[0])
    if f is None:
        print("unknown family", fam)
        return 0
    r = f[0](case)
    ok, why = f[1](case, r)
    m = ctx.coq_eval(REQ, [f[2](case)])[0]
    print("implementation:", r)
    print("model:         ", m)
    print("oracle:", ok, why)
    return 0 if ok and r == m else 1


def run(ctx: Ctx):
    thorough = ctx.tier == "thorough"
    rng = ctx.rng
    univ()
    replay_findings(ctx, "constraints", impl, holds)

    # class table
    differential(ctx, DiffSpec("class-table", REQ, [{"table": 1}], table_impl, lambda c: "c09_table", None, None,
                               lambda c, r: "table"))

    # ParametrizedAttribute.new on valid and invalid parameter lists
    cases = []
    for _ in range(1500 if thorough else 250):
        k = rng.choice([6, 8, 9, 10, 12, 13, 14, 15, 17])
        n = ARITY[k] if rng.random() < 0.85 else max(0, ARITY[k] + rng.choice([-1, 1]))
        if rng.random() < 0.5:
            a = gen_attr(rng, 2, k)
            ps = a[2] if a[1] == k else [gen_attr(rng, 1) for _ in range(n)]
            if rng.random() < 0.3 and ps:
                ps = list(ps)
                ps[rng.randrange(len(ps))] = gen_attr(rng, 1)
        else:
            ps = [gen_attr(rng, 1) for _ in range(n)]
        cases.append({"k": k, "ps": ps})
    differential(ctx, DiffSpec("new", REQ, cases, new_impl,
                               lambda c: f"c09_new {coq_nat(c['k'])} {coq_list(coq_attr(p) for p in c['ps'])}",
                               None, None, lambda c, r: (c["k"], r[0] == -1 and r[1])))

    # constraints
    dist = {}
    for stream, n_q, n_t in (("well-named", 2200, 16000), ("ill-named", 400, 3000), ("malformed", 400, 3000)):
        cases = [gen_case(rng, stream) for _ in range(n_t if thorough else n_q)]
        differential(ctx, DiffSpec(f"constraints:{stream}", REQ, cases, impl, coq_expr, holds, known, nontrivial))
        dist[stream] = distribution(cases)
    ctx.coverage["distribution"] = dist
    # unions
    cases = [gen_union_case(rng) for _ in range(6000 if thorough else 900)]
    differential(ctx, DiffSpec("unions", REQ, cases, union_impl, union_coq, union_holds, None, union_nontrivial))
    # hints
    cases = []
    for _ in range(4000 if thorough else 700):
        h = gen_hint(rng, rng.choice([1, 2, 2, 3]))
        a = attr_for_hint(rng, h) if rng.random() < 0.7 else gen_attr(rng, 2)
        cases.append({"h": h, "a": a})
    differential(ctx, DiffSpec("hints", REQ, cases, hint_impl,
                               lambda c: f"c09_hint {coq_hint(c['h'])} {coq_attr(c['a'])}",
                               hint_holds, None, hint_nontrivial))
    ctx.coverage["rule"] = " ".join(__doc__.split("Generation:", 1)[1].split())[:1200]
