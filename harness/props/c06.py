"""C06 -- Builtin attributes and types round-trip bit-exactly through text.

Tie: hand-written Coq model (coq/C06/Model.v) of the text codec kernels (print_int / integer literals and
IntegerAttr normalisation, print_bytes_literal / StringLiteral.bytes_contents, UTF-8, the string-literal regex and
the STRING_LIT/BYTES_LIT classification, _lex_number and the token stream, identifier-or-string for symbol names
and dictionary keys, print_float's decision logic / the float and hex literal branches of the parser, dense
elements and dense arrays) vs the REAL printer, lexer and parser, per kernel, on generated values with boundary
numerics: printed text, token stream and re-parsed value are compared.  CPython's float formatting/scanning and
struct packing are oracles of the float kernels: the harness computes them with CPython (struct, float(), %-format)
for each case, hands them to the model as tables and checks the hypotheses H1-H4 of the theorems on every sampled
bit pattern in the same run.  Oracle (independent of the model): Parser(ctx, str(attr)).parse_attribute() == attr
plus a bit comparison of every numeric payload, per kernel and on recursively generated builtin attributes/types.
Non-trivial: the case reaches a non-default branch (escape, non-ASCII, negative/normalised integer, non-%.5e float
form, splat/hex/nested dense form, quoted identifier); distinct = distinct case.
"""
from __future__ import annotations

import io
import math
import re
import struct

from harness.common import (Ctx, DiffSpec, ModelUnavailable, coq_list, coq_Z, coq_Zs, differential, exc_code,
                            replay_findings, to_jsonable)

META = {
    "id": "C06",
    "title": "Builtin attributes and types round-trip bit-exactly through text",
    "design_ref": "DESIGN.md section 8.C06",
    "technique": "Coq round-trip theorems for the codec kernels (CPython float formatting as checked oracles) + per-kernel model-vs-code correspondence + full-attribute round-trip oracle",
    "level_text": (
        "Theorems in coq/Props/C06.v about the executable model of the codec kernels: integer attributes of EVERY "
        "width and signedness and every in-range value print to text that lexes and parses back to the same "
        "normalised value; unescape(escape(bs)) = bs and the literal regex accepts exactly the printed literal for "
        "ALL byte lists; UTF-8 decode(encode(s)) = s for all surrogate-free code-point lists; symbol references "
        "round-trip for all such names (bare identifier iff it matches the bare-id grammar, else quoted); "
        "print_float's decision logic followed by the parser's float/hex-literal branches returns the same binary64 "
        "bits for every class (NaN payloads, infinities, signed zeros, finite) of every float type, given the "
        "pointwise CPython facts H1-H4 that the harness checks on each sampled bit pattern; dense elements and "
        "dense arrays round-trip whenever every element does and the splat test is exact (proved outright for "
        "integer/index elements of every width <= 64).  The unchanged tree REFUTES clauses of the property (proved "
        "as *_refuted with the strongest *_partial / exact characterisation): strings with a non-ASCII character "
        "come back as bytes and non-ASCII dictionary keys do not parse (kf-3, kf-4), bytes with a text-like payload "
        "come back as strings (kf-5), float dense elements printed in hex (NaN, inf, finite values whose "
        "%.9g/%.17g form has no '.') are re-read as float(int) (kf-1) or rejected in dense arrays (kf-2), and a "
        "tensor of mixed +0.0/-0.0 prints as a splat (kf-6).  The model carries the four proposed repairs as flags "
        "and the full statements are proved for the repaired variants (C06_string_rt_fixed, C06_dict_rt_fixed, "
        "C06_dense_float_rt_fixed, C06_densearray_float_rt_fixed).  The model is tied to the code by per-kernel "
        "differential testing of printed text, token streams and parsed values."),
    "level_note": (
        "Trusted: Coq kernel; hand-written model; correspondence harness; CPython's struct.pack/unpack, float(), "
        "%.5e/%.9g/%.17g/repr and xDSL's own bf16/reduced-precision encoders as oracles (hypotheses are evaluated "
        "on every sampled value).  Not modelled in Coq (covered only by the full-attribute round-trip oracle): "
        "nesting of dense list brackets, complex elements, locations, affine maps, shaped/function/tuple type "
        "syntax, array/dictionary recursion, DenseResourceAttr, opaque attributes; f80/f128 (constructor raises "
        "NotImplementedError); raw dense payloads with non-normalised padding bits; dense attributes whose element "
        "count differs from their type's shape; lexing of non-ASCII letters/digits outside string literals; "
        "dense attributes with reduced-precision (f8/f6/f4/tf32) NaN elements (is_splat's object-identity shortcut)."),
}
COQ_TARGETS = ["C06/Enc.vo", "C06/ProofsText.vo", "C06/ProofsNum.vo", "C06/ProofsWit.vo", "Props/C06.vo"]
REQ = ["C06.Model", "C06.Enc"]
ASSUMPTIONS = [
    "values are built through the public constructors (IntegerAttr, FloatAttr, StringAttr, from_list, ...); strings are surrogate-free",
    "CPython float formatting/scanning: H1 float(f'{x:.17g}') == x for finite binary64; H2 f32(float(f'{x:.9g}')) == x for finite binary32; "
    "H3 the decimal forms lex as [MINUS] FLOAT_LIT exactly when they contain '.'; H4 float('-'+s) == -float(s) -- checked on every sampled value in the same run",
]
TRUSTED = [
    "oracles of the float kernels (not modelled in Coq, checked per sampled value): struct.pack/unpack '<e' '<f' '<d', float(str), "
    "'%.5e' '%.9g' '%.17g' formatting, repr(float), float(int); bf16 and reduced-precision pack/unpack are xDSL's own encoders",
]

# The model is parametrised by the proposed repairs (build/proposed_fixes/C06-<n>.diff); False = the unchanged
# tree.  When a repair is committed to /repo: set its flag, and mark the listed known findings `fixed`.
LEXER_FIXED = True         # C06-1: string literals classified by UTF-8 decodability   (C06-kf-3, C06-kf-4)
DENSE_HEX_FIXED = True     # C06-2: hexadecimal dense elements are bit patterns         (C06-kf-1)
ARRAY_HEX_FIXED = True     # C06-3: hexadecimal dense-array float elements are accepted (C06-kf-2)
SPLAT_FIXED = True         # C06-4: is_splat compares the stored bytes                  (C06-kf-6)


def cb(b):
    return "true" if b else "false"


FX = cb(LEXER_FIXED)

KF_DENSE_HEX = "C06-kf-1"
KF_ARRAY_HEX = "C06-kf-2"
KF_STRING = "C06-kf-3"
KF_DICTKEY = "C06-kf-4"
KF_BYTES = "C06-kf-5"
KF_SPLAT = "C06-kf-6"
KF_NONEATTR = "C06-kf-7"
KF_FUSED_META = "C06-kf-8"
KF_COMPLEX_HEX = "C06-kf-9"
KF_RESOURCE = "C06-kf-10"
KF_FLOATDATA = "C06-kf-11"

# ---------------------------------------------------------------------------- helpers
_CTX = None


def xctx():
    global _CTX
    if _CTX is None:
        from xdsl.context import Context
        from xdsl.dialects.builtin import Builtin
        _CTX = Context()
        _CTX.load_dialect(Builtin)
    return _CTX


def parse_attr(text: str):
    from xdsl.parser import Parser
    if "dense_resource" in text:
        # resource keys are deduplicated against a process-global table (OpAsmDialectInterface._blob_storage):
        # parsing the same key in a second Parser renames it.  Each round trip starts from an empty table.
        from xdsl.dialect_interfaces.op_asm import OpAsmDialectInterface
        iface = xctx().get_dialect("builtin").get_interface(OpAsmDialectInterface)
        if iface is not None:
            iface._blob_storage.clear()
    return Parser(xctx(), text).parse_attribute()


def cps(s: str):
    return [ord(c) for c in s]


def uncps(l):
    return "".join(chr(c) for c in l)


def err(e: BaseException):
    return [-1, exc_code(e)]


def has_surrogate(l):
    return any(0xD800 <= c < 0xE000 for c in l)


def f64(b: int) -> float:
    return struct.unpack("<d", struct.pack("<Q", b))[0]


def b64(x: float) -> int:
    return struct.unpack("<Q", struct.pack("<d", x))[0]


def zc(n):
    """compact Z literal (the case files open Z_scope)"""
    return f"({n})" if n < 0 else str(n)


def zs(l):
    return "[" + ";".join(zc(n) for n in l) + "]"


def coq_text(l):
    """code-point list; printable ASCII without quotes goes through Model.str (6x shorter to parse)"""
    if l and all(32 <= c < 127 and c != 34 for c in l):
        return '(str "' + uncps(l) + '")'
    return zs(l)


def coq_pairs(d, val=zc, key=zc):
    return "[" + ";".join(f"({key(k)},{val(v)})" for k, v in d.items()) + "]"


# ---------------------------------------------------------------------------- integers
def ity(w, s):
    from xdsl.dialects.builtin import IndexType, IntegerType, Signedness
    return IndexType() if w < 0 else IntegerType(w, Signedness(s))


def enc_ity(t):
    from xdsl.dialects.builtin import IndexType
    return [-1, 0] if isinstance(t, IndexType) else [t.width.data, t.signedness.data.value]


def int_impl(c):
    from xdsl.dialects.builtin import IntegerAttr
    from xdsl.utils.exceptions import VerifyException
    try:
        a = IntegerAttr(c["v"], ity(c["w"], c["s"]))
    except VerifyException as e:
        return err(e)
    text = str(a)
    try:
        b = parse_attr(text)
        rt = [0, [enc_ity(b.type), b.value.data]] if isinstance(b, IntegerAttr) else [-1, 99]
        if rt[0] == 0 and b != a:
            rt = [-1, 98]
    except BaseException as e:  # noqa: BLE001
        rt = err(e)
    return [0, a.value.data, cps(text), rt]


def int_holds(c, r):
    if r[0] != 0:
        return True, ""          # the constructor rejects the value: not a builtin attribute value
    exp = [0, [[-1, 0] if c["w"] < 0 else [c["w"], c["s"]], r[1]]]
    if r[3] != exp:
        return False, f"IntegerAttr({c['v']}) stored {r[1]} prints {uncps(r[2])!r} which parses back as {r[3]}"
    return True, ""


def int_nontrivial(c, r):
    if r[0] == 0 and (r[1] != c["v"] or r[1] < 0 or c["w"] in (0, 1) or c["w"] > 64):
        return (c["w"], c["s"], c["v"])
    return None


def int_cases(rng, n):
    widths = [0, 1, 2, 3, 7, 8, 9, 15, 16, 17, 31, 32, 33, 63, 64, 65, 100, 127, 128]
    out = []
    for w in widths + [-1]:
        for s in ([0, 1, 2] if w >= 0 else [0]):
            if w < 0:
                vals = [0, 1, -1, 2**63 - 1, -2**63, 2**64, -2**70, 10**30]
            else:
                lo = -((1 << w) >> 1)
                sub = 1 << max(w - 1, 0)
                vals = [0, 1, -1, lo, lo - 1, lo + 1, sub - 1, sub, sub + 1, (1 << w) - 1, 1 << w, (1 << w) + 1]
            for v in vals:
                out.append({"w": w, "s": s, "v": v})
    for _ in range(n):
        w = rng.choice([rng.randint(0, 128), rng.choice(widths)])
        s = rng.randrange(3)
        k = rng.randint(0, max(w, 1))
        v = rng.choice([rng.randint(-(1 << w), 1 << w), (1 << k) + rng.choice([-1, 0, 1]),
                        -(1 << k) + rng.choice([-1, 0, 1]), rng.randint(-300, 300)])
        out.append({"w": w, "s": s, "v": v})
    return out


# ---------------------------------------------------------------------------- strings / bytes / literals
def strattr_enc(a):
    from xdsl.dialects.builtin import BytesAttr, StringAttr
    if isinstance(a, StringAttr):
        return [0, [0, cps(a.data)]]
    if isinstance(a, BytesAttr):
        return [0, [1, list(a.data)]]
    return [-1, 99]


def rt_strlike(text):
    try:
        return strattr_enc(parse_attr(text))
    except BaseException as e:  # noqa: BLE001
        return err(e)


def bytes_impl(c):
    from xdsl.dialects.builtin import BytesAttr
    from xdsl.utils.lexer import Input
    from xdsl.utils.mlir_lexer import StringLiteral
    text = str(BytesAttr(bytes(c["bs"])))
    try:
        un = [0, list(StringLiteral(0, len(text), Input(text, "<c06>")).bytes_contents)]
    except BaseException as e:  # noqa: BLE001
        un = err(e)
    return [cps(text), rt_strlike(text), un]


def bytes_holds(c, r):
    if r[2] != [0, c["bs"]]:
        return False, f"bytes_contents(print_bytes_literal({c['bs']})) = {r[2]}"
    if r[1] != [0, [1, c["bs"]]]:
        return False, f"BytesAttr({bytes(c['bs'])!r}) prints {uncps(r[0])!r} which parses back as {r[1]}"
    return True, ""


def stringy_bytes(bs):
    """does the lexer classify the printed literal of these bytes as a STRING_LIT?"""
    if not LEXER_FIXED:
        return all(b < 128 for b in bs)
    try:
        bytes(bs).decode()
        return True
    except UnicodeDecodeError:
        return False


def bytes_known(c, r):
    # strings and bytes share one syntax: a payload that is ASCII (valid UTF-8 with the lexer repair) is a STRING_LIT
    return KF_BYTES if stringy_bytes(c["bs"]) and r[2] == [0, c["bs"]] else None


def bytes_nontrivial(c, r):
    return tuple(c["bs"]) if any(b < 32 or b > 126 or b in (34, 92) for b in c["bs"]) else None


def string_impl(c):
    from xdsl.dialects.builtin import StringAttr
    a = StringAttr(uncps(c["s"]))
    try:
        text = str(a)
    except UnicodeEncodeError as e:
        return [err(e), err(e)]
    return [[0, cps(text)], rt_strlike(text)]


def string_holds(c, r):
    if has_surrogate(c["s"]):
        return True, ""          # not encodable: outside the quantifier (surrogate-free strings)
    if r[1] != [0, [0, c["s"]]]:
        return False, f"StringAttr({uncps(c['s'])!r}) prints {uncps(r[0][1])!r} which parses back as {r[1]}"
    return True, ""


def string_known(c, r):
    # any code point >= 128: its UTF-8 bytes are printed as \XX escapes and the literal is classified BYTES_LIT
    return KF_STRING if not LEXER_FIXED and any(ch >= 128 for ch in c["s"]) and not has_surrogate(c["s"]) else None


def string_nontrivial(c, r):
    return tuple(c["s"]) if any(ch >= 127 or ch < 32 or ch in (34, 92) for ch in c["s"]) else None


PLANES = [0x7F, 0x80, 0xA9, 0xE9, 0x7FF, 0x800, 0x20AC, 0xD7FF, 0xE000, 0xFFFD, 0xFFFF, 0x10000, 0x1F600, 0x10FFFF]


def rand_cp(rng):
    r = rng.random()
    if r < 0.45:
        return rng.randint(32, 126)
    if r < 0.6:
        return rng.choice([0, 9, 10, 11, 12, 13, 27, 31, 34, 92, 127])
    if r < 0.8:
        return rng.choice(PLANES)
    c = rng.randint(0, 0x10FFFF)
    return c if not 0xD800 <= c < 0xE000 else 0xE9


def string_cases(rng, n):
    out = [{"s": []}, {"s": cps('a"é')}, {"s": cps("é")}, {"s": cps('a"b\\c\n\t')}, {"s": [0xD800]},
           {"s": cps("plain")}, {"s": [0x1F600, 34]}]
    out += [{"s": [c]} for c in PLANES + [0, 10, 34, 92, 0xDFFF]]
    for _ in range(n):
        out.append({"s": [rand_cp(rng) for _ in range(rng.randint(0, 8))]})
    return out


def bytes_cases(rng, n):
    out = [{"bs": []}, {"bs": list(range(0, 128))}, {"bs": list(range(128, 256))}, {"bs": [92]}, {"bs": [34, 92, 34]}]
    out += [{"bs": [b]} for b in range(256)]
    for _ in range(n):
        out.append({"bs": [rng.choice([rng.randrange(256), rng.randint(32, 126), 92, 34, 0, 255])
                           for _ in range(rng.randint(0, 10))]})
    return out


TOK_CODE = None


def enc_tok(t):
    from xdsl.utils.mlir_lexer import MLIRTokenKind as K
    k, s = t.kind, t.text
    if k == K.EOF:
        return None
    simple = {K.MINUS: 1, K.COLON: 2, K.EQUAL: 3, K.COMMA: 4}
    if k in simple:
        return [simple[k]]
    if k == K.INTEGER_LIT:
        return [5, cps(s)]
    if k == K.FLOAT_LIT:
        return [6, cps(s)]
    if k == K.BARE_IDENT:
        return [7, cps(s)]
    if k == K.STRING_LIT:
        return [8, cps(s[1:-1])]
    if k == K.BYTES_LIT:
        return [9, cps(s[1:-1])]
    if k == K.AT_IDENT:
        return [10, cps(s[1:])]
    if k == K.ARROW:
        return [11, 8594]
    return [11, ord(s[0])]


def lit_impl(c):
    from xdsl.utils.lexer import Input
    from xdsl.utils.mlir_lexer import MLIRLexer
    from xdsl.utils.mlir_lexer import MLIRTokenKind as K
    from xdsl.utils.mlir_lexer import StringLiteral
    text = uncps(c["t"])
    lx = MLIRLexer(Input(text, "<c06>"))
    try:
        t = lx.lex()
    except BaseException as e:  # noqa: BLE001
        return err(e)
    et = enc_tok(t)
    if et is None:
        return [-2]
    val = []
    if t.kind == K.STRING_LIT:
        try:
            val = [0, [0, cps(t.kind.get_string_literal_value(t.span))]]
        except UnicodeDecodeError:
            val = [-2]
        except BaseException as e:  # noqa: BLE001
            val = err(e)
    elif t.kind == K.BYTES_LIT:
        try:
            val = [0, [1, list(StringLiteral.from_span(t.span).bytes_contents)]]
        except BaseException as e:  # noqa: BLE001
            val = err(e)
    return [0, et, len(text) - lx.pos, val]


def lit_cases(rng, n):
    pieces = ['a', 'z', ' ', '0', 'F', 'g', '\\"', '\\\\', '\\n', '\\t', '\\00', '\\C3', '\\A9', '\\e9', '\\FF', '\\7f',
              '\\q', '\\g1', '\\1', '\\', 'é', '\U0001F600', '\n', '\x0b', '\x0c', '\t', '\\x41', '\\0', '\ud800']
    out = [{"t": cps(t)} for t in ['""', '"', '"abc', '"a\\', '"a\\"', '"\\C3\\A9"', '"\\C3"', '"é"', '"é\\n"',
                                    '"\\n"', '"a\nb"', '"\\F0\\9F\\98\\80"', '"\\ED\\A0\\80"', '"\\C0\\80"', '"\\ud800"',
                                    '"\ud800"', '"\ud800\\n"', '"ok" rest', '"\\"']]
    for _ in range(n):
        body = "".join(rng.choice(pieces) for _ in range(rng.randint(0, 7)))
        out.append({"t": cps('"' + body + rng.choice(['"', '"', '"', '" x', '']))})
    return out


def lex_impl(c):
    from xdsl.utils.lexer import Input
    from xdsl.utils.mlir_lexer import MLIRLexer
    lx = MLIRLexer(Input(uncps(c["t"]), "<c06>"))
    toks = []
    try:
        while True:
            e = enc_tok(lx.lex())
            if e is None:
                return [0, toks]
            toks.append(e)
    except BaseException as e:  # noqa: BLE001
        return err(e)


def lex_cases(rng, n):
    out = [{"t": cps(t)} for t in ["0x", "0xg", "0x1F", "0X1F", "00x1", "1.e5", "1.5e+", "1.5e+3", "1e5", "-0x1F", "1.2.3",
                                   "1.", "1.E-07", "1.5e", "1.5e-", "0x1Fg", "12ab", "1..", "1...", "-1.0e+00", "- 5",
                                   "true", "a.b$c", "_x1", "@a::@b", "@\"a b\"::@c", "@1", "@", "1:2", "a = 1 : i32, b",
                                   "0xi32", "1.5 : f32", "0x7FC00000 : f32", "1e+10", "5.", "..."]]
    alpha = "0123456789" * 2 + "xXeEabfgiu_. -+:,=@$>(]"
    for _ in range(n):
        out.append({"t": cps("".join(rng.choice(alpha) for _ in range(rng.randint(1, 10))))})
    return out


# ---------------------------------------------------------------------------- symbol refs / dictionary keys
def symref_impl(c):
    from xdsl.dialects.builtin import SymbolRefAttr
    a = SymbolRefAttr(uncps(c["root"]), [uncps(n) for n in c["nested"]])
    try:
        text = str(a)
    except UnicodeEncodeError as e:
        return [err(e), err(e)]
    try:
        b = parse_attr(text)
        if not isinstance(b, SymbolRefAttr):
            return [[0, cps(text)], [-1, 99]]
        return [[0, cps(text)], [0, [cps(b.root_reference.data)] + [cps(n.data) for n in b.nested_references.data]]]
    except BaseException as e:  # noqa: BLE001
        return [[0, cps(text)], err(e)]


def symref_holds(c, r):
    if has_surrogate(c["root"]) or any(has_surrogate(n) for n in c["nested"]):
        return True, ""
    if r[1] != [0, [c["root"]] + c["nested"]]:
        return False, f"SymbolRefAttr prints {uncps(r[0][1])!r} which parses back as {r[1]}"
    return True, ""


IDENT_RE = re.compile(r"[a-zA-Z_][a-zA-Z0-9_$.]*")


def symref_nontrivial(c, r):
    names = [c["root"]] + c["nested"]
    return tuple(map(tuple, names)) if any(not IDENT_RE.fullmatch(uncps(n)) for n in names) or len(names) > 1 else None


def rand_name(rng):
    r = rng.random()
    if r < 0.4:
        first = rng.choice("abzAZ_")
        return cps(first + "".join(rng.choice("abz09_$.AZ") for _ in range(rng.randint(0, 5))))
    if r < 0.55:
        return cps(rng.choice(["", "1a", "a b", "a-b", "$a", ".a", "a:b", "a::b", "true", "loc", "a\"b", "a\\b", "@a", "a\n"]))
    return [rand_cp(rng) for _ in range(rng.randint(0, 5))]


def symref_cases(rng, n):
    out = [{"root": cps("a"), "nested": []}, {"root": cps("é"), "nested": [cps("a b"), cps("c")]},
           {"root": [], "nested": [[]]}, {"root": cps("a.b$"), "nested": [cps("_"), cps("9")]},
           {"root": [0xD800], "nested": []}]
    for _ in range(n):
        out.append({"root": rand_name(rng), "nested": [rand_name(rng) for _ in range(rng.choice([0, 0, 1, 2, 3]))]})
    return out


KEY_REST = " = 1 : i32}"


def dictkey_impl(c):
    from xdsl.dialects.builtin import DictionaryAttr, IntegerAttr, i32
    a = DictionaryAttr({uncps(c["k"]): IntegerAttr(1, i32)})
    try:
        text = str(a)
    except UnicodeEncodeError as e:
        return [err(e), err(e)]
    key_text = text[1:-len(KEY_REST)]
    try:
        b = parse_attr(text)
        if not isinstance(b, DictionaryAttr) or len(b.data) != 1:
            return [[0, cps(key_text)], [-1, 99]]
        return [[0, cps(key_text)], [0, cps(next(iter(b.data)))]]
    except BaseException as e:  # noqa: BLE001
        return [[0, cps(key_text)], err(e)]


def dictkey_holds(c, r):
    if has_surrogate(c["k"]):
        return True, ""
    if r[1] != [0, c["k"]]:
        return False, f"dictionary key {uncps(c['k'])!r} prints {uncps(r[0][1])!r} which parses back as {r[1]}"
    return True, ""


def dictkey_known(c, r):
    return KF_DICTKEY if not LEXER_FIXED and any(ch >= 128 for ch in c["k"]) and not has_surrogate(c["k"]) else None


def dictkey_nontrivial(c, r):
    return tuple(c["k"]) if not IDENT_RE.fullmatch(uncps(c["k"])) else None


# ---------------------------------------------------------------------------- floats
FTYPES = {  # name -> (kind for print_float's isinstance chain, attribute name in builtin.py)
    "f16": (16, "Float16Type"), "bf16": (16, "BFloat16Type"), "f32": (32, "Float32Type"), "f64": (64, "Float64Type"),
    "tf32": (8, "FloatTF32Type"), "f8E5M2": (8, "Float8E5M2Type"), "f8E4M3": (8, "Float8E4M3Type"),
    "f8E4M3FN": (8, "Float8E4M3FNType"), "f8E5M2FNUZ": (8, "Float8E5M2FNUZType"),
    "f8E4M3FNUZ": (8, "Float8E4M3FNUZType"), "f8E4M3B11FNUZ": (8, "Float8E4M3B11FNUZType"),
    "f8E3M4": (8, "Float8E3M4Type"), "f8E8M0FNU": (8, "Float8E8M0FNUType"), "f6E2M3FN": (8, "Float6E2M3FNType"),
    "f6E3M2FN": (8, "Float6E3M2FNType"), "f4E2M1FN": (8, "Float4E2M1FNType"),
}
MAIN_FT = ["f16", "bf16", "f32", "f64"]


def fty(name):
    from xdsl.dialects import builtin
    return getattr(builtin, FTYPES[name][1])()


def fsize(name):
    return fty(name).compile_time_size


def fbits(name):
    return fty(name).bitwidth


def pack(name, x):
    """binary64 bits -> the type's bits (None when CPython raises OverflowError)"""
    try:
        return int.from_bytes(fty(name).pack((f64(x),)), "little")
    except (OverflowError, ValueError):      # f32 overflow; unsigned f8E8M0FNU given a negative value
        return None


def unpack(name, b):
    return b64(fty(name).unpack(b.to_bytes(fsize(name), "little"), 1)[0])


def ins0(s):
    i = s.find("e")
    return s[:i] + "0" + s[i:]


FLOAT_LIT_RE = re.compile(r"-?[0-9]+\.[0-9]*([eE][+-]?[0-9]+)?")


def hex_branch(name, x):
    """does print_float print this value as a hexadecimal integer?  (computed from CPython only)"""
    v = f64(x)
    if math.isnan(v) or math.isinf(v):
        return True
    if name not in ("f32", "f64"):
        return False
    fmt = "<f" if name == "f32" else "<d"
    try:
        short_ok = struct.unpack(fmt, struct.pack(fmt, float(ins0(f"{v:.5e}"))))[0] == v
    except OverflowError:
        short_ok = False
    if short_ok:
        return False
    return "." not in (f"{v:.9g}" if name == "f32" else f"{v:.17g}")


class Tables:
    """CPython oracle tables for the values reachable from `xs` (closed under the model's calls)."""

    def __init__(self, name, xs, with_ofint=False):
        self.name = name
        self.pk, self.up, self.f5, self.f9, self.f17, self.fr, self.sc, self.oi = {}, {}, {}, {}, {}, {}, {}, {}
        todo = set(xs)
        for x in xs:
            v = f64(x)
            self.f5[x] = f"{v:.5e}"
            forms = [ins0(self.f5[x])]
            if name == "f32":
                self.f9[x] = f"{v:.9g}"
                forms.append(self.f9[x])
            elif name == "f64":
                self.f17[x] = f"{v:.17g}"
                forms.append(self.f17[x])
            else:
                self.fr[x] = repr(v)
                forms.append(self.fr[x])
            for s in forms:
                for t in {s, s.lstrip("-")}:
                    try:
                        self.sc[t] = b64(float(t))
                    except ValueError:
                        continue
                    todo.add(self.sc[t])
                    todo.add(self.sc[t] ^ (1 << 63))
        # pack S, unpack the results, and once more (float_attr = unpack . pack, applied to unpacked values)
        for rnd in range(3):
            new = set()
            for x in todo:
                if x in self.pk:
                    continue
                p = pack(name, x)
                self.pk[x] = -1 if p is None else p
                if p is None:
                    continue
                if p not in self.up:
                    self.up[p] = unpack(name, p)
                    new.add(self.up[p])
                if with_ofint and rnd == 0 and x in xs and hex_branch(name, x) and p not in self.oi:
                    # to_float re-reads a hexadecimal element as float(int)
                    try:
                        self.oi[p] = b64(float(p))
                        new.add(self.oi[p])
                    except OverflowError:
                        self.oi[p] = -1
            todo = new

    def coq(self):
        ct = lambda s: coq_text(cps(s))  # noqa: E731
        return ("{| o_pack := %s; o_unpack := %s; o_5e := %s; o_9g := %s; o_17g := %s; o_repr := %s; o_scan := %s; "
                "o_ofint := %s |}") % (coq_pairs(self.pk), coq_pairs(self.up), coq_pairs(self.f5, ct),
                                       coq_pairs(self.f9, ct), coq_pairs(self.f17, ct), coq_pairs(self.fr, ct),
                                       coq_pairs(self.sc, zc, ct), coq_pairs(self.oi))


def coq_fty(name):
    k = FTYPES[name][0]
    return f"(mk_fty {k if k in (32, 64) else 1} 0 {fsize(name)} {coq_text(cps(name))})"


def float_value(name, payload):
    """canonical FloatAttr value (binary64 bits) of a payload of the type"""
    from xdsl.dialects.builtin import FloatAttr
    return b64(FloatAttr(f64(unpack(name, payload)), fty(name)).value.data)


def float_impl(c):
    from xdsl.dialects.builtin import FloatAttr
    name, x = c["ty"], c["x"]
    a = FloatAttr(f64(x), fty(name))
    xa = b64(a.value.data)
    text = str(a)
    ftext = text[:-len(" : " + name)]
    v = f64(x)
    if math.isnan(v) or math.isinf(v):
        br = 0
    elif ftext.startswith("0x"):
        br = 3
    elif ftext == ins0(f"{v:.5e}"):
        br = 1
    else:
        br = 2
    try:
        b = parse_attr(text)
        rt = [0, b64(b.value.data)] if isinstance(b, FloatAttr) and b.type == a.type else [-1, 99]
        if rt[0] == 0 and (b != a) != (rt[1] != xa):
            rt = [-1, 98]        # attribute equality must coincide with bit equality of the payload
    except BaseException as e:  # noqa: BLE001
        rt = err(e)
    return [cps(ftext), br, rt, 1]


def float_holds(c, r):
    if r[2] != [0, c["x"]]:
        return False, f"FloatAttr bits {c['x']:#x} : {c['ty']} prints {uncps(r[0])!r} which parses back as {r[2]}"
    return True, ""


def float_nontrivial(c, r):
    return (c["ty"], c["x"]) if r[1] != 1 or c["x"] >> 63 else None


def float_coq(c):
    t = Tables(c["ty"], [c["x"]])
    return f"float_case {t.coq()} {coq_fty(c['ty'])} {zc(c['x'])}"


def payload_pool(rng, name, n):
    """bit patterns of the type: all classes + boundaries + random"""
    w = fbits(name)
    top = 1 << (w - 1)
    pool = {0, top, 1, top | 1, top - 1, (1 << w) - 1, top >> 1, (top >> 1) - 1, (top >> 1) + 1}
    if name in MAIN_FT:
        mant = {"f16": 10, "bf16": 7, "f32": 23, "f64": 52}[name]
        expm = ((1 << (w - 1 - mant)) - 1) << mant
        one = (((1 << (w - 2 - mant)) - 1)) << mant
        pool |= {expm, expm | top, expm | 1, expm | (1 << (mant - 1)), expm | (1 << (mant - 1)) | 1, expm | ((1 << mant) - 1),
                 expm | top | (1 << (mant - 1)), expm | top | 5, expm - 1, (1 << mant) - 1, 1 << mant, (1 << mant) + 1,
                 one, one + 1, one - 1, one | top}
        for k in range(0, w - 1, max(1, (w - 1) // 12)):
            pool |= {1 << k, (1 << k) - 1, (1 << k) + 1}
        for v in (0.1, 1.5, 3.14159, 1e10, 1e-5, 123456789.0, 1234567.0, 1e22, 65504.0, 1e-7, 16777216.0, 2.5e-40, 1e16,
                  12345678.0, 0.30000000000000004, 5e-324, 1.7976931348623157e308, 4.35, 100.0, 1e9, 1e15, 1e17):
            for sgn in (1, -1):
                p = pack(name, b64(sgn * v))
                if p is not None:
                    pool.add(p)
    for _ in range(n):
        pool.add(rng.getrandbits(w))
    return sorted(p for p in pool if 0 <= p < (1 << w))


def float_cases(rng, n_main, n_other):
    out = []
    for name in FTYPES:
        for p in payload_pool(rng, name, n_main if name in MAIN_FT else n_other):
            try:
                out.append({"ty": name, "x": float_value(name, p)})
            except BaseException:  # noqa: BLE001
                continue
    seen, uniq = set(), []
    for c in out:
        if (c["ty"], c["x"]) not in seen:
            seen.add((c["ty"], c["x"]))
            uniq.append(c)
    return uniq


def check_float_hyps(ctx, cases):
    """H1-H4 against CPython, on every sampled value (independent of the Coq model)."""
    stats = {"H1_17g": 0, "H2_9g": 0, "H3_lex": 0, "H4_neg": 0, "repr": 0, "failures": []}
    for c in cases:
        name, x = c["ty"], c["x"]
        v = f64(x)
        if math.isnan(v) or math.isinf(v):
            continue
        forms = {"5e": ins0(f"{v:.5e}"), "9g": f"{v:.9g}", "17g": f"{v:.17g}", "repr": repr(v)}
        if name == "f64":
            stats["H1_17g"] += 1
            if b64(float(forms["17g"])) != x:
                stats["failures"].append(["H1", name, x])
        if name == "f32":
            stats["H2_9g"] += 1
            if b64(struct.unpack("<f", struct.pack("<f", float(forms["9g"])))[0]) != x:
                stats["failures"].append(["H2", name, x])
        if name not in ("f32", "f64"):
            stats["repr"] += 1
            if b64(float(forms["repr"])) != x:
                stats["failures"].append(["repr", name, x])
        for k, s in forms.items():
            stats["H3_lex"] += 1
            lexes = lex_impl({"t": cps(s)})
            body = s.lstrip("-")
            one_float = lexes == [0, ([[1]] if s.startswith("-") else []) + [[6, cps(body)]]]
            if one_float != ("." in s) or (k == "5e" and not one_float) or bool(FLOAT_LIT_RE.fullmatch(s)) != one_float:
                stats["failures"].append(["H3", k, s])
            stats["H4_neg"] += 1
            if b64(float("-" + body)) != b64(-float(body)):
                stats["failures"].append(["H4", s])
    ctx.coverage["oracle_hypotheses_checked"] = {k: (v if k != "failures" else v[:5]) for k, v in stats.items()}
    if stats["failures"]:
        ctx.broken.append({"float_oracle_hypothesis_fails": stats["failures"][:5]})


def exhaustive_repr_check(ctx):
    """f16 / bf16: every one of the 65536 values either passes the %.5e test or its repr is a FLOAT_LIT that reads back"""
    bad = []
    n = 0
    for name in ("f16", "bf16"):
        fmt_pack = fty(name)
        for p in range(1 << 16):
            v = fmt_pack.unpack(p.to_bytes(2, "little"), 1)[0]
            if math.isnan(v) or math.isinf(v):
                continue
            n += 1
            short = ins0(f"{v:.5e}")
            if fmt_pack.unpack(fmt_pack.pack((float(short),)), 1)[0] == v and (v != 0 or b64(float(short)) == b64(v)):
                if not FLOAT_LIT_RE.fullmatch(short):
                    bad.append([name, p, short])
                continue
            s = repr(v)
            if not FLOAT_LIT_RE.fullmatch(s) or b64(float(s)) != b64(v):
                bad.append([name, p, s])
    ctx.coverage["exhaustive_f16_bf16_decimal_forms"] = {"values": n, "failures": bad[:5]}
    if bad:
        ctx.broken.append({"f16_bf16_decimal_form_not_a_float_literal": bad[:5]})


# ---------------------------------------------------------------------------- dense elements / dense arrays
def elem_ty(et):
    return fty(et["f"]) if "f" in et else ity(et["w"], et["s"])


def elem_size(et):
    return fsize(et["f"]) if "f" in et else elem_ty(et).compile_time_size


def payload_bytes(et, payloads):
    sz = elem_size(et)
    signed = "f" not in et and et["s"] != 2
    return b"".join(int(p).to_bytes(sz, "little", signed=signed) for p in payloads)


def payloads_of(et, data: bytes):
    sz = elem_size(et)
    signed = "f" not in et and et["s"] != 2
    return [int.from_bytes(data[i:i + sz], "little", signed=signed) for i in range(0, len(data), sz)]


def coq_ety(et):
    if "f" in et:
        k = FTYPES[et["f"]][0]
        return f"(mk_ety {k if k in (32, 64) else 1} 0 0 {fsize(et['f'])} {coq_text(cps(et['f']))})"
    return f"(mk_ety 0 {zc(et['w'])} {et['s']} 0 [])"


def dense_tables(et, payloads):
    if "f" not in et:
        return Tables("f64", [])
    name = et["f"]
    return Tables(name, sorted({unpack(name, p) for p in payloads}), with_ofint=True)


def split_dense_body(body):
    if body == "":
        return [0, [0]]
    if body.startswith('"0x'):
        return [0, [2, cps(body[3:-1])]]
    if not body.startswith("["):
        return [0, [1, cps(body)]]
    elems = re.findall(r"[^\[\], ]+", body)
    shape, depth = [], 0
    # shape from the bracket structure: number of children of the first node at each depth
    pos = 0

    def node(i):
        """returns (end index, shape)"""
        assert body[i] == "["
        i += 1
        n, sub = 0, None
        while body[i] != "]":
            if body[i] == "[":
                i, sh = node(i)
                sub = sh if sub is None else sub
                n += 1
            elif body[i] in ", ":
                i += 1
            else:
                j = i
                while body[j] not in ",]":
                    j += 1
                i = j
                n += 1
                sub = []
        return i + 1, [n] + (sub or [])
    _, shape = node(0)
    return [0, [3, shape, [cps(e) for e in elems]]]


def dense_impl(c):
    from xdsl.dialects.builtin import BytesAttr, DenseIntOrFPElementsAttr, TensorType
    et = c["et"]
    a = DenseIntOrFPElementsAttr(TensorType(elem_ty(et), c["shape"]), BytesAttr(payload_bytes(et, c["payloads"])))
    text = str(a)
    body = text[len("dense<"):text.rindex("> : ")]
    try:
        b = parse_attr(text)
        rt = [0, payloads_of(et, b.data.data)] if isinstance(b, DenseIntOrFPElementsAttr) and b.type == a.type else [-1, 99]
        if rt[0] == 0 and (b == a) != (rt[1] == c["payloads"]):
            rt = [-1, 98]
    except BaseException as e:  # noqa: BLE001
        rt = err(e)
    return [split_dense_body(body), rt]


def dense_holds(c, r):
    if r[1] != [0, c["payloads"]]:
        return False, f"dense {c['et']} shape {c['shape']} payloads {c['payloads'][:8]} prints {r[0]} which parses back as {r[1]}"
    return True, ""


def all_zero_mixed(et, payloads):
    if "f" not in et or len(set(payloads)) < 2:
        return False
    vals = [f64(unpack(et["f"], p)) for p in payloads]
    return all(v == 0.0 for v in vals)


def dense_known(c, r):
    et = c["et"]
    if "f" not in et:
        return None
    if not DENSE_HEX_FIXED and any(hex_branch(et["f"], unpack(et["f"], p)) for p in c["payloads"]):
        return KF_DENSE_HEX        # an element is printed as a hexadecimal integer and re-read as float(int)
    if not SPLAT_FIXED and all_zero_mixed(et, c["payloads"]):
        return KF_SPLAT            # +0.0 and -0.0 compare equal: printed as a splat of the first element
    return None


def dense_nontrivial(c, r):
    return (str(c["et"]), tuple(c["shape"]), tuple(c["payloads"][:12]), len(c["payloads"])) if r[0][1][0] != 3 or len(c["shape"]) > 1 or "f" in c["et"] else None


def dense_coq(c):
    return (f"dense_case {cb(DENSE_HEX_FIXED)} {cb(SPLAT_FIXED)} {dense_tables(c['et'], c['payloads']).coq()} {coq_ety(c['et'])} "
            f"{zs(c['shape'])} {zs(c['payloads'])}")


def canon_payload(name, p):
    return pack(name, float_value(name, p))


def rand_elem_payloads(rng, et, n, pool=None):
    if "f" in et:
        pool = pool or payload_pool(rng, et["f"], 6)
        return [canon_payload(et["f"], rng.choice(pool)) for _ in range(n)]
    w, s = et["w"], et["s"]
    if w < 0:
        return [rng.choice([0, 1, -1, 2**63 - 1, -2**63, rng.randint(-2**63, 2**63 - 1), rng.randint(-9, 9)]) for _ in range(n)]
    if s == 2:
        lo, hi = 0, (1 << w) - 1
    else:
        lo, hi = -((1 << w) >> 1), (1 << max(w - 1, 0)) - 1
    return [rng.choice([lo, hi, 0, rng.randint(lo, hi), max(lo, min(hi, rng.randint(-3, 3)))]) for _ in range(n)]


def rand_shape(rng, maxn=12):
    r = rng.random()
    if r < 0.1:
        return rng.choice([[0], [2, 0], [0, 3]])
    if r < 0.25:
        return []
    dims = [rng.randint(1, 4) for _ in range(rng.choice([1, 1, 2, 2, 3]))]
    while math.prod(dims) > maxn:
        dims[dims.index(max(dims))] -= 1
    return dims


ELEM_TYPES = ([{"w": w, "s": s} for w in (1, 3, 8, 16, 17, 32, 33, 64) for s in (0, 1, 2)] + [{"w": -1, "s": 0}]
              + [{"f": n} for n in MAIN_FT] * 5)
# reduced-precision element types only in the oracle-only family: their unpack returns the shared `math.nan`
# object, and is_splat's tuple.count has an object-identity shortcut that the model does not describe
EXTRA_ELEM_TYPES = [{"f": "f8E5M2"}, {"f": "tf32"}, {"f": "f8E4M3FN"}]


def dense_cases(rng, n, types=None):
    types = types or ELEM_TYPES
    z32, nz32 = 0, 1 << 31
    nan32 = 0x7FC00000
    out = [
        {"et": {"f": "f32"}, "shape": [2], "payloads": [nan32, 0x3F800000]},
        {"et": {"f": "f32"}, "shape": [2], "payloads": [z32, nz32]},
        {"et": {"f": "f32"}, "shape": [2], "payloads": [nan32, nan32]},
        {"et": {"f": "f32"}, "shape": [3], "payloads": [0x3F800000] * 3},
        {"et": {"f": "f64"}, "shape": [2], "payloads": [pack("f64", b64(1234567.0)), pack("f64", b64(1.0))]},
        {"et": {"f": "f32"}, "shape": [], "payloads": [nan32]},
        {"et": {"f": "f64"}, "shape": [2, 2], "payloads": [pack("f64", b64(v)) for v in (0.1, -0.0, 1e22, 5e-324)]},
        {"et": {"w": 1, "s": 0}, "shape": [3], "payloads": [0, -1, 0]},
        {"et": {"w": 8, "s": 0}, "shape": [101], "payloads": [(i * 7) % 256 - 128 for i in range(101)]},
        {"et": {"f": "f32"}, "shape": [3, 40], "payloads": [pack("f32", b64(float(i % 3) - 0.5)) for i in range(120)]},
        {"et": {"w": 32, "s": 0}, "shape": [0], "payloads": []},
    ]
    for _ in range(n):
        et = rng.choice(types)
        shape = rand_shape(rng)
        k = math.prod(shape)
        r = rng.random()
        pool = payload_pool(rng, et["f"], 4) if "f" in et else None
        if r < 0.2 and k:
            payloads = rand_elem_payloads(rng, et, 1, pool) * k
        elif r < 0.3 and k > 1 and "f" in et:
            w = fbits(et["f"])
            payloads = [rng.choice([0, 1 << (w - 1)]) for _ in range(k)]
        else:
            payloads = rand_elem_payloads(rng, et, k, pool)
        out.append({"et": et, "shape": shape, "payloads": payloads})
    return out


def densearray_impl(c):
    from xdsl.dialects.builtin import BytesAttr, DenseArrayBase
    et = c["et"]
    a = DenseArrayBase(elem_ty(et), BytesAttr(payload_bytes(et, c["payloads"])))
    text = str(a)
    inner = text[len("array<"):-1]
    elems = [] if ": " not in inner else inner.split(": ", 1)[1].split(", ")
    try:
        b = parse_attr(text)
        rt = [0, payloads_of(et, b.data.data)] if isinstance(b, DenseArrayBase) and b.elt_type == a.elt_type else [-1, 99]
        if rt[0] == 0 and (b == a) != (rt[1] == c["payloads"]):
            rt = [-1, 98]
    except BaseException as e:  # noqa: BLE001
        rt = err(e)
    return [[cps(e) for e in elems], rt]


def densearray_holds(c, r):
    if r[1] != [0, c["payloads"]]:
        return False, f"dense array {c['et']} payloads {c['payloads'][:8]} prints {[uncps(e) for e in r[0]]} which parses back as {r[1]}"
    return True, ""


def densearray_known(c, r):
    et = c["et"]
    if not ARRAY_HEX_FIXED and "f" in et and any(hex_branch(et["f"], unpack(et["f"], p)) for p in c["payloads"]):
        return KF_ARRAY_HEX
    return None


def densearray_coq(c):
    return f"densearray_case {cb(ARRAY_HEX_FIXED)} {dense_tables(c['et'], c['payloads']).coq()} {coq_ety(c['et'])} {zs(c['payloads'])}"


def densearray_cases(rng, n):
    out = [
        {"et": {"f": "f32"}, "payloads": [0x7FC00000, 0x3F800000]},
        {"et": {"f": "f64"}, "payloads": [pack("f64", b64(v)) for v in (1e22, -0.0, 0.1)]},
        {"et": {"f": "f64"}, "payloads": [pack("f64", b64(1234567.0))]},
        {"et": {"w": 1, "s": 0}, "payloads": [0, -1]},
        {"et": {"w": 64, "s": 2}, "payloads": [0, 2**64 - 1]},
        {"et": {"w": 32, "s": 0}, "payloads": []},
    ]
    # DenseArrayBase.verify uses ceil(w/8) as element size but packs with the struct format size: widths where the
    # two differ (17, 33, ...) are only constructible by accident, so they are left out
    types = [e for e in ELEM_TYPES if e.get("w", 8) in (1, 3, 8, 16, 32, 64)]
    for _ in range(n):
        et = rng.choice(types)
        out.append({"et": et, "payloads": rand_elem_payloads(rng, et, rng.randint(0, 6))})
    return out


# ---------------------------------------------------------------------------- full attributes (oracle only)
def build(t):
    """JSON tree -> xDSL attribute"""
    from xdsl.dialects import builtin as b
    from xdsl.ir.affine import AffineMap
    k = t[0]
    if k == "int":
        return b.IntegerAttr(t[3], ity(t[1], t[2]))
    if k == "float":
        return b.FloatAttr(f64(t[2]), fty(t[1]))
    if k == "str":
        return b.StringAttr(uncps(t[1]))
    if k == "bytes":
        return b.BytesAttr(bytes(t[1]))
    if k == "unit":
        return b.UnitAttr()
    if k == "array":
        return b.ArrayAttr([build(x) for x in t[1]])
    if k == "dict":
        return b.DictionaryAttr({uncps(kk): build(v) for kk, v in t[1]})
    if k == "symref":
        return b.SymbolRefAttr(uncps(t[1]), [uncps(n) for n in t[2]])
    if k == "dense":
        ctor = {"tensor": b.TensorType, "vector": b.VectorType, "memref": b.MemRefType}[t[1]]
        return b.DenseIntOrFPElementsAttr(ctor(elem_ty(t[2]), t[3]), b.BytesAttr(payload_bytes(t[2], t[4])))
    if k == "densearray":
        return b.DenseArrayBase(elem_ty(t[1]), b.BytesAttr(payload_bytes(t[1], t[2])))
    if k == "loc":
        if t[1] == "unknown":
            return b.UnknownLoc()
        if t[1] == "file":
            return b.FileLineColLoc(b.StringAttr(uncps(t[2])), b.IntAttr(t[3]), b.IntAttr(t[4]))
        if t[1] == "name":
            return b.NameLoc(b.StringAttr(uncps(t[2])), build(t[3]) if t[3] else b.NoneAttr())
        if t[1] == "callsite":
            return b.CallSiteLoc(build(t[2]), build(t[3]))
        meta = build(t[3]) if len(t) > 3 and t[3] else b.NoneAttr()
        return b.FusedLoc(tuple(build(x) for x in t[2]), meta)
    if k == "strided":
        return b.StridedLayoutAttr(t[1], t[2])
    if k == "noneattr":
        return b.NoneAttr()
    if k == "opaque":
        return b.OpaqueAttr.from_strings(uncps(t[1]), uncps(t[2]), build(t[3]) if t[3] else b.NoneAttr())
    if k == "affset":
        from xdsl.parser import Parser
        return b.AffineSetAttr(Parser(xctx(), t[1]).parse_affine_set())
    if k == "dense_complex":
        et = t[1]
        vals = [tuple((f64(unpack(et["f"], x)) if "f" in et else x) for x in pr) for pr in t[3]]
        return b.DenseIntOrFPElementsAttr.from_list(b.TensorType(b.ComplexType(elem_ty(et)), t[2]), vals)
    if k == "dense_resource":
        return b.DenseResourceAttr.from_params(uncps(t[1]), build(t[2]))
    if k == "intattr":
        return b.IntAttr(t[1])
    if k == "floatdata":
        return b.FloatData(f64(t[1]))
    if k == "signedness":
        return b.SignednessAttr(b.Signedness(t[1]))
    if k == "affmap":
        from xdsl.parser import Parser
        return b.AffineMapAttr(Parser(xctx(), t[1]).parse_affine_map())
    if k == "ety":
        return elem_ty(t[1])
    if k == "shaped":
        el = build(t[2])
        shape = [b.DYNAMIC_INDEX if d < 0 else d for d in t[3]]
        ex = [build(x) if x else b.NoneAttr() for x in t[4:]]     # optional parameters; absent = NoneAttr
        if t[1] == "tensor":
            return b.TensorType(el, shape, *ex[:1])                 # encoding
        if t[1] == "vector":
            if len(t) > 4 and t[4] is not None:                     # scalable-dimension flags
                return b.VectorType(el, shape, b.ArrayAttr([b.BoolAttr(bool(f), b.i1) for f in t[4]]))
            return b.VectorType(el, shape)
        if t[1] == "memref":
            return b.MemRefType(el, shape, *ex[:2])                 # layout, memory space
        if t[1] == "umemref":
            return b.UnrankedMemRefType.from_type(el, *ex[:1])      # memory space
        return b.UnrankedTensorType(el)
    if k == "func":
        return b.FunctionType.from_lists([build(x) for x in t[1]], [build(x) for x in t[2]])
    if k == "tuple":
        return b.TupleType(tuple(build(x) for x in t[1]))
    if k == "none":
        return b.NoneType()
    if k == "complex":
        return b.ComplexType(elem_ty(t[1]))
    raise ValueError(k)


def payload_sig(a):
    """every numeric payload of an attribute, bit for bit (FloatData as binary64 bits)"""
    from xdsl.dialects import builtin as b
    from xdsl.ir import Data, ParametrizedAttribute
    if isinstance(a, b.FloatData):
        return ("f", b64(a.data))
    if isinstance(a, b.AffineMapAttr | b.AffineSetAttr):
        return ("aff", str(a))
    if isinstance(a, Data):
        d = a.data
        if isinstance(d, tuple):
            return (type(a).__name__, tuple(payload_sig(x) for x in d))
        if isinstance(d, dict) or hasattr(d, "items"):
            return (type(a).__name__, tuple(sorted((k, payload_sig(v)) for k, v in d.items())))
        return (type(a).__name__, d if not isinstance(d, float) else b64(d))
    if isinstance(a, ParametrizedAttribute):
        return (type(a).__name__, tuple(payload_sig(p) for p in a.parameters))
    return (type(a).__name__, str(a))


def attr_impl(c):
    try:
        a = build(c["t"])
    except BaseException as e:  # noqa: BLE001
        return [-3, exc_code(e)]       # not constructible: not a value
    try:
        text = str(a)
    except UnicodeEncodeError as e:
        return [-3, exc_code(e)]
    try:
        b = parse_attr(text)
    except BaseException as e:  # noqa: BLE001
        return [-1, exc_code(e), cps(text)[:200]]
    eq = b == a
    bits = payload_sig(b) == payload_sig(a)
    return [0, 1 if eq else 0, 1 if bits else 0, cps(text)[:200] if not (eq and bits) else []]


def attr_holds(c, r):
    if r[0] == -3:
        return True, ""
    if r[0] == -1:
        return False, f"{uncps(r[2])!r} does not parse back (exception code {r[1]})"
    if not r[1] or not r[2]:
        return False, f"{uncps(r[3])!r} parses back to a different value (equal={r[1]}, payload bits equal={r[2]})"
    return True, ""


def node_classes(t):
    """recorded defect classes of THIS node (not of its descendants)"""
    k, out = t[0], []
    if k == "str" and not LEXER_FIXED and any(ch >= 128 for ch in t[1]):
        out.append(KF_STRING)
    if k == "bytes" and stringy_bytes(t[1]):
        out.append(KF_BYTES)            # strings and bytes share one syntax
    if k == "dense":
        out.append(dense_known({"et": t[2], "shape": t[3], "payloads": t[4]}, None))
    if k == "densearray":
        out.append(densearray_known({"et": t[1], "payloads": t[2]}, None))
    if k == "dict" and not LEXER_FIXED and any(ch >= 128 for kk, _ in t[1] for ch in kk):
        out.append(KF_DICTKEY)
    if k == "noneattr":
        out.append(KF_NONEATTR)         # NoneAttr and NoneType are both spelled `none`
    if k == "loc" and t[1] == "fused" and len(t) > 3 and t[3]:
        out.append(KF_FUSED_META)       # `fused<metadata>[...]` is printed but not parsed
    if k == "dense_complex" and "f" in t[1] and any(hex_branch(t[1]["f"], unpack(t[1]["f"], x)) for pr in t[3] for x in pr):
        out.append(KF_COMPLEX_HEX)      # a complex component printed as a hexadecimal integer
    if k == "dense_resource" and not IDENT_RE.fullmatch(uncps(t[1])):
        out.append(KF_RESOURCE)         # resource handle printed verbatim, parsed as a bare identifier
    if k == "floatdata" and not FLOAT_LIT_RE.fullmatch(repr(f64(t[1]))):
        out.append(KF_FLOATDATA)        # #builtin.float_data<repr> : nan / inf / 1e+300 are not number literals
    if k == "loc" and t[1] in ("file", "name") and not LEXER_FIXED and any(ch >= 128 for ch in t[2]):
        out.append(KF_STRING)           # location file names / names are parsed with parse_optional_str_literal
    return [x for x in out if x]


def subtrees(t):
    """the attribute sub-trees of a case tree, the tree itself first"""
    out = []
    if isinstance(t, list) and t and isinstance(t[0], str):
        out.append(t)
        for x in t[1:]:
            if isinstance(x, list):
                for y in ([x] if x and isinstance(x[0], str) else x):
                    if isinstance(y, list) and y and isinstance(y[0], str):
                        out += subtrees(y)
                    elif isinstance(y, list) and len(y) == 2 and isinstance(y[1], list) and y[1] and isinstance(y[1][0], str):
                        out += subtrees(y[1])
    return out


def _fails(t):
    c = {"t": t}
    return not attr_holds(c, attr_impl(c))[0]


def minimal_failing(t):
    """the sub-attributes that fail the round trip on their own while all of their own parts pass"""
    bad = [s for s in subtrees(t) if _fails(s)]
    return [s for s in bad if not any(_fails(x) for x in subtrees(s)[1:])]


def attr_known(c, r=None, active=None):
    """A failing attribute is a known finding only when EVERY minimal failing component of it belongs to a
    recorded (and, when `active` is given, still unfixed) defect class; returns the id of the first one."""
    mins = minimal_failing(c["t"])
    ids = []
    for s in mins:
        ks = [k for k in node_classes(s) if active is None or k in active]
        if not ks:
            return None
        ids.append(ks[0])
    return ids[0] if ids else None


def rand_text(rng, ascii_only=False):
    if ascii_only or rng.random() < 0.7:
        return cps("".join(rng.choice("abcXYZ019_ .$-\"\\\n") for _ in range(rng.randint(0, 6))))
    return [rand_cp(rng) for _ in range(rng.randint(0, 6))]


def rand_etype(rng):
    return rng.choice(ELEM_TYPES + EXTRA_ELEM_TYPES)


def rand_type(rng, depth):
    r = rng.random()
    if depth <= 0 or r < 0.35:
        return ["ety", rand_etype(rng)]
    if r < 0.6:
        kind = rng.choice(["tensor", "vector", "memref", "memref", "unranked", "umemref"])
        shape = [rng.choice([1, 2, 3, 7, 0, -1 if kind in ("tensor", "memref") else 4]) for _ in range(rng.randint(0, 3))]
        el = ["ety", rand_etype(rng)] if rng.random() < 0.85 else rng.choice([["complex", {"f": "f32"}], ["ety", {"w": -1, "s": 0}]])
        if kind == "tensor":
            return ["shaped", kind, el, shape, rng.choice([None, None, ["str", cps("enc")], ["int", 32, 0, 1], ["unit"]])]
        if kind == "vector":
            shape = [max(d, 1) for d in shape]
            return ["shaped", kind, el, shape, rng.choice([None, [rng.randrange(2) for _ in shape]])]
        if kind == "memref":
            layout = rng.choice([None, None, rand_strided(rng, len(shape)), rand_strided(rng, len(shape)),
                                 ["affmap", IDENT_MAPS[len(shape)]]])
            space = rng.choice([None, None, ["int", 64, 0, rng.randint(0, 5)], ["str", cps("shared")], ["int", -1, 0, 2]])
            return ["shaped", kind, el, shape, layout, space]
        if kind == "umemref":
            return ["shaped", kind, el, [], rng.choice([None, ["int", 64, 0, 3], ["str", cps("g")]])]
        return ["shaped", kind, el, []]
    if r < 0.8:
        return ["func", [rand_type(rng, depth - 1) for _ in range(rng.randint(0, 3))],
                [rand_type(rng, depth - 1) for _ in range(rng.randint(0, 3))]]
    if r < 0.9:
        return ["tuple", [rand_type(rng, depth - 1) for _ in range(rng.randint(0, 3))]]
    if r < 0.95:
        return ["complex", rng.choice([{"f": "f32"}, {"f": "f64"}, {"w": 32, "s": 0}])]
    return ["none"]


IDENT_MAPS = ["() -> ()", "(d0) -> (d0)", "(d0, d1) -> (d1, d0)", "(d0, d1, d2) -> (d2, d0, d1)"]


def rand_strided(rng, rank):
    """StridedLayoutAttr: static (zero / positive / negative / huge) and dynamic (None) strides and offset"""
    return ["strided", [rng.choice([1, 4, 0, -2, None, None, 10**12]) for _ in range(rank)],
            rng.choice([0, 0, 5, -3, None, None, 2**40])]


def rand_loc(rng, depth):
    r = rng.random()
    if depth <= 0 or r < 0.3:
        return ["loc", "unknown"]
    if r < 0.55:
        return ["loc", "file", rand_text(rng, rng.random() < 0.8), rng.randint(0, 10**6), rng.randint(0, 200)]
    if r < 0.75:
        return ["loc", "name", rand_text(rng, rng.random() < 0.8), rand_loc(rng, depth - 1) if rng.random() < 0.5 else None]
    if r < 0.9:
        return ["loc", "callsite", rand_loc(rng, depth - 1), rand_loc(rng, depth - 1)]
    return ["loc", "fused", [rand_loc(rng, depth - 1) for _ in range(rng.randint(0, 3))],
            rng.choice([None, None, ["str", cps("meta")], ["int", 32, 0, 7]])]


AFFMAPS = ["(d0, d1) -> (d0, d1)", "(d0)[s0] -> (d0 + s0, d0 * 2)", "() -> ()", "(d0, d1)[s0, s1] -> (d0 floordiv 4, d1 mod 3 + s1)",
           "(d0) -> (d0 ceildiv 8, -d0, d0 * -3 + 7)", "(d0, d1, d2) -> (d2, d0)", "() -> (5)", "()[s0] -> (s0, -7)",
           "(d0) -> ()", "(d0)[s0, s1] -> (-d0 - s0 * 2, (d0 + 1) floordiv 2, d0 mod 4 + s1 * 0)",
           "(d0, d1) -> (d0 * 1099511627776 + d1, 0)"]
AFFSETS = ["(d0)[s0] : (d0 - s0 >= 0, d0 == 0)", "(d0) : (1 == 0)", "(d0, d1) : (d0 - d1 >= 0, d1 - 5 >= 0, d0 + d1 * -2 == 0)",
           "()[s0] : (s0 - 1 >= 0)", "(d0) : (d0 floordiv 2 - 1 >= 0, d0 mod 3 == 0)"]


def rand_special(rng, depth):
    """values with `absent / dynamic / empty` special cases that the plain generators rarely hit"""
    r = rng.random()
    if r < 0.2:
        return rand_strided(rng, rng.randint(0, 3))
    if r < 0.3:
        return ["noneattr"]
    if r < 0.42:
        return ["opaque", rand_text(rng, rng.random() < 0.7), rand_text(rng, rng.random() < 0.7),
                rng.choice([None, ["ety", rand_etype(rng)], ["none"]])]
    if r < 0.5:
        return ["affset", rng.choice(AFFSETS)]
    if r < 0.64:
        et = rng.choice([{"f": "f32"}, {"f": "f64"}, {"f": "f16"}, {"w": 32, "s": 0}, {"w": 8, "s": 1}])
        n = rng.choice([1, 2, 2, 3])
        flat = rand_elem_payloads(rng, et, 2 * n, payload_pool(rng, et["f"], 3) if "f" in et else None)
        if rng.random() < 0.25:
            flat = flat[:2] * n
        return ["dense_complex", et, [n], [flat[2 * i:2 * i + 2] for i in range(n)]]
    if r < 0.72:
        return ["dense_resource", rng.choice([cps("blob1"), cps("a.b_c$"), rand_name(rng)]),
                ["shaped", "tensor", ["ety", rand_etype(rng)], [2, 3], None]]
    if r < 0.8:
        return ["intattr", rng.choice([0, 5, -5, 2**70, -2**63])]
    if r < 0.92:
        return ["floatdata", rng.choice([b64(v) for v in (1.5, -0.0, 0.1, 1e300, 1e-7, 1e22, 123456789.0, 5e-324)]
                                        + [0x7FF8000000000000, 0x7FF0000000000000, 0xFFF0000000000000, rng.getrandbits(64)])]
    return ["signedness", rng.randrange(3)]


def rand_attr(rng, depth):
    r = rng.random()
    if depth > 0 and r < 0.3:
        if rng.random() < 0.5:
            return ["array", [rand_attr(rng, depth - 1) for _ in range(rng.randint(0, 4))]]
        keys, items = set(), []
        for _ in range(rng.randint(0, 4)):
            k = rand_name(rng)
            if tuple(k) not in keys and not has_surrogate(k):
                keys.add(tuple(k))
                items.append([k, rand_attr(rng, depth - 1)])
        return ["dict", items]
    r = rng.random()
    if r < 0.16:
        c = rng.choice(int_cases(rng, 3))
        return ["int", c["w"], c["s"], c["v"]]
    if r < 0.32:
        name = rng.choice(MAIN_FT * 4 + list(FTYPES))
        p = rng.choice(payload_pool(rng, name, 3))
        try:
            return ["float", name, float_value(name, p)]
        except BaseException:  # noqa: BLE001
            return ["unit"]
    if r < 0.42:
        return ["str", rand_text(rng)]
    if r < 0.47:
        return ["bytes", [rng.randrange(256) for _ in range(rng.randint(0, 6))]]
    if r < 0.6:
        c = rng.choice(dense_cases(rng, 2, ELEM_TYPES + EXTRA_ELEM_TYPES))
        kind = rng.choice(["tensor", "tensor", "vector", "memref"]) if c["shape"] and all(d > 0 for d in c["shape"]) else "tensor"
        return ["dense", kind, c["et"], c["shape"], c["payloads"]]
    if r < 0.7:
        c = rng.choice(densearray_cases(rng, 2))
        return ["densearray", c["et"], c["payloads"]]
    if r < 0.77:
        return ["symref", rand_name(rng) if rng.random() < 0.8 else cps("f"), [rand_name(rng) for _ in range(rng.choice([0, 0, 1, 2]))]]
    if r < 0.8:
        return ["unit"]
    if r < 0.87:
        return rand_loc(rng, 2)
    if r < 0.9:
        return ["affmap", rng.choice(AFFMAPS)]
    if r < 0.945:
        return rand_special(rng, depth)
    return rand_type(rng, 2)


def attr_family(ctx, n):
    """full-attribute round trip on recursively generated builtin attributes (oracle only: no Coq model)"""
    rng = ctx.rng
    cases = [{"t": rand_attr(rng, 2)} for _ in range(n)]
    cases += [{"t": rand_special(rng, 2) if i % 2 else rand_type(rng, 2)} for i in range(n // 3)]
    active = ctx.active_known_ids()
    fails, known_hits, kinds, nontriv = [], {}, {}, 0
    for c in cases:
        if has_surrogate([x for x in _flat_ints(c["t"])]):
            pass
        r = attr_impl(c)
        ok, why = attr_holds(c, r)
        kinds[c["t"][0]] = kinds.get(c["t"][0], 0) + 1
        if r[0] == 0:
            nontriv += 1
            ctx.nontrivial.add(("attr", repr(c["t"])[:300]))
        if not ok:
            kid = attr_known(c, r, active)
            if kid and kid in active:
                known_hits[kid] = known_hits.get(kid, 0) + 1
            else:
                fails.append((c, r, why))
    ctx.evaluations += len(cases)
    ctx.coverage.setdefault("families", {})["full-attribute-roundtrip (oracle only)"] = {
        "cases": len(cases), "constructed_and_printed": nontriv, "oracle_failures": len(fails),
        "known_finding_hits": known_hits, "top_level_kinds": kinds}
    if fails:
        fails.sort(key=lambda x: len(repr(x[0])))
        c, r, why = fails[0]
        ctx.violation({"family": "attr", "case": c, "impl_result": r, "oracle": why, "other_failing_cases": len(fails) - 1})


def _flat_ints(t):
    for x in t:
        if isinstance(x, list):
            yield from _flat_ints(x)
        elif isinstance(x, int):
            yield x


# ---------------------------------------------------------------------------- driver
def replay_case(ctx, w):
    fam = w.get("family")
    if fam not in FAMILIES:
        print("no single-case replay for", fam)
        return 0
    impl, holds = FAMILIES[fam][:2]
    c = w.get("case", w)
    r = impl(c)
    print("impl result:", r)
    print("oracle:", holds(c, r) if holds else "correspondence-only family")
    return 0


FAMILIES = {
    "int": (int_impl, int_holds), "bytes": (bytes_impl, bytes_holds), "string": (string_impl, string_holds),
    "symref": (symref_impl, symref_holds), "dictkey": (dictkey_impl, dictkey_holds), "float": (float_impl, float_holds),
    "dense": (dense_impl, dense_holds), "densearray": (densearray_impl, densearray_holds), "attr": (attr_impl, attr_holds),
    "literal-lexing (malformed stream)": (lit_impl, None), "token-stream": (lex_impl, None),
}


def run_specs(ctx: Ctx, specs):
    """like common.differential, but all families are evaluated by ONE wave of coqc shards (start-up of coqc
    dominates on a loaded machine); only ids listed (unfixed) in known_findings.d/C06.json suppress a failure"""
    import time

    from harness.common import _report, eval_cases
    t0 = time.time()
    active = ctx.active_known_ids()
    evs, exprs = [], []
    for sp in specs:
        evs.append(eval_cases(sp.cases, sp.impl, sp.holds, sp.known, sp.nontrivial))
        exprs.append([sp.coq_expr(c) for c in sp.cases])
    flat = [(len(e), fi, ci, e) for fi, es in enumerate(exprs) for ci, e in enumerate(es)]
    nsh = 8
    # balance the shards by expression size (parsing cost is proportional to it)
    flat.sort(reverse=True)
    bins = [[0, []] for _ in range(nsh)]
    for item in flat:
        b = min(bins, key=lambda x: x[0])
        b[0] += item[0]
        b[1].append(item)
    per = max(len(b[1]) for b in bins)
    order = []
    for b in bins:
        pad = per - len(b[1])
        order += b[1] + [(0, -1, -1, "L []")] * pad
    model, model_err = None, None
    try:
        res = ctx.coq_eval(REQ, [o[3] for o in order], shard=per)
        model = [[None] * len(es) for es in exprs]
        for o, r in zip(order, res):
            if o[1] >= 0:
                model[o[1]][o[2]] = r
    except ModelUnavailable as e:
        model_err = str(e)
    for fi, sp in enumerate(specs):
        fails, diverge, known_hits = [], [], {}
        for ci, (c, (r, ok, why, kid, nt)) in enumerate(zip(sp.cases, evs[fi])):
            if nt is not None:
                ctx.nontrivial.add((sp.name, nt))
            if not ok:
                if kid and kid in active:
                    known_hits[kid] = known_hits.get(kid, 0) + 1
                else:
                    fails.append((c, r, why))
            if model is not None and model[fi][ci] != r:
                diverge.append((c, r, model[fi][ci]))
        for c, e in list(zip(sp.cases, evs[fi]))[:1]:
            ctx.sample({"family": sp.name, "case": c, "impl": e[0]}, limit=12)
        ctx.evaluations += len(sp.cases)
        _report(ctx, sp.name, len(sp.cases), fails, diverge, known_hits, model_err, False, t0)


def run(ctx: Ctx):
    thorough = ctx.tier == "thorough"
    rng = ctx.rng
    k = 6 if thorough else 1
    for fam in ("string", "bytes", "dictkey", "dense", "densearray", "attr"):
        replay_findings(ctx, fam, FAMILIES[fam][0], FAMILIES[fam][1])
    keys = [{"k": n["root"]} for n in symref_cases(rng, 100 * k)]
    fcases = float_cases(rng, 24 * k, 4 * k)
    check_float_hyps(ctx, fcases)
    specs = [
        DiffSpec("int", REQ, int_cases(rng, 150 * k), int_impl,
                 lambda c: f"int_case {zc(c['w'])} {c['s']} {zc(c['v'])}", int_holds, None, int_nontrivial),
        DiffSpec("bytes", REQ, bytes_cases(rng, 60 * k), bytes_impl,
                 lambda c: f"bytes_case {FX} {zs(c['bs'])}", bytes_holds, bytes_known, bytes_nontrivial),
        DiffSpec("string", REQ, string_cases(rng, 150 * k), string_impl,
                 lambda c: f"string_case {FX} {zs(c['s'])}", string_holds, string_known, string_nontrivial),
        DiffSpec("literal-lexing (malformed stream)", REQ, lit_cases(rng, 200 * k), lit_impl,
                 lambda c: f"lit_case {FX} {zs(c['t'])}", None, None,
                 lambda c, r: tuple(c["t"]) if r[0] != 0 or r[1][0] == 9 else None),
        DiffSpec("token-stream", REQ, lex_cases(rng, 200 * k), lex_impl,
                 lambda c: f"lex_case {FX} {zs(c['t'])}", None, None,
                 lambda c, r: tuple(c["t"]) if r[0] != 0 or any(t[0] in (5, 6) for t in r[1]) else None),
        DiffSpec("symref", REQ, symref_cases(rng, 100 * k), symref_impl,
                 lambda c: f"symref_case {FX} {zs(c['root'])} [{';'.join(zs(n) for n in c['nested'])}]",
                 symref_holds, None, symref_nontrivial),
        DiffSpec("dictkey", REQ, keys, dictkey_impl,
                 lambda c: f"dictkey_case {FX} {zs(c['k'])} {coq_text(cps(KEY_REST))}",
                 dictkey_holds, dictkey_known, dictkey_nontrivial),
        DiffSpec("float", REQ, fcases, float_impl, float_coq, float_holds, None, float_nontrivial),
        DiffSpec("dense", REQ, dense_cases(rng, 120 * k), dense_impl, dense_coq, dense_holds, dense_known, dense_nontrivial),
        DiffSpec("densearray", REQ, densearray_cases(rng, 60 * k), densearray_impl, densearray_coq, densearray_holds,
                 densearray_known, lambda c, r: (str(c["et"]), tuple(c["payloads"])) if c["payloads"] else None),
    ]
    run_specs(ctx, specs)
    if thorough:
        exhaustive_repr_check(ctx)
    attr_family(ctx, 5000 if thorough else 600)
    ctx.coverage["rule"] = __doc__.split("\n\n", 1)[1][:1500]
    ctx.coverage["model_repair_flags"] = {"C06-1 lexer": LEXER_FIXED, "C06-2 dense hex": DENSE_HEX_FIXED,
                                          "C06-3 array hex": ARRAY_HEX_FIXED, "C06-4 splat": SPLAT_FIXED}
